"""md.load('nitrogen.arc', stride=3) raised _EOF (C02): ArcTrajectoryFile.read discards stride-1 frames after every frame it keeps and did not expect the
file to end there.  Exits 0 when every stride loads the frames 0, s, 2s, ... of the full load."""
import sys
import numpy as np
import mdtraj as md

f = "/repo/tests/data/nitrogen.arc"
full = md.load(f)
bad = []
for s in (1, 2, 3, 7, 49, 50, 51):
    try:
        part = md.load(f, stride=s)
    except Exception as e:      # noqa
        bad.append("stride=%d raises %s" % (s, type(e).__name__))
        continue
    if part.n_frames != len(range(0, full.n_frames, s)) or not np.array_equal(part.xyz, full.xyz[::s]):
        bad.append("stride=%d: %d frames" % (s, part.n_frames))
print("\n".join(bad) or "OK")
sys.exit(1 if bad else 0)
