"""load_pdbx: load_frame(f, k).time must equal load(f)[k].time.  OpenMM is not installed in this sandbox, so openmm.app.PDBxFile is replaced by a
minimal stand-in that serves 5 models of 3 atoms; everything else is mdtraj's own code (mdtraj/formats/pdbx.py: load_pdbx, PDBxTrajectoryFile)."""
import os, sys, types
sys.path.insert(0, os.getcwd())
import numpy as np
import mdtraj as md

top = md.Topology()
ch = top.add_chain()
res = top.add_residue("ALA", ch)
for nm in ("N", "CA", "C"):
    top.add_atom(nm, md.element.carbon, res)


class _Q(list):
    def value_in_unit(self, unit):
        return np.asarray(self)


class _OmmTop:
    def getPeriodicBoxVectors(self):
        return None


class PDBxFile:
    def __init__(self, filename):
        self.topology = _OmmTop()
        self._positionsNumpy = [(np.arange(9, dtype=float).reshape(3, 3) + 100 * frame) for frame in range(5)]

    def getNumFrames(self):
        return len(self._positionsNumpy)

    def getPositions(self, asNumpy=True, frame=0):
        return _Q(self._positionsNumpy[frame].tolist())


omm, app, unit = types.ModuleType("openmm"), types.ModuleType("openmm.app"), types.ModuleType("openmm.unit")
app.PDBxFile = PDBxFile
unit.nanometers = unit.nanometer = "nm"
unit.angstroms = "A"
unit.degrees = "deg"
omm.app, omm.unit = app, unit
sys.modules.update({"openmm": omm, "openmm.app": app, "openmm.unit": unit})
md.Topology.from_openmm = classmethod(lambda cls, t: top)
import mdtraj.utils.unit as _U
_U.openmm_unit = types.SimpleNamespace(Quantity=())      # in_units_of looks for openmm Quantities when "openmm.unit" is importable
from mdtraj.formats.pdbx import load_pdbx
open("x_demo.pdbx", "w").write("data_x\n")
full = load_pdbx("x_demo.pdbx")
one = load_pdbx("x_demo.pdbx", frame=3)
print("load(f).time           =", full.time)
print("load(f)[3].time        =", full[3].time)
print("load_frame(f, 3).time  =", one.time)
assert np.allclose(one.xyz, full[3].xyz)
assert np.array_equal(one.time, full[3].time), "load_frame(f, 3).time != load(f)[3].time"
