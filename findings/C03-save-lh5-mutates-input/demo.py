"""Trajectory.save_lh5 changes the coordinates of the trajectory it saves (C03): _convert_to_lossy_integers multiplies the caller's array by 1000 in
place and divides it again - not bit-identical in float32.  Exits 0 when the input is unchanged."""
import os, sys, tempfile
import numpy as np
import mdtraj as md

t = md.load("/repo/tests/data/frame0.h5")
t.xyz = (t.xyz + np.random.RandomState(0).uniform(-1e-3, 1e-3, t.xyz.shape)).astype(np.float32)   # coordinates that are not multiples of 0.001 nm
before = t.xyz.copy()
fn = os.path.join(tempfile.mkdtemp(), "x.lh5")
try:
    t.save(fn)
except TypeError as e:          # the topology table cannot be stored with this pytables / pandas pair; the coordinates were written before
    print("save raised TypeError after the coordinates were written:", str(e)[:60])
changed = int((t.xyz != before).sum())
print("coordinates changed by save_lh5:", changed, "of", before.size, "max |delta| =", float(np.abs(t.xyz - before).max()))
sys.exit(1 if changed else 0)
