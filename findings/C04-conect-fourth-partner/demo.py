"""PDB CONECT records of an atom with more than four bonds drop every fourth partner (C04): when both ends of a bond lose each other that way the bond
is gone after save + load."""
import sys, os, tempfile
import numpy as np
import mdtraj as md
from mdtraj.core.topology import Topology
from mdtraj.core import element as elem

top = Topology()
ch = top.add_chain()
res = top.add_residue("LIG", ch)
a = top.add_atom("S1", elem.sulfur, res)
b = top.add_atom("S2", elem.sulfur, res)
xs = [top.add_atom("F%d" % i, elem.fluorine, res) for i in range(1, 5)]
ys = [top.add_atom("F%d" % i, elem.fluorine, res) for i in range(5, 9)]
for x in xs[:3]:
    top.add_bond(a, x)
for y in ys[:3]:
    top.add_bond(b, y)
top.add_bond(a, b)
top.add_bond(a, xs[3])
top.add_bond(b, ys[3])
xyz = np.arange(top.n_atoms * 3, dtype=float).reshape(1, -1, 3) / 10.0
t = md.Trajectory(xyz, top)
d = tempfile.mkdtemp()
fn = os.path.join(d, "x.pdb")
t.save(fn)
print("".join(l for l in open(fn) if l.startswith("CONECT")))
t2 = md.load(fn, standard_names=False)
want = sorted(tuple(sorted((p.index, q.index))) for p, q in top.bonds)
got = sorted(tuple(sorted((p.index, q.index))) for p, q in t2.topology.bonds)
print("bonds saved :", want)
print("bonds loaded:", got)
assert got == want, "bond graph changed by save + load: missing %s" % sorted(set(want) - set(got))
print("OK")
