"""Trajectory.superpose left a frame where it was when the optimal rotation is a half turn about a coordinate axis (C06): msdFromMandG took the
quaternion from the first row of adj(K - lambda I), which is the eigenvector times its scalar part - zero for every rotation by 180 degrees - and fell
back to the identity ("UNCONVERGED ROTATION MATRIX").  Exits 0 when the unfitted deviation after superpose equals the fitted rmsd."""
import sys
import numpy as np
import mdtraj as md
from mdtraj.core import element as el

rng = np.random.RandomState(0)
top = md.Topology()
res = top.add_residue("ALA", top.add_chain())
n = 10
for i in range(n):
    top.add_atom("C%d" % i, el.carbon, res)
x = rng.randn(n, 3).astype(np.float32)
x -= x.mean(0)
bad = []
for name, R in (("180 degrees about z", np.diag([-1.0, -1.0, 1.0])), ("180 degrees about x", np.diag([1.0, -1.0, -1.0])), ("180 degrees about y", np.diag([-1.0, 1.0, -1.0]))):
    y = (x @ R.T).astype(np.float32)
    t = md.Trajectory(np.array([x, y]), top)
    fitted = md.rmsd(t, t, 0)[1]
    s = t.superpose(t, 0)
    left = float(np.sqrt(((s.xyz[1] - s.xyz[0]) ** 2).sum(1).mean()))
    print("%s: rmsd %.2e, deviation left after superpose %.3f" % (name, fitted, left))
    if abs(left - fitted) > 1e-4:
        bad.append(name)
sys.exit(1 if bad else 0)
