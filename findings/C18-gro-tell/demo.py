"""GroTrajectoryFile.tell() returned 0 whatever had been read (C18): read() never advanced the frame counter that tell() reports.
Exits 0 when tell() is the number of frames consumed."""
import os, sys, tempfile
import mdtraj as md
from mdtraj.formats import GroTrajectoryFile

t = md.load("/repo/tests/data/frame0.h5")[:5]
fn = os.path.join(tempfile.mkdtemp(), "x.gro")
t.save(fn)
seen = []
with GroTrajectoryFile(fn) as f:
    seen.append(f.tell())
    f.read(n_frames=2)
    seen.append(f.tell())
    f.read(n_frames=1, stride=2)
    seen.append(f.tell())
    f.read()
    seen.append(f.tell())
print("tell() after open, read(2), read(1, stride=2), read():", seen)
sys.exit(0 if seen == [0, 2, 4, 5] else 1)
