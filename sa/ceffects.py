"""Which pointer / reference parameters does a C or C++ function write through?

Decided on the clang AST of the function body (assignments, ++/--, compound
assignments through subscripts / dereferences of the parameter or of a local
pointer initialised from it, SSE store intrinsics, memcpy-like calls, and calls to
functions of the same translation unit analysed recursively).  The answer for
each parameter is one of
    ('writes', witness)   a definite store was found
    ('clean', '')         no store on any path (and every callee is known)
    ('unknown', why)      passed to a function whose body is not in the TU with a non-const parameter
"""
from __future__ import annotations

import re

from . import cfront as C
from .core import AnalysisError

STORE_INTRINSICS = {"_mm_store_ps", "_mm_storeu_ps", "_mm_store_ss", "_mm_storel_pi", "_mm_storeh_pi", "_mm_store_sd",
                    "_mm_stream_ps", "_mm_store1_ps", "_mm_store_si128", "_mm_storeu_si128", "vst1q_f32"}
DEST_FIRST = {"memcpy", "memset", "memmove", "strcpy", "strncpy", "sprintf", "snprintf"}
HARMLESS = {"free", "printf", "fprintf", "puts", "abs", "fabs", "sqrt", "sqrtf", "floor", "floorf", "roundf", "round",
            "acos", "acosf", "atan2", "atan2f", "cos", "sin", "exp", "expf", "log", "isnan", "min", "max", "calloc", "malloc",
            "_mm_load_ps", "_mm_loadu_ps", "_mm_load_ss", "_mm_loadl_pi", "_mm_loadh_pi", "_mm_load1_ps", "_mm_set_ps",
            "_mm_prefetch", "assert", "__assert_fail", "exit", "fflush", "omp_get_thread_num", "omp_get_num_threads"}

_memo = {}


def _is_ptr_or_ref(t):
    return "*" in t or "&" in t or "[" in t


def _const_pointee(t):
    # 'const float *', 'const std::vector<int> &' -> pointee const
    return bool(re.match(r"\s*const\b", t)) or bool(re.search(r"\bconst\s*[\*&]", t) and not re.match(r"^[^*&]*[\*&]\s*const\s*$", t) and t.strip().startswith("const"))


def written_params(cf, rel, fname, depth=0):
    """{param index: (status, witness)} for pointer/reference parameters of fname in TU rel."""
    key = (cf.repo, rel, fname)
    if key in _memo:
        return _memo[key]
    _memo[key] = {}   # recursion guard
    try:
        fn = cf.function(rel, fname)
    except AnalysisError:
        _memo[key] = None
        return None
    ps = C.fparams(fn)
    pid = {p["id"]: i for i, p in enumerate(ps)}
    res = {}
    for i, p in enumerate(ps):
        t = C.qtype(p)
        if _is_ptr_or_ref(t):
            res[i] = ("clean", "")
    body = C.body_of(fn)
    # local aliases: T* q = p + k;  T* q = &p[i];   (flow-insensitive, transitive)
    alias = {}   # decl id -> param index
    changed = True
    while changed:
        changed = False
        for n in C.walk(body):
            if n["kind"] == "VarDecl" and _is_ptr_or_ref(C.qtype(n)) and C.kids(n):
                nm, rid = C.root_var(C.kids(n)[-1])
                tgt = pid.get(rid, alias.get(rid))
                if tgt is not None and alias.get(n["id"]) != tgt:
                    alias[n["id"]] = tgt
                    changed = True
            if n["kind"] == "BinaryOperator" and n.get("opcode") == "=":
                l, r = C.kids(n)
                ls = C.strip(l)
                if ls.get("kind") == "DeclRefExpr" and _is_ptr_or_ref(C.qtype(ls)):
                    nm, rid = C.root_var(r)
                    tgt = pid.get(rid, alias.get(rid))
                    lid = ls["referencedDecl"]["id"]
                    if tgt is not None and lid not in pid and alias.get(lid) != tgt:
                        alias[lid] = tgt
                        changed = True

    def param_of(expr):
        nm, rid = C.root_var(expr)
        if rid in pid:
            return pid[rid]
        return alias.get(rid)

    def mark(i, status, wit):
        if i is None or i not in res:
            return
        if res[i][0] == "writes":
            return
        if status == "writes" or res[i][0] == "clean":
            res[i] = (status, wit)

    def is_pointee_lvalue(e):
        e = C.strip(e)
        k = e.get("kind")
        if k == "ArraySubscriptExpr":
            return True
        if k == "UnaryOperator" and e.get("opcode") == "*":
            return True
        if k == "MemberExpr":
            if e.get("isArrow"):
                return True
            return is_pointee_lvalue(C.kids(e)[0]) if C.kids(e) else False
        if k == "CXXOperatorCallExpr" and (C.callee_name(e) or "").endswith("[]"):
            return True
        if k == "DeclRefExpr" and "&" in C.qtype(e):
            # a reference parameter used directly
            return True
        return False

    for n in C.walk(body):
        k = n["kind"]
        if k in ("BinaryOperator", "CompoundAssignOperator") and (n.get("opcode") == "=" or k == "CompoundAssignOperator"):
            l = C.kids(n)[0]
            if is_pointee_lvalue(l):
                mark(param_of(l), "writes", "%s:%s `%s`" % (rel, C.line(n), C.text(n)[:80]))
        elif k == "UnaryOperator" and n.get("opcode") in ("++", "--"):
            l = C.kids(n)[0]
            if is_pointee_lvalue(l):
                mark(param_of(l), "writes", "%s:%s `%s`" % (rel, C.line(n), C.text(n)[:80]))
        elif k == "CXXOperatorCallExpr":
            op = C.callee_name(n) or ""
            if op in ("operator=", "operator+=", "operator-=", "operator*=", "operator/=") and C.call_args(n):
                l = C.call_args(n)[0]
                if is_pointee_lvalue(l):
                    mark(param_of(l), "writes", "%s:%s `%s`" % (rel, C.line(n), C.text(n)[:80]))
        elif k in ("CallExpr", "CXXMemberCallExpr"):
            cn = C.callee_name(n)
            args = C.call_args(n)
            if cn in STORE_INTRINSICS or cn in DEST_FIRST:
                if args:
                    mark(param_of(args[0]), "writes", "%s:%s %s(...) stores through its first argument" % (rel, C.line(n), cn))
                continue
            if k == "CXXMemberCallExpr":
                # object.method(...): non-const method on a parameter-rooted object
                callee = C.strip(C.kids(n)[0])
                obj = C.kids(callee)[0] if C.kids(callee) else None
                if obj is not None:
                    oi = param_of(obj)
                    if oi is not None and cn in ("push_back", "resize", "clear", "insert", "erase", "assign", "pop_back", "swap", "reserve"):
                        mark(oi, "writes", "%s:%s .%s() on the parameter" % (rel, C.line(n), cn))
            if cn is None or cn in HARMLESS:
                continue
            involved = [(j, param_of(a)) for j, a in enumerate(args)]
            involved = [(j, i) for (j, i) in involved if i is not None and _is_ptr_or_ref(C.qtype(C.strip(args[j])) or "*")]
            if not involved:
                continue
            sub = written_params(cf, rel, cn, depth + 1) if depth < 4 else None
            if sub is None:
                # body not in this TU: use the callee's type
                ft = C.qtype(C.strip(C.kids(n)[0]))
                m = re.search(r"\((.*)\)", ft)
                ptypes = [x.strip() for x in m.group(1).split(",")] if m else []
                for (j, i) in involved:
                    pt = ptypes[j] if j < len(ptypes) else ""
                    if pt and ("*" in pt or "&" in pt) and not pt.startswith("const"):
                        mark(i, "unknown", "%s:%s passed to %s (body not in TU) as `%s`" % (rel, C.line(n), cn, pt))
            else:
                for (j, i) in involved:
                    if j in sub:
                        if sub[j][0] == "writes":
                            mark(i, "writes", "%s:%s via %s(): %s" % (rel, C.line(n), cn, sub[j][1]))
                        elif sub[j][0] == "unknown":
                            mark(i, "unknown", sub[j][1])
    _memo[key] = res
    return res
