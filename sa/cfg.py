"""Statement-level control-flow graph for Python function bodies, dominators,
reachability and a small predicate-abstraction dataflow.

Nodes are integers; ``cfg.stmt[n]`` is the ast node (statement, or the test /
iter expression owner for branch heads), ``cfg.kind[n]`` one of
entry | exit | raise | stmt | test | iter | handler | join.
Edges carry an optional branch condition ``(expr, polarity)``.
"""
from __future__ import annotations

import ast


class CFG:
    def __init__(self, fn):
        self.fn = fn
        self.stmt = {}
        self.kind = {}
        self.succ = {}   # n -> list of (m, cond)
        self.pred = {}
        self._n = 0
        self.entry = self._new(None, "entry")
        self.exit = self._new(None, "exit")       # normal return / fall off the end
        self.raise_exit = self._new(None, "raise")  # exceptional exit
        self.node_of = {}  # ast stmt -> node id (head node for compound statements)
        # frames: (break_target, continue_target); handlers stack for try
        self._loops = []
        self._handlers = []  # list of lists of handler entry nodes
        self._finals = []
        last = self._seq(fn.body, [(self.entry, None)])
        for (n, c) in last:
            self._edge(n, self.exit, c)

    # -- construction -------------------------------------------------------
    def _new(self, stmt, kind):
        n = self._n
        self._n += 1
        self.stmt[n] = stmt
        self.kind[n] = kind
        self.succ[n] = []
        self.pred[n] = []
        return n

    def _edge(self, a, b, cond=None):
        self.succ[a].append((b, cond))
        self.pred[b].append((a, cond))

    def _link(self, frontier, n):
        for (p, c) in frontier:
            self._edge(p, n, c)

    def _seq(self, body, frontier):
        for st in body:
            frontier = self._stmt(st, frontier)
        return frontier

    def _raise_targets(self):
        """Where does an exception go from here?"""
        if self._handlers:
            return self._handlers[-1]
        return [self.raise_exit]

    def _stmt(self, st, frontier):
        if isinstance(st, ast.If):
            n = self._new(st, "test")
            self.node_of[st] = n
            self._link(frontier, n)
            self._maybe_raise(n)
            t = self._seq(st.body, [(n, (st.test, True))])
            f = self._seq(st.orelse, [(n, (st.test, False))])
            return t + f
        if isinstance(st, (ast.For, ast.AsyncFor)):
            n = self._new(st, "iter")
            self.node_of[st] = n
            self._link(frontier, n)
            self._maybe_raise(n)
            brk = []
            self._loops.append((brk, n))
            b = self._seq(st.body, [(n, ("iter", True))])
            self._loops.pop()
            self._link(b, n)
            e = self._seq(st.orelse, [(n, ("iter", False))])
            return e + brk
        if isinstance(st, ast.While):
            n = self._new(st, "test")
            self.node_of[st] = n
            self._link(frontier, n)
            self._maybe_raise(n)
            brk = []
            self._loops.append((brk, n))
            b = self._seq(st.body, [(n, (st.test, True))])
            self._loops.pop()
            self._link(b, n)
            infinite = isinstance(st.test, ast.Constant) and bool(st.test.value)
            e = [] if infinite else self._seq(st.orelse, [(n, (st.test, False))])
            return e + brk
        if isinstance(st, (ast.With, ast.AsyncWith)):
            n = self._new(st, "stmt")
            self.node_of[st] = n
            self._link(frontier, n)
            self._maybe_raise(n)
            return self._seq(st.body, [(n, None)])
        if isinstance(st, ast.Try) or (hasattr(ast, "TryStar") and isinstance(st, ast.TryStar)):
            hs = []
            for h in st.handlers:
                hn = self._new(h, "handler")
                self.node_of[h] = hn
                hs.append(hn)
            fin_entry = None
            if st.finalbody:
                # exceptional entry into finally (then propagates outward)
                fin_entry = self._new(st, "join")
            targets = list(hs)
            if not any(h.type is None or (isinstance(h.type, ast.Name) and h.type.id in ("Exception", "BaseException")) for h in st.handlers):
                targets.append(fin_entry if fin_entry is not None else None)
            outer = self._raise_targets()
            tlist = []
            for t in targets:
                if t is None:
                    tlist.extend(outer)
                else:
                    tlist.append(t)
            self._handlers.append(tlist)
            head = self._new(st, "join")
            self.node_of[st] = head
            self._link(frontier, head)
            b = self._seq(st.body, [(head, None)])
            self._handlers.pop()
            b = self._seq(st.orelse, b)
            # handlers run with the outer handler context (finally first if present)
            if fin_entry is not None:
                self._handlers.append([fin_entry])
            hb = []
            for h, hn in zip(st.handlers, hs):
                hb += self._seq(h.body, [(hn, None)])
            if fin_entry is not None:
                self._handlers.pop()
            out = b + hb
            if st.finalbody:
                # normal path through finally
                out = self._seq(st.finalbody, out)
                # exceptional path through a second copy of finally
                exc = self._seq(st.finalbody, [(fin_entry, None)])
                for (p, c) in exc:
                    for t in outer:
                        self._edge(p, t, c)
            return out
        n = self._new(st, "stmt")
        self.node_of[st] = n
        self._link(frontier, n)
        if isinstance(st, ast.Return):
            self._maybe_raise(n)
            self._edge(n, self.exit)
            return []
        if isinstance(st, ast.Raise):
            for t in self._raise_targets():
                self._edge(n, t)
            return []
        if isinstance(st, ast.Break):
            if self._loops:
                self._loops[-1][0].append((n, None))
            return []
        if isinstance(st, ast.Continue):
            if self._loops:
                self._edge(n, self._loops[-1][1])
            return []
        if isinstance(st, ast.Assert):
            for t in self._raise_targets():
                self._edge(n, t, (st.test, False))
            return [(n, (st.test, True))]
        self._maybe_raise(n)
        return [(n, None)]

    def _maybe_raise(self, n):
        """Inside a try body any statement may transfer to the handlers."""
        if self._handlers:
            for t in self._handlers[-1]:
                self._edge(n, t, ("exc", True))

    # -- queries ------------------------------------------------------------
    def nodes(self):
        return range(self._n)

    def reachable(self, start, removed=(), forward=True, skip_exc=False):
        adj = self.succ if forward else self.pred
        seen = set()
        stack = [start] if start not in removed else []
        while stack:
            n = stack.pop()
            if n in seen:
                continue
            seen.add(n)
            for (m, c) in adj[n]:
                if skip_exc and c is not None and c[0] == "exc":
                    continue
                if m not in seen and m not in removed:
                    stack.append(m)
        return seen

    def reachable_under(self, start, facts, atom_of, removed=()):
        """Forward reachability that does not follow branch edges refuted by the assumed facts."""
        seen = set()
        stack = [start] if start not in removed else []
        while stack:
            n = stack.pop()
            if n in seen:
                continue
            seen.add(n)
            for (m, c) in self.succ[n]:
                if m in seen or m in removed:
                    continue
                if c is not None and not isinstance(c[0], str):
                    if not refine(dict(facts), c[0], c[1], atom_of):
                        continue
                stack.append(m)
        return seen

    def dominators(self):
        alln = set(self.reachable(self.entry))
        dom = {n: set(alln) for n in alln}
        dom[self.entry] = {self.entry}
        changed = True
        order = sorted(alln)
        while changed:
            changed = False
            for n in order:
                if n == self.entry:
                    continue
                ps = [p for (p, _) in self.pred[n] if p in alln]
                new = set.intersection(*(dom[p] for p in ps)) if ps else set()
                new = new | {n}
                if new != dom[n]:
                    dom[n] = new
                    changed = True
        return dom

    def dominates(self, a, b, dom=None):
        dom = dom or self.dominators()
        return b in dom and a in dom[b]

    def find(self, pred):
        """node ids whose stmt satisfies pred(ast_node)."""
        return [n for n in self.nodes() if self.stmt[n] is not None and self.kind[n] in ("stmt", "test", "iter") and pred(self.stmt[n])]

    def own_exprs(self, n):
        """The expressions evaluated *at* node n (not in nested bodies)."""
        st = self.stmt[n]
        k = self.kind[n]
        if st is None:
            return []
        if k == "test":
            return [st.test]
        if k == "iter":
            return [st.iter, st.target]
        if isinstance(st, (ast.With, ast.AsyncWith)):
            return [i.context_expr for i in st.items] + [i.optional_vars for i in st.items if i.optional_vars is not None]
        if k in ("handler", "join"):
            return []
        if isinstance(st, (ast.FunctionDef, ast.AsyncFunctionDef, ast.ClassDef)):
            return []
        return [st]

    def node_containing(self, target):
        """CFG node whose own expressions contain ast node ``target``."""
        for n in self.nodes():
            for e in self.own_exprs(n):
                for x in ast.walk(e):
                    if x is target:
                        return n
        return None

    # -- predicate abstraction ---------------------------------------------
    def worlds_at(self, atom_of, init=None, transfer=None):
        """Forward path-sensitive analysis of boolean atoms.

        ``atom_of(expr)`` maps an expression to an atom name (hashable) or None.
        The abstract state at a node is a *set of worlds*; a world is a partial
        assignment atom->bool describing one class of paths reaching the node.
        Returns {node: set(frozenset(items))} (empty set = unreachable).
        ``transfer(node_id, world_dict) -> world_dict`` may kill/generate facts.
        The lattice is finite (3^atoms worlds), so the fixpoint terminates.
        """
        IN = {n: set() for n in self.nodes()}
        IN[self.entry] = {frozenset((init or {}).items())}
        work = [self.entry]
        while work:
            n = work.pop()
            outs = set()
            for w in IN[n]:
                d = dict(w)
                if transfer is not None:
                    d = transfer(n, d)
                outs.add(frozenset(d.items()))
            for (m, cond) in self.succ[n]:
                res = set()
                for w in outs:
                    if cond is not None and not isinstance(cond[0], str):
                        for f in refine(dict(w), cond[0], cond[1], atom_of):
                            res.add(frozenset(f.items()))
                    else:
                        res.add(w)
                if not res <= IN[m]:
                    IN[m] |= res
                    work.append(m)
        return IN


def refine(facts, expr, polarity, atom_of):
    """Worlds (list of dicts) after taking the branch ``expr == polarity``."""
    a = atom_of(expr)
    if isinstance(a, tuple) and len(a) == 2 and a[0] == "~":
        a = a[1]
        polarity = not polarity
    if a is not None:
        if a in facts and facts[a] != polarity:
            return []
        f = dict(facts)
        f[a] = polarity
        return [f]
    if isinstance(expr, ast.Name) and expr.id in (getattr(atom_of, "definitions", None) or {}):
        # a local that names a condition (assigned once): the condition itself
        return refine(facts, atom_of.definitions[expr.id], polarity, atom_of)
    if isinstance(expr, ast.UnaryOp) and isinstance(expr.op, ast.Not):
        return refine(facts, expr.operand, not polarity, atom_of)
    if isinstance(expr, ast.BoolOp):
        conj = isinstance(expr.op, ast.And)
        if conj == polarity:
            worlds = [facts]
            for v in expr.values:
                nxt = []
                for w in worlds:
                    nxt.extend(refine(w, v, polarity, atom_of))
                worlds = nxt
            return worlds
        # (a and b) false  ==  a false, or a true and b false, ...
        res = []
        prefix = [facts]
        for v in expr.values:
            for w in prefix:
                res.extend(refine(w, v, polarity, atom_of))
            nxt = []
            for w in prefix:
                nxt.extend(refine(w, v, not polarity, atom_of))
            prefix = nxt
        return res
    return [facts]


def always_raises(cfg, start_nodes):
    """True if no normal exit is reachable from the given nodes."""
    for s in start_nodes:
        if cfg.exit in cfg.reachable(s):
            return False
    return True
