"""C / C++ front-end: clang-14 JSON AST of the kernels, with the flags of the real build.

``CFront(repo).functions(rel, names)`` returns FunctionDecl nodes (with bodies)
for the translation unit ``rel``.  ASTs are cached under /verif/.cache keyed by
a digest of the translation unit, its local headers and the flags, so the
cache can never serve a stale tree.
"""
from __future__ import annotations

import ast as pyast
import hashlib
import json
import os
import re
import subprocess

from .core import AnalysisError, VERIF

CACHE = os.path.join(VERIF, ".cache")
CLANG = "clang++"


def setup_table(repo):
    """{source rel path: {'includes': [...], 'defines': [...]}} read statically from setup.py."""
    p = os.path.join(repo, "setup.py")
    tab = {}
    if not os.path.exists(p):
        raise AnalysisError("setup.py vanished")
    tree = pyast.parse(open(p).read())
    for n in pyast.walk(tree):
        if isinstance(n, pyast.Call) and getattr(n.func, "id", None) in ("Extension", "StaticLibrary"):
            srcs, incs, defs = [], [], []
            for k in n.keywords:
                if k.arg in ("sources", "include_dirs") and isinstance(k.value, pyast.List):
                    vals = [e.value for e in k.value.elts if isinstance(e, pyast.Constant) and isinstance(e.value, str)]
                    if k.arg == "sources":
                        srcs = vals
                    else:
                        incs = vals
                if k.arg == "define_macros" and isinstance(k.value, pyast.List):
                    for e in k.value.elts:
                        try:
                            nm, v = pyast.literal_eval(e)
                            defs.append("%s=%s" % (nm, v))
                        except Exception:
                            pass
            for s in srcs:
                ent = tab.setdefault(s, {"includes": [], "defines": []})
                for i in incs:
                    if i not in ent["includes"]:
                        ent["includes"].append(i)
                for d in defs:
                    if d not in ent["defines"]:
                        ent["defines"].append(d)
    return tab


def _fill_locs(node, state):
    """clang elides file/line when unchanged: restore them in document order."""
    if isinstance(node, dict):
        if "offset" in node or "line" in node or "col" in node:
            if "file" in node:
                state["file"] = node["file"]
            else:
                node["file"] = state.get("file")
            if "line" in node:
                state["line"] = node["line"]
            else:
                node["line"] = state.get("line")
        for k, v in node.items():
            if isinstance(v, (dict, list)):
                _fill_locs(v, state)
    elif isinstance(node, list):
        for v in node:
            _fill_locs(v, state)


def _relativise(node, prefix):
    """Store repo-relative file names: the cache is shared between scratch copies of the repository."""
    if isinstance(node, dict):
        f = node.get("file")
        if isinstance(f, str) and f.startswith(prefix):
            node["file"] = f[len(prefix):]
        for v in node.values():
            if isinstance(v, (dict, list)):
                _relativise(v, prefix)
    elif isinstance(node, list):
        for v in node:
            _relativise(v, prefix)


def _parse_stream(txt):
    """clang prints 'Dumping <name>:' lines followed by one JSON object per match."""
    dec = json.JSONDecoder()
    i = 0
    res = []
    n = len(txt)
    while i < n:
        j = txt.find("{", i)
        if j < 0:
            break
        # skip 'Dumping ...' header text
        obj, end = dec.raw_decode(txt, j)
        res.append(obj)
        i = end
    return res


class CFront:
    def __init__(self, repo):
        self.repo = repo
        self.table = setup_table(repo)
        self._mem = {}

    def flags(self, rel):
        ent = self.table.get(rel)
        incs = list(ent["includes"]) if ent else []
        d = os.path.dirname(rel)
        for extra in (d, os.path.join(os.path.dirname(d), "include"), os.path.join(d, "kernels")):
            if extra not in incs and os.path.isdir(os.path.join(self.repo, extra)):
                incs.append(extra)
        fl = ["-fsyntax-only", "-fopenmp", "-msse3", "-msse4.1", "-w", "-Wno-everything"]
        if rel.endswith((".cpp", ".hpp", ".h")):
            fl += ["-x", "c++", "-std=c++11"]
        else:
            fl += ["-x", "c", "-std=gnu99"]
        if "theobald_rmsd" in rel or "rmsd/src" in rel:
            fl += ["-include", "pmmintrin.h"]
        for i in incs:
            fl += ["-I", os.path.join(self.repo, i)]
        fl += ["-idirafter", os.path.join(os.path.dirname(os.path.abspath(__file__)), "stubs")]   # omp.h declarations (gcc's header is not on clang's path)
        if ent:
            for dd in ent["defines"]:
                if "__NO_INTRINSICS" in dd:
                    continue   # this platform builds the SSE path
                fl += ["-D" + dd]
        return fl, incs

    def _digest(self, rel, incs, flt):
        h = hashlib.sha1()
        h.update(("v4|" + rel + "|" + flt + "|").encode())
        paths = [os.path.join(self.repo, rel)]
        for i in incs:
            d = os.path.join(self.repo, i)
            if os.path.isdir(d):
                for f in sorted(os.listdir(d)):
                    if f.endswith((".h", ".hpp")):
                        paths.append(os.path.join(d, f))
        for p in paths:
            try:
                with open(p, "rb") as f:
                    h.update(f.read())
            except OSError:
                pass
        return h.hexdigest()

    def dump(self, rel, flt):
        """Top-level AST nodes of translation unit ``rel`` whose qualified name contains ``flt``."""
        key = (rel, flt)
        if key in self._mem:
            return self._mem[key]
        full = os.path.join(self.repo, rel)
        if not os.path.exists(full):
            raise AnalysisError("anchor file vanished: %s" % rel)
        fl, incs = self.flags(rel)
        dg = self._digest(rel, incs, flt)
        cp = os.path.join(CACHE, dg + ".json")
        objs = None
        if os.path.exists(cp) and not os.environ.get("VERIF_NO_CACHE"):
            try:
                with open(cp) as f:
                    objs = json.load(f)
            except Exception:
                objs = None
        if objs is None:
            cmd = [CLANG] + fl + ["-Xclang", "-ast-dump=json", "-Xclang", "-ast-dump-filter=" + flt, full]
            try:
                r = subprocess.run(cmd, capture_output=True, text=True, timeout=300)
            except FileNotFoundError:
                raise AnalysisError("clang++ not found")
            if r.returncode != 0 and not r.stdout.strip():
                raise AnalysisError("clang failed on %s: %s" % (rel, r.stderr[:500]))
            errs = [l for l in r.stderr.split("\n") if " error: " in l]
            if errs:
                raise AnalysisError("clang reports errors in %s: %s" % (rel, errs[0]))
            objs = _parse_stream(r.stdout)
            _fill_locs(objs, {})
            _relativise(objs, self.repo.rstrip("/") + "/")
            os.makedirs(CACHE, exist_ok=True)
            tmp = cp + ".%d.tmp" % os.getpid()
            with open(tmp, "w") as f:
                json.dump(objs, f)
            os.replace(tmp, cp)
        self._mem[key] = objs
        return objs

    def function(self, rel, name, all_defs=False):
        """FunctionDecl / CXXMethodDecl nodes *with a body* named ``name`` in TU rel."""
        objs = self.dump(rel, name)
        res = []
        for o in objs:
            for n in walk(o):
                if n.get("kind") in ("FunctionDecl", "CXXMethodDecl", "CXXConstructorDecl") and n.get("name") == name and body_of(n) is not None:
                    res.append(n)
        # de-duplicate by id
        seen, out = set(), []
        for n in res:
            if n["id"] not in seen:
                seen.add(n["id"])
                out.append(n)
        if not out:
            raise AnalysisError("anchor function vanished: %s:%s" % (rel, name))
        for n in out:
            if not n.get("_inlined_done"):
                n["_inlined_done"] = True
                try:
                    inline_new_helpers(self, rel, n)
                except AnalysisError:
                    raise
            _canonical_locals(rel, name, n)
        return out if all_defs else out[0]

    def raw_function(self, rel, name):
        """first definition of `name` in rel, untouched by helper inlining (None when there is none)"""
        try:
            objs = self.dump(rel, name)
        except AnalysisError:
            return None
        for o in objs:
            for n in walk(o):
                if n.get("kind") in ("FunctionDecl",) and n.get("name") == name and body_of(n) is not None:
                    f_ = ((n.get("loc") or {}).get("file") or (n.get("range", {}).get("begin", {}) or {}).get("file"))
                    return n
        return None


# -------------------------------------------------------------------------------------------
# tolerance for renamed locals
# -------------------------------------------------------------------------------------------
# Several rules name the local variables of a kernel (`dist2 < cutoff2` ...).  A pure renaming of locals keeps the
# number, order and types of the declarations, so the names recorded for today's tree (sa/locals_fixture.json, produced
# by tools/gen_locals_fixture.py) are written back into the AST before the rules look at it.  The fixture is only ever
# used to *tolerate* a renaming; when the declarations differ in number or type nothing is renamed.
_FIXTURE = None


def local_decls(fn):
    """[(name, type, id)] of the local variable declarations of fn in document order (parameters excluded)."""
    body = body_of(fn)
    res = []
    if body is None:
        return res
    for n in walk(body):
        if n.get("kind") == "VarDecl" and n.get("name"):
            res.append((n.get("name"), qtype(n), n.get("id")))
    return res


def _canonical_locals(rel, name, fn):
    global _FIXTURE
    if fn.get("_canon_done"):
        return
    fn["_canon_done"] = True
    if _FIXTURE is None:
        try:
            with open(os.path.join(os.path.dirname(os.path.abspath(__file__)), "locals_fixture.json")) as f:
                _FIXTURE = json.load(f)
        except Exception:
            _FIXTURE = {}
    want = _FIXTURE.get("%s:%s" % (rel, name))
    if not want:
        return
    cur = local_decls(fn)
    if len(cur) != len(want) or any(c[1] != w[1] for c, w in zip(cur, want)):
        return
    if all(c[0] == w[0] for c, w in zip(cur, want)):
        return
    if len({w[0] for w in want}) != len({c[0] for c in cur}) and False:
        return
    # a name that is still in use keeps its meaning (declarations may have been reordered); only the names that disappeared are matched, in order,
    # with the names that appeared
    cur_names, want_names = {c[0] for c in cur}, {w[0] for w in want}
    if cur_names == want_names:
        return
    rest_c = [c for c in cur if c[0] not in want_names]
    rest_w = [w for w in want if w[0] not in cur_names]
    if len(rest_c) == len(rest_w) and all(c[1] == w[1] for c, w in zip(rest_c, rest_w)):
        pairs = list(zip(rest_c, rest_w))
    else:
        pairs = list(zip(cur, want))
    m = {}
    for c, w in pairs:
        m[c[2]] = w[0]
    fn["_rename"] = {c[0]: w[0] for c, w in pairs}     # for rules that also read names from pragma text
    for n in walk(fn):
        k = n.get("kind")
        if k == "VarDecl" and n.get("id") in m:
            n["name"] = m[n["id"]]
        elif k == "DeclRefExpr":
            rd = n.get("referencedDecl") or {}
            if rd.get("id") in m:
                rd["name"] = m[rd["id"]]
        elif k == "MemberExpr":
            pass


# -------------------------------------------------------------------------------------------
# helpers over the JSON AST
# -------------------------------------------------------------------------------------------

def walk(n):
    stack = [n]
    while stack:
        x = stack.pop()
        if isinstance(x, dict):
            if "kind" in x:
                yield x
            inner = x.get("inner")
            if inner:
                stack.extend(reversed(inner))


def kids(n):
    return [k for k in n.get("inner", []) if isinstance(k, dict) and "kind" in k]


def body_of(fn):
    for k in kids(fn):
        if k["kind"] == "CompoundStmt":
            return k
    return None


def fparams(fn):
    return [k for k in kids(fn) if k["kind"] == "ParmVarDecl"]


def line(n):
    loc = n.get("loc") or {}
    if "line" in loc and loc["line"]:
        return loc["line"]
    if "expansionLoc" in loc:
        return loc["expansionLoc"].get("line")
    rng = n.get("range", {}).get("begin", {})
    if rng.get("line"):
        return rng["line"]
    if "expansionLoc" in rng:
        return rng["expansionLoc"].get("line")
    return None


def qtype(n):
    return (n.get("type") or {}).get("qualType", "")


def strip(n):
    """Skip implicit casts / parens / full-expression wrappers."""
    while isinstance(n, dict) and n.get("kind") in ("ImplicitCastExpr", "ParenExpr", "ExprWithCleanups", "MaterializeTemporaryExpr",
                                                     "CXXBindTemporaryExpr", "CXXFunctionalCastExpr", "CStyleCastExpr",
                                                     "CXXStaticCastExpr", "ConstantExpr") and kids(n):
        n = kids(n)[0]
    return n


def ref_name(n):
    n = strip(n)
    if n.get("kind") == "DeclRefExpr":
        return n["referencedDecl"].get("name")
    return None


def ref_id(n):
    n = strip(n)
    if n.get("kind") == "DeclRefExpr":
        return n["referencedDecl"].get("id")
    return None


def root_var(n):
    """Root declaration (name, id) of an lvalue expression such as a[i].x, *p, p->f, *(p+1)."""
    n = strip(n)
    k = n.get("kind")
    if k == "DeclRefExpr":
        return (n["referencedDecl"].get("name"), n["referencedDecl"].get("id"))
    if k in ("ArraySubscriptExpr",):
        return root_var(kids(n)[0])
    if k == "MemberExpr":
        return root_var(kids(n)[0]) if kids(n) else (None, None)
    if k == "UnaryOperator" and n.get("opcode") in ("*", "&", "++", "--"):
        return root_var(kids(n)[0])
    if k == "BinaryOperator" and n.get("opcode") in ("+", "-"):
        a = root_var(kids(n)[0])
        if a[0] is not None and "*" in qtype(strip(kids(n)[0])):
            return a
        return root_var(kids(n)[1])
    if k == "CXXOperatorCallExpr":
        # operator[] on vectors etc: first arg after the callee is the object
        ks = kids(n)
        if len(ks) >= 2:
            return root_var(ks[1])
    if k == "CXXThisExpr":
        return ("this", "this")
    return (None, None)


def callee_name(call):
    ks = kids(call)
    if not ks:
        return None
    c = strip(ks[0])
    if c.get("kind") == "DeclRefExpr":
        return c["referencedDecl"].get("name")
    if c.get("kind") == "MemberExpr":
        return c.get("name")
    if c.get("kind") == "UnresolvedLookupExpr":
        return c.get("name")
    return None


def call_args(call):
    ks = kids(call)
    if call.get("kind") == "CXXMemberCallExpr":
        return ks[1:]
    if call.get("kind") == "CXXOperatorCallExpr":
        return ks[1:]
    return ks[1:]


def text(n, depth=0):
    """Compact source-like rendering of an expression (for reports and clone comparison)."""
    if not isinstance(n, dict):
        return "?"
    n0 = n
    n = strip(n)
    k = n.get("kind")
    ks = kids(n)
    if k == "DeclRefExpr":
        return n["referencedDecl"].get("name", "?")
    if k == "IntegerLiteral":
        return str(n.get("value"))
    if k == "FloatingLiteral":
        v = str(n.get("value"))
        try:
            f = float(v)
            return repr(f) if f != int(f) else "%d.0" % int(f)
        except ValueError:
            return v
    if k == "CXXBoolLiteralExpr":
        return str(n.get("value")).lower()
    if k == "BinaryOperator" or k == "CompoundAssignOperator":
        return "(%s %s %s)" % (text(ks[0]), n.get("opcode"), text(ks[1]))
    if k == "UnaryOperator":
        if n.get("isPostfix"):
            return "(%s%s)" % (text(ks[0]), n.get("opcode"))
        return "(%s%s)" % (n.get("opcode"), text(ks[0]))
    if k == "ArraySubscriptExpr":
        return "%s[%s]" % (text(ks[0]), text(ks[1]))
    if k == "MemberExpr":
        return "%s.%s" % (text(ks[0]) if ks else "this", n.get("name"))
    if k == "CXXMemberCallExpr" and MEMBER_OBJECTS and ks and strip(ks[0]).get("kind") == "MemberExpr" and kids(strip(ks[0])):
        return "%s.%s(%s)" % (text(kids(strip(ks[0]))[0]), callee_name(n), ", ".join(text(a) for a in call_args(n)))
    if k in ("CallExpr", "CXXMemberCallExpr"):
        return "%s(%s)" % (callee_name(n) or text(ks[0]), ", ".join(text(a) for a in call_args(n)))
    if k == "CXXOperatorCallExpr":
        op = callee_name(n) or "op"
        args = call_args(n)
        sym = op.replace("operator", "")
        if len(args) == 2 and sym != "[]":
            return "(%s %s %s)" % (text(args[0]), sym, text(args[1]))
        if len(args) == 2:
            return "%s[%s]" % (text(args[0]), text(args[1]))
        if len(args) == 1:
            return "(%s%s)" % (sym, text(args[0]))
        return "%s(%s)" % (op, ", ".join(text(a) for a in args))
    if k in ("CXXConstructExpr", "CXXTemporaryObjectExpr"):
        if len(ks) == 1:
            return text(ks[0])      # copy / converting constructor: transparent
        t = qtype(n).replace("const ", "").split("::")[-1]
        return "%s(%s)" % (t, ", ".join(text(a) for a in ks))
    if k == "ConditionalOperator":
        return "(%s ? %s : %s)" % (text(ks[0]), text(ks[1]), text(ks[2]))
    if k == "CXXThisExpr":
        return "this"
    if k == "InitListExpr":
        return "{%s}" % ", ".join(text(a) for a in ks)
    if k == "UnaryExprOrTypeTraitExpr":
        return "sizeof(...)"
    if k == "CXXNullPtrLiteralExpr" or k == "GNUNullExpr":
        return "NULL"
    if k == "StringLiteral":
        return str(n.get("value"))
    if k == "CharacterLiteral":
        v = n.get("value")
        return "'%s'" % chr(v) if isinstance(v, int) and 32 <= v < 127 else str(v)
    return "<%s>" % k


_cf_cache = {}
MEMBER_OBJECTS = False      # when True, text() renders obj.method(args) for member calls (used by rules written after this switch existed)


def get(repo):
    if repo not in _cf_cache:
        _cf_cache[repo] = CFront(repo)
    return _cf_cache[repo]


# -------------------------------------------------------------------------------------------
# helpers extracted by a refactoring
# -------------------------------------------------------------------------------------------
# The rules are written against the functions of today's tree (sa/cfuncs_fixture.json lists, per translation unit, the functions
# defined in it today).  A function of the same file that is *not* in that list and is called from an analysed function is taken for
# what it almost always is - a block or an expression moved out into a helper - and is expanded at its call sites before any rule
# looks at the caller, so that the rules see the same statements and expressions as before the extraction (and a defect hidden in
# such a helper is seen as well).  Only calls whose expansion is exact are expanded: the helper's parameters are never assigned in
# it, it returns at most once, at its end; anything else is left as a call.
_KNOWN_FUNCS = None
_INLINE_SEQ = [0]


def known_functions(rel):
    global _KNOWN_FUNCS
    if _KNOWN_FUNCS is None:
        try:
            with open(os.path.join(os.path.dirname(os.path.abspath(__file__)), "cfuncs_fixture.json")) as f:
                _KNOWN_FUNCS = json.load(f)
        except Exception:
            _KNOWN_FUNCS = {}
    return _KNOWN_FUNCS.get(rel)


def defined_function_names(repo, rel):
    """names that look like function definitions in the text of rel (a cheap pre-filter; confirmed through clang before use)"""
    import re as _re
    try:
        with open(os.path.join(repo, rel), errors="replace") as f:
            txt = f.read()
    except OSError:
        return set()
    txt = _re.sub(r"/\*.*?\*/", " ", txt, flags=_re.S)
    txt = _re.sub(r"//[^\n]*", " ", txt)
    names = set()
    for m in _re.finditer(r"(?m)^[ \t]*(?:[A-Za-z_][\w:<>,\*&\s]*?[\s\*&])([A-Za-z_]\w*)\s*\(([^;{}()]|\([^()]*\))*\)\s*(?:const\s*)?\{", txt):
        if m.group(1) not in ("if", "for", "while", "switch", "return", "else", "sizeof", "catch"):
            names.add(m.group(1))
    return names


def _copy(n):
    return json.loads(json.dumps(n))


def _param_is_written(callee, pid):
    for n in walk(body_of(callee)):
        k = n.get("kind")
        if k in ("BinaryOperator", "CompoundAssignOperator") and (n.get("opcode") == "=" or k == "CompoundAssignOperator"):
            if ref_id(kids(n)[0]) == pid:
                return True
        if k == "UnaryOperator" and n.get("opcode") in ("++", "--", "&") and ref_id(kids(n)[0]) == pid:
            return True
    return False


def _instantiate(callee, args, caller_names):
    """copy of the callee's body with fresh ids, parameters replaced by the argument expressions, clashing local names suffixed"""
    _INLINE_SEQ[0] += 1
    tag = "_inl%d" % _INLINE_SEQ[0]
    ps = fparams(callee)
    if len(ps) != len(args):
        return None
    if any(_param_is_written(callee, p_.get("id")) for p_ in ps):
        return None
    sub = {p_.get("id"): a_ for p_, a_ in zip(ps, args)}
    body = _copy(body_of(callee))
    local_ids = {n.get("id") for n in walk(body) if n.get("kind") == "VarDecl"}
    rename = {}
    for n in walk(body):
        if n.get("kind") == "VarDecl" and n.get("name") in caller_names:
            rename[n.get("id")] = n.get("name") + tag

    def fix(n):
        if not isinstance(n, dict):
            return n
        if n.get("kind") == "DeclRefExpr":
            rid = (n.get("referencedDecl") or {}).get("id")
            if rid in sub:
                return {"id": str(n.get("id")) + tag, "kind": "ParenExpr", "type": n.get("type"), "valueCategory": n.get("valueCategory"), "range": n.get("range"), "loc": n.get("loc"),
                        "inner": [_copy(sub[rid])]}
            if rid in local_ids:
                n["referencedDecl"]["id"] = str(rid) + tag
                if rid in rename:
                    n["referencedDecl"]["name"] = rename[rid]
        if n.get("kind") == "VarDecl" and n.get("id") in local_ids:
            if n["id"] in rename:
                n["name"] = rename[n["id"]]
            n["id"] = str(n["id"]) + tag
        elif "id" in n and n.get("kind") != "ParenExpr":
            n["id"] = str(n["id"]) + tag
        if n.get("inner"):
            n["inner"] = [fix(x) for x in n["inner"]]
        return n
    return fix(body)


def _returns(body):
    return [n for n in walk(body) if n.get("kind") == "ReturnStmt"]


def inline_new_helpers(cf, rel, fn, depth=0):
    known = known_functions(rel)
    if known is None or depth > 3:
        return
    body = body_of(fn)
    if body is None:
        return
    cand = None
    changed = False
    parent = {}
    for n in walk(fn):
        for k in kids(n):
            if "id" in k:
                parent[k["id"]] = n
    caller_names = {n.get("name") for n in walk(fn) if n.get("kind") in ("VarDecl", "ParmVarDecl") and n.get("name")}
    for call in [n for n in walk(body) if n.get("kind") == "CallExpr" and "id" in n]:
        name = callee_name(call)
        if not name or name in known or name == fn.get("name"):
            continue
        if cand is None:
            cand = defined_function_names(cf.repo, rel)
        if name not in cand:
            continue
        callee = cf.raw_function(rel, name)
        if callee is None:
            continue
        cbody = body_of(callee)
        rets = _returns(cbody)
        stmts = kids(cbody)
        args = call_args(call)
        # where does the call stand?
        up = parent.get(call["id"])
        chain = [call]
        while up is not None and up.get("kind") in ("ImplicitCastExpr", "ExprWithCleanups", "ParenExpr", "MaterializeTemporaryExpr", "CXXBindTemporaryExpr"):
            chain.append(up)
            up = parent.get(up["id"])
        top = chain[-1]
        is_stmt = up is not None and up.get("kind") in ("CompoundStmt", "IfStmt", "ForStmt", "WhileStmt", "DoStmt", "CaseStmt", "DefaultStmt", "LabelStmt") and not (
            up.get("kind") == "IfStmt" and kids(up) and kids(up)[0] is top) and not (up.get("kind") in ("ForStmt", "WhileStmt") and kids(up) and kids(up)[-1] is not top)
        if len(stmts) == 1 and stmts[0].get("kind") == "ReturnStmt" and kids(stmts[0]):
            # expression helper: the call is the returned expression with the arguments in place of the parameters
            inst = _instantiate(callee, args, caller_names)
            if inst is None:
                continue
            expr = kids(kids(inst)[0])[0]
            new = {"id": str(call["id"]) + "_x", "kind": "ParenExpr", "type": call.get("type"), "valueCategory": call.get("valueCategory"), "range": call.get("range"), "loc": call.get("loc"), "inner": [expr]}
            call.clear()
            call.update(new)
            changed = True
            continue
        if is_stmt and (not rets or (len(rets) == 1 and stmts and stmts[-1] is rets[0] and not kids(rets[0]))) and "void" in qtype(callee).split("(")[0]:
            inst = _instantiate(callee, args, caller_names)
            if inst is None:
                continue
            if kids(inst) and kids(inst)[-1].get("kind") == "ReturnStmt":
                inst["inner"] = [x for x in inst["inner"] if x is not kids(inst)[-1]]
            top.clear()
            top.update(inst)
            changed = True
            continue
        # value helper with locals: `T v = f(..);` / `v = f(..);` as a statement of a block, helper = statements + one trailing `return E;`
        if len(rets) == 1 and stmts and stmts[-1] is rets[0] and kids(rets[0]):
            holder = up
            node = top
            while holder is not None and holder.get("kind") not in ("CompoundStmt",):
                hk = holder.get("kind")
                # the call must be evaluated whenever the enclosing statement is: not under ?:, && / ||, a loop header or a nested statement
                if hk in ("ConditionalOperator", "BinaryConditionalOperator", "LambdaExpr", "IfStmt", "ForStmt", "WhileStmt", "DoStmt", "SwitchStmt", "CaseStmt", "CXXForRangeStmt") or \
                        (hk == "BinaryOperator" and holder.get("opcode") in ("&&", "||", ",")) or hk.endswith("Stmt") and hk not in ("DeclStmt", "ReturnStmt"):
                    holder = None
                    break
                node = holder
                holder = parent.get(holder["id"]) if "id" in holder else None
            if holder is None:
                continue
            inst = _instantiate(callee, args, caller_names)
            if inst is None:
                continue
            pre = kids(inst)[:-1]
            expr = kids(kids(inst)[-1])[0]
            new = {"id": str(call["id"]) + "_x", "kind": "ParenExpr", "type": call.get("type"), "valueCategory": call.get("valueCategory"), "range": call.get("range"), "loc": call.get("loc"), "inner": [expr]}
            call.clear()
            call.update(new)
            idx = next(i for i, x in enumerate(holder["inner"]) if x is node)
            holder["inner"][idx:idx] = pre
            for x in pre:
                parent[x["id"]] = holder
            changed = True
    if changed:
        inline_new_helpers(cf, rel, fn, depth + 1)


# -------------------------------------------------------------------------------------------
# guards in effect: for every node of a function body, the list of (condition text, polarity)
# established by enclosing if-branches and by preceding `if (c) continue/return/break;`
# -------------------------------------------------------------------------------------------
def _norm(t):
    import re as _re
    return _re.sub(r"\s+", "", t)


def _split_and(cond):
    """Conjuncts of a condition (for a true branch) as AST nodes."""
    c = strip(cond)
    if c.get("kind") == "BinaryOperator" and c.get("opcode") == "&&":
        a, b = kids(c)
        return _split_and(a) + _split_and(b)
    return [c]


def _split_or(cond):
    c = strip(cond)
    if c.get("kind") == "BinaryOperator" and c.get("opcode") == "||":
        a, b = kids(c)
        return _split_or(a) + _split_or(b)
    return [c]


def _facts(cond, polarity):
    """Atomic facts implied by `cond == polarity`: list of (text, bool)."""
    c = strip(cond)
    if c.get("kind") == "UnaryOperator" and c.get("opcode") == "!":
        return _facts(kids(c)[0], not polarity)
    if c.get("kind") == "BinaryOperator" and c.get("opcode") in ("!=", "==") and len(kids(c)) == 2:
        a, b = kids(c)
        for x, y in ((a, b), (b, a)):
            ys = strip(y)
            if ys.get("kind") == "IntegerLiteral" and str(ys.get("value")) == "0" or ys.get("kind") == "CXXBoolLiteralExpr" and not ys.get("value"):
                return _facts(x, polarity if c.get("opcode") == "!=" else not polarity)
    if polarity:
        parts = _split_and(c)
        if len(parts) > 1:
            out = []
            for p in parts:
                out.extend(_facts(p, True))
            return out
    else:
        parts = _split_or(c)
        if len(parts) > 1:
            out = []
            for p in parts:
                out.extend(_facts(p, False))
            return out
    return [(_norm(text(c)), polarity)]


_NEG_CMP = {"<": ">=", "<=": ">", ">": "<=", ">=": "<", "==": "!=", "!=": "=="}
_FLIP_CMP = {"<": ">", "<=": ">=", ">": "<", ">=": "<=", "==": "==", "!=": "!="}


def canon_fact(fact):
    """One spelling per comparison fact: polarity True, and for == / != the operands in sorted order: ('(a<0)', False) -> ('(a>=0)', True)."""
    import re as _re
    t, pol = fact
    m = _re.match(r"^\((.+?)(<=|>=|==|!=|<|>)(.+)\)$", t)
    if not m or any(x.count("(") != x.count(")") for x in (m.group(1), m.group(3))):
        return fact
    a, op, b = m.group(1), m.group(2), m.group(3)
    if not pol:
        op = _NEG_CMP[op]
    if op in ("==", "!=") and b < a:
        a, b = b, a
    return ("(%s%s%s)" % (a, op, b), True)


def canon_facts(facts):
    return sorted(set(canon_fact(f) for f in facts))


def _always_leaves(stmt):
    s = stmt
    if s.get("kind") in ("ContinueStmt", "ReturnStmt", "BreakStmt"):
        return True
    if s.get("kind") == "CompoundStmt":
        ks = kids(s)
        return bool(ks) and _always_leaves(ks[-1])
    return False


def guards(fn):
    """{node id: [(text, polarity), ...]} for all nodes in the body of fn."""
    res = {}

    def visit(n, g):
        res[n.get("id")] = g
        k = n.get("kind")
        if k == "IfStmt":
            ks = kids(n)
            cond = ks[0]
            visit(cond, g)
            if len(ks) > 1:
                visit(ks[1], g + _facts(cond, True))
            if len(ks) > 2:
                visit(ks[2], g + _facts(cond, False))
            return
        if k == "CompoundStmt":
            cur = list(g)
            for s in kids(n):
                visit(s, cur)
                if s.get("kind") == "IfStmt":
                    ks = kids(s)
                    if len(ks) == 2 and _always_leaves(ks[1]):
                        cur = cur + _facts(ks[0], False)
            return
        if k == "ConditionalOperator":
            ks = kids(n)
            visit(ks[0], g)
            visit(ks[1], g + _facts(ks[0], True))
            visit(ks[2], g + _facts(ks[0], False))
            return
        if k == "BinaryOperator" and n.get("opcode") == "&&":
            a, b = kids(n)
            visit(a, g)
            visit(b, g + _facts(a, True))
            return
        if k == "BinaryOperator" and n.get("opcode") == "||":
            a, b = kids(n)
            visit(a, g)
            visit(b, g + _facts(a, False))
            return
        for c in kids(n):
            visit(c, g)
    b = body_of(fn)
    if b is not None:
        visit(b, [])
    return res
