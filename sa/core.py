"""Core of the static-analysis runner: obligations, verdicts, evidence, known findings.

Nothing here imports or executes code from the analysed repository.
"""
from __future__ import annotations

import json
import os
import sys
import time
import traceback

VERIF = os.path.dirname(os.path.dirname(os.path.abspath(__file__)))

HOLDS = "HOLDS"
VIOLATED = "VIOLATED"
UNDECIDED = "UNDECIDED"
NOTE = "NOTE"


class AnalysisError(Exception):
    """The analysis cannot decide (vanished anchor, unmodelled idiom).  Exit 2."""


class Ob:
    """One rule instance: a site, a clause, a verdict."""

    __slots__ = ("rule", "file", "line", "func", "construct", "verdict", "why")

    def __init__(self, rule, file, line, func, construct, verdict, why=""):
        self.rule = rule
        self.file = file
        self.line = line
        self.func = func
        self.construct = construct
        self.verdict = verdict
        self.why = why

    def key(self):
        # never keyed by line number
        return (self.rule, self.func, self.construct)

    def as_dict(self):
        return {
            "rule": self.rule,
            "site": "%s:%s" % (self.file, self.line),
            "function": self.func,
            "construct": self.construct,
            "verdict": self.verdict,
            "why": self.why,
        }

    def text(self):
        return "%s:%s  %s  %s  [%s]  %s" % (
            self.file, self.line, self.rule, self.func, self.construct, self.why)


class Ctx:
    """What a rule module gets: repo root, tier, front-ends, an obligation sink."""

    def __init__(self, prop, repo, tier):
        self.prop = prop
        self.repo = repo
        self.tier = tier
        self.obs = []
        self.analysed_files = set()
        self.analysed_functions = set()
        self.rule_texts = {}
        self.not_decided = []
        self.stats = {}
        from . import pyfront
        self.py = pyfront.Repo(repo, self)

    # -- sink ---------------------------------------------------------------
    def ob(self, rule, node_or_line, file, func, construct, verdict, why=""):
        line = getattr(node_or_line, "lineno", node_or_line)
        o = Ob(rule, file, line, func, construct, verdict, why)
        self.obs.append(o)
        return o

    def holds(self, rule, node, file, func, construct, why=""):
        return self.ob(rule, node, file, func, construct, HOLDS, why)

    def violated(self, rule, node, file, func, construct, why=""):
        return self.ob(rule, node, file, func, construct, VIOLATED, why)

    def undecided(self, rule, node, file, func, construct, why=""):
        return self.ob(rule, node, file, func, construct, UNDECIDED, why)

    def note(self, rule, node, file, func, construct, why=""):
        return self.ob(rule, node, file, func, construct, NOTE, why)

    def decide(self, cond, rule, node, file, func, construct, why_ok="", why_bad=""):
        if cond:
            return self.holds(rule, node, file, func, construct, why_ok)
        return self.violated(rule, node, file, func, construct, why_bad)

    def rule(self, rid, text):
        self.rule_texts[rid] = text


def load_known():
    p = os.path.join(VERIF, "known_findings.json")
    if not os.path.exists(p):
        return []
    with open(p) as f:
        return json.load(f)["findings"]


def run_property(prop, tier, repo, replay=None):
    """Run all rules of one property.  Returns exit code."""
    t0 = time.time()
    import importlib
    mod = importlib.import_module("sa.rules." + prop.lower())
    ctx = Ctx(prop, repo, tier)
    # per-run memo tables (a scratch copy may be re-analysed after an edit within one process)
    from . import cfront as _cf, ceffects as _ce, effects as _ef
    _cf._cf_cache.clear()
    _ce._memo.clear()
    _ef._proto_cache.clear()
    _ef._def_cache.clear()
    _ef._eff_cache.clear()
    try:
        mod.check(ctx)
        floors = getattr(mod, "FLOORS", {})
        counts = {}
        for o in ctx.obs:
            if o.verdict != NOTE:
                counts[o.rule] = counts.get(o.rule, 0) + 1
        # floors guard against a vacuous pass; a rule that has reported a violation may legitimately skip the obligations that build on the broken fact
        # ... and a rule with an undecided obligation already makes the run fail (exit 2, or exit 1 when another rule found a violation)
        violated_rules = {o.rule for o in ctx.obs if o.verdict in (VIOLATED, UNDECIDED)}
        for rid, n in floors.items():
            if rid in violated_rules:
                continue
            if counts.get(rid, 0) < n:
                raise AnalysisError(
                    "rule %s matched %d instances, floor confirmed by hand is %d "
                    "(a rule that matches too few sites must not pass vacuously)"
                    % (rid, counts.get(rid, 0), n))
        und = [o for o in ctx.obs if o.verdict == UNDECIDED]
        if und:
            for o in und:
                print("UNDECIDED " + o.text())
            kk = {(k["rule"], k["function"], k["construct"]) for k in load_known() if k["property"] == prop and k.get("kind", "known") == "known"}
            if not any(o.verdict == VIOLATED and o.key() not in kk for o in ctx.obs):
                raise AnalysisError("%d rule instances undecided" % len(und))
            # a violation found elsewhere is reported (exit 1) even though other obligations could not be decided on this tree
    except AnalysisError as e:
        print("ANALYSIS-ERROR property=%s %s" % (prop, e))
        write_evidence(ctx, mod, [], [], time.time() - t0, error=str(e))
        return 2
    except Exception:
        traceback.print_exc()
        print("ANALYSIS-ERROR property=%s internal error (traceback above)" % prop)
        write_evidence(ctx, mod, [], [], time.time() - t0, error="internal error")
        return 2

    known = [k for k in load_known() if k["property"] == prop and k.get("kind", "known") == "known"]
    kkeys = {(k["rule"], k["function"], k["construct"]): k for k in known}
    new, listed = [], []
    for o in ctx.obs:
        if o.verdict == VIOLATED:
            if o.key() in kkeys:
                listed.append(o)
            else:
                new.append(o)
    for o in ctx.obs:
        if o.verdict == NOTE:
            print("NOTE " + o.text())
    for o in listed:
        k = kkeys[o.key()]
        print("KNOWN-FINDING: property=%s %s %s [%s] %s" % (
            prop, o.rule, o.func, o.construct, k.get("what", o.why)))
    rc = 0
    if new:
        rdir = os.path.join(VERIF, "evidence", "replay")
        os.makedirs(rdir, exist_ok=True)
        for i, o in enumerate(new):
            rp = os.path.join(rdir, "%s-%d.json" % (prop, i))
            with open(rp, "w") as f:
                json.dump(o.as_dict(), f, indent=1)
            print(o.text())
            print("VIOLATION property=%s replay=%s" % (prop, rp))
        rc = 1
    wall = time.time() - t0
    write_evidence(ctx, mod, new, listed, wall)
    n_ob = sum(1 for o in ctx.obs if o.verdict != NOTE)
    n_ok = sum(1 for o in ctx.obs if o.verdict == HOLDS)
    print("%s tier=%s files=%d functions=%d obligations=%d discharged=%d known=%d new=%d wall=%.2fs" % (
        prop, tier, len(ctx.analysed_files), len(ctx.analysed_functions),
        n_ob, n_ok, len(listed), len(new), wall))
    return rc


def write_evidence(ctx, mod, new, listed, wall, error=None):
    obs = [o for o in ctx.obs if o.verdict != NOTE]
    per_rule = {}
    for o in obs:
        d = per_rule.setdefault(o.rule, {"instances": 0, "holds": 0, "violated": 0})
        d["instances"] += 1
        if o.verdict == HOLDS:
            d["holds"] += 1
        elif o.verdict == VIOLATED:
            d["violated"] += 1
    distinct = len({o.key() for o in obs})
    # a sample of obligations: up to 2 per rule, holds and violated
    samples = []
    seen = {}
    for o in obs:
        n = seen.get((o.rule, o.verdict), 0)
        if n < 2:
            samples.append(o.as_dict())
            seen[(o.rule, o.verdict)] = n + 1
    if not samples:
        samples = [{"note": "no obligations produced", "error": error}]
    ev = {
        "property_id": ctx.prop,
        "tier": ctx.tier,
        "seed": int(os.environ.get("VERIF_SEED", "0") or 0),
        "level": "other",
        "coverage": {
            "explanation": (getattr(mod, "EXPLANATION", "") or "static rules over the source of the repository")
            + ("  ANALYSIS ERROR: " + error if error else ""),
            "obligations": len(obs),
            "discharged": sum(1 for o in obs if o.verdict == HOLDS),
            "evaluations": max(len(obs), 1),
            "distinct_nontrivial": distinct,
            "rule": "one obligation per (rule, function, construct) site enumerated from the source; "
                    "distinct = distinct (rule, function, construct) keys; all are non-trivial in the sense "
                    "that each is a site whose edit can falsify the clause",
            "samples": samples,
            "exhaustive": error is None,
            "per_rule": per_rule,
            "rules": ctx.rule_texts,
            "files_analysed": sorted(ctx.analysed_files),
            "functions_analysed": len(ctx.analysed_functions),
            "known_findings_reported": [o.as_dict() for o in listed],
            "new_violations": [o.as_dict() for o in new],
            "notes": [o.as_dict() for o in ctx.obs if o.verdict == NOTE],
            "not_decided": getattr(mod, "NOT_DECIDED", []),
            "stats": ctx.stats,
            "checker_cmd": "./check %s --tier %s" % (ctx.prop, ctx.tier),
            "trusted_base": ["python ast", "sa/pyxfront desugarer", "clang-14 -ast-dump=json"],
        },
        "assumptions": getattr(mod, "ASSUMPTIONS", []) + [
            "the clauses decided are necessary conditions of the property, not the property itself",
            "source analysed is the working tree under %s at run time" % ctx.repo,
        ],
        "wall_s": round(wall, 3),
        "violations": len(new),
    }
    d = os.path.join(VERIF, "evidence")
    os.makedirs(d, exist_ok=True)
    # when analysing a scratch copy (self-test) do not clobber the real evidence
    if os.environ.get("VERIF_NO_EVIDENCE"):
        return
    with open(os.path.join(d, ctx.prop + ".json"), "w") as f:
        json.dump(ev, f, indent=1, sort_keys=True)
        f.write("\n")
