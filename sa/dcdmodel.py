"""Model of a DCD file for the evaluation (sa/tensym.py) of DCDTrajectoryFile (Cython, desugared by sa/pyxfront.py): the file is a list of frame records
and a read position (`fh.setsread`, `fh.nsets` as in the dcdplugin handle).  write_timestep appends the frame the timestep struct points at,
read_next_timestep stores the next frame through the struct (or skips it when handed NULL) or reports end of file, dcd_rewind resets the position.
`self.timestep.coords = &xyz[i, 0, 0]` (a pointer assignment the desugarer renders as `xyz[i, 0, 0]`) is turned into a call that records array and row."""
from __future__ import annotations

import ast
import copy

from . import formats as F
from .tensym import TenSym, Ten, Obj, Raised, Rat, Poly

SUCCESS, EOF = 0, -1


class DcdFile:
    def __init__(self):
        self.frames = []        # dict(x=[natoms*3], cell=(A, B, C, alpha, beta, gamma) | None)
        self.fh = Obj(tag="dcd handle", setsread=0, nsets=0, _lenient=True)
        self.natoms = None
        self.with_unitcell = None


def _rewritten(fn):
    """the method with `self.timestep.coords = a[i, 0, 0]` replaced by `__set_coords(a, i)`"""
    fn2 = copy.deepcopy(fn)

    class Tr(ast.NodeTransformer):
        def visit_Assign(self, n):
            t = n.targets[0]
            if isinstance(t, ast.Attribute) and t.attr == "coords" and isinstance(n.value, ast.Subscript):
                sl = n.value.slice
                first = sl.elts[0] if isinstance(sl, ast.Tuple) else sl
                return ast.copy_location(ast.Expr(value=ast.Call(func=ast.Name(id="__set_coords", ctx=ast.Load()), args=[n.value.value, first], keywords=[])), n)
            return n
    fn2 = Tr().visit(fn2)
    ast.fix_missing_locations(fn2)
    return fn2


def file_object(ctx, df, mode, n_atoms=None):
    rel, cls = F.rel_cls("dcd")
    mod = ctx.py.mod(rel)
    methods = {q.split(".", 1)[1]: _rewritten(f) for q, f in mod.functions.items() if q.startswith(cls + ".") and q.count(".") == 1}
    ts_ = Obj(tag="timestep", coords=None, A=0, B=0, C=0, alpha=90, beta=90, gamma=90, _lenient=True)
    me = Obj(tag="dcd file(%s)" % mode, mode=mode, is_open=(mode == "r"), fh=df.fh, timestep=ts_, filename="FILE", n_atoms=n_atoms or df.natoms or 0, with_unitcell=bool(df.with_unitcell),
             _needs_write_initialization=(mode == "w"), distance_unit="angstroms", _lenient=True)
    me._methods = {k: v for k, v in methods.items() if k in ("write", "_write", "_initialize_write", "read", "read_as_traj", "seek", "tell", "__len__")}
    me._getters = {"n_frames": lambda s_: df.fh.nsets}
    me.__enter__ = lambda: me
    me.close = lambda: None
    if mode == "r":
        df.fh.setsread = 0
    return me


def models(df, me_ref):
    def set_coords(ev, call):
        arr = ev.ex(call.args[0])
        row = ev.concrete(ev.ex(call.args[1])) if not isinstance(call.args[1], ast.Constant) or call.args[1].value != 0 else 0
        me = me_ref[0]
        me.timestep.coords = (arr, row)
        return None

    def open_write(ev, call):
        a = [ev.ex(x) for x in call.args]
        df.natoms, df.with_unitcell = ev.pyval(a[2]), bool(a[3])
        del df.frames[:]
        df.fh.nsets, df.fh.setsread = 0, 0
        return df.fh

    def write_timestep(ev, call):
        tsv = ev.ex(call.args[1])
        arr, row = tsv.coords
        n = df.natoms
        per = 1
        for s_ in arr.shape[1:]:
            per *= s_
        if arr.ndim == 2:
            row, per = 0, len(arr.data)
        if per < n * 3:
            raise Raised("the analysed path raises: heap overrun", "MemoryError('overrun')")
        rec = {"x": list(arr.data[row * per: row * per + n * 3]), "cell": tuple(ev.lift(getattr(tsv, k_)) for k_ in ("A", "B", "C", "alpha", "beta", "gamma")) if df.with_unitcell else None}
        df.frames.append(rec)
        df.fh.nsets = len(df.frames)
        return SUCCESS

    def read_next(ev, call):
        tsv = ev.ex(call.args[2])
        if df.fh.setsread >= len(df.frames):
            return EOF
        rec = df.frames[df.fh.setsread]
        df.fh.setsread += 1
        if tsv is None:
            return SUCCESS
        arr, row = tsv.coords
        per = 1
        for s_ in arr.shape[1:]:
            per *= s_
        if arr.ndim == 2:
            row, per = 0, len(arr.data)
        if per < len(rec["x"]):
            raise Raised("the analysed path raises: heap overrun", "MemoryError('overrun')")
        for j, v in enumerate(rec["x"]):
            arr.data[row * per + j] = v
        cell = rec["cell"] or (0, 0, 0, 90, 90, 90)
        for k_, v in zip(("A", "B", "C", "alpha", "beta", "gamma"), cell):
            setattr(tsv, k_, v)
        return SUCCESS

    def rewind(ev, call):
        df.fh.setsread = 0
        return 0
    return {"__set_coords": set_coords, "open_dcd_write": open_write, "write_timestep": write_timestep, "read_next_timestep": read_next, "dcd_rewind": rewind,
            "ensure_type": lambda ev, c: (lambda v: ev.to_ten(v) if isinstance(v, (list, tuple)) else v)(ev.ex(c.args[0])), "warnings.warn": lambda ev, c: None,
            "str": lambda ev, c: ev.ex(c.args[0]), "ERROR_MESSAGES": lambda ev, c: "error"}


MODULE_ENV = {"_DCD_SUCCESS": SUCCESS, "_DCD_EOF": EOF, "NULL": None}


def call(ctx, df, me, method, assume=None, **kw):
    fn = me._methods[method]
    ts = TenSym({}, models=models(df, [me]))
    ts.module_env = dict(MODULE_ENV)
    ts.assume = assume
    ts.moderate = True
    ts.generic_eq = True
    return ts.run_fn(fn, self=me, **kw)
