"""save then load, end to end, by evaluation (sa/tensym.py): Trajectory.save_<fmt> is evaluated on a model trajectory with symbolic frames; the file class
it opens is instantiated from its source (constructor, context manager, write / read / read_as_traj all evaluated) on a model disk - `open` hands out a
recorder of what is written, or a model text file (sa/writers.text_file) holding what was recorded under that name; load_<fmt> is then evaluated on the
same disk and the Trajectory it builds is recorded.  Unit conversion is kept symbolic: in_units_of(q, u1, u2) = q * unit[u1] / unit[u2], so a value that
went nm -> file unit -> nm comes back as the same expression, and any other pair of conversions does not."""
from __future__ import annotations

import ast

from . import formats as F
from . import textio as T
from . import writers as W
from .tensym import TenSym, Ten, Obj, Rat, Poly

TRAJ = "mdtraj/core/trajectory.py"


def unit(u):
    return Rat(Poly.var("unit[%s]" % u))


def in_units_of(ev, call):
    a = [ev.ex(x) for x in call.args]
    kw = {k.arg: ev.ex(k.value) for k in call.keywords}
    q = a[0] if a else kw.get("quantity")
    u1 = a[1] if len(a) > 1 else kw.get("units_in")
    u2 = a[2] if len(a) > 2 else kw.get("units_out")
    inplace = a[3] if len(a) > 3 else kw.get("inplace", False)
    if q is None or u1 is None or u1 == u2:
        return q
    f = unit(u1) / unit(u2)
    if isinstance(q, Ten):
        new = [x * f for x in q.data]
        if inplace:
            for i_, v_ in enumerate(new):
                q.data[i_] = v_
            return q
        return Ten(q.shape, new)
    if isinstance(q, (list, tuple)):
        return type(q)(ev.lift(x) * f for x in q)
    return ev.lift(q) * f


class Disk:
    def __init__(self):
        self.files = {}

    def opener(self, ev, call):
        a = [ev.ex(x) for x in call.args]
        name = a[0]
        mode = a[1] if len(a) > 1 else next((ev.ex(k.value) for k in call.keywords if k.arg == "mode"), "r")
        if "w" in mode or "a" in mode:
            rec = self.files.setdefault(name, [])
            if "w" in mode:
                del rec[:]
            fh = Obj(tag="fh(%s)" % mode, _lenient=True)
            fh.write = lambda x_: rec.append(x_)
            fh.close = lambda: None
            fh.flush = lambda: None
            fh.__enter__ = lambda: fh
            return fh
        fh = W.text_file(T.flatten(self.files[name]))
        fh.__enter__ = lambda: fh
        return fh

    def exists(self, name):
        return name in self.files


def model_trajectory(world, have_cell=True):
    if getattr(world, "pdb", False):
        return world.traj(have_cell)
    t = Obj(tag="trajectory", xyz=world.x, _xyz=world.x, n_frames=world.n, n_atoms=world.n_atoms, top=world.top, topology=world.top, _topology=world.top, time=world.t, _time=world.t,
            unitcell_lengths=world.L if have_cell else None, unitcell_angles=world.A if have_cell else None, unitcell_vectors=world.B if have_cell else None,
            _unitcell_lengths=world.L if have_cell else None, _unitcell_angles=world.A if have_cell else None, _have_unitcell=have_cell, _lenient=True)
    t._check_valid_unitcell = lambda: None
    return t


def evaluator(ctx, rel, disk, root, made):
    mod = ctx.py.mod(rel)
    classes = {n.name: n for n in mod.tree.body if isinstance(n, ast.ClassDef)}
    funcs = {q: f for q, f in mod.functions.items() if "." not in q}

    def mktraj(ev, call):
        kw = {k.arg: ev.ex(k.value) for k in call.keywords}
        for i, a_ in enumerate(call.args):
            kw[("xyz", "topology", "time", "unitcell_lengths", "unitcell_angles")[i]] = ev.ex(a_)
        o = Obj(tag="loaded trajectory", _lenient=True, **{k_: v_ for k_, v_ in kw.items()})
        made.append(o)
        return o

    def mktop(ev, call):
        return W.recorder_topology()
    ts = TenSym({}, funcs=funcs, models={"in_units_of": in_units_of, "open_maybe_zipped": disk.opener, "open": disk.opener, "Trajectory": mktraj,
                                        "_parse_topology": lambda ev, c: ev.ex(c.args[0]), "cast_indices": lambda ev, c: ev.ex(c.args[0]),
                                        "ensure_type": lambda ev, c: ev.ex(c.args[0]), "str": lambda ev, c: "S", "warnings.warn": lambda ev, c: None,
                                        "os.path.exists": lambda ev, c: disk.exists(ev.ex(c.args[0])), "os.path.expanduser": lambda ev, c: ev.ex(c.args[0]), "os.fspath": lambda ev, c: ev.ex(c.args[0]), "os.path.abspath": lambda ev, c: ev.ex(c.args[0]), "md.Topology": mktop, "Topology": mktop}, parent=root)
    if rel == W.PDB:
        # the PDB reader builds a PdbStructure (classes of pdbstructure.py, nested ones included) and writes with print(..., file=)
        smod = ctx.py.mod(W.PDBS)
        for n in smod.tree.body:
            if isinstance(n, ast.ClassDef):
                classes[n.name] = n
                for b in n.body:
                    if isinstance(b, ast.ClassDef):
                        classes[n.name + "." + b.name] = b
        ts.funcs = dict({q: f for q, f in smod.functions.items() if "." not in q}, **ts.funcs)

        def prn(ev, call):
            dest = next((ev.ex(k_.value) for k_ in call.keywords if k_.arg == "file"), None)
            if isinstance(dest, Obj) and callable(getattr(dest, "write", None)):
                for a_ in call.args:
                    dest.write(ev.ex(a_))
                dest.write("\n")
        ts.models = dict(ts.models, **{"print": prn, "ilen": lambda ev, c: len(ev.iterate(ev.ex(c.args[0]))), "_is_url": lambda ev, c: False})
    ts.classes = classes
    ts.assume = W.assume
    ts.module_env = {"Trajectory": Obj(_distance_unit="nanometers"), "mdtraj": Obj(__version__="V", version=Obj(version="V")), "date": Obj(today=lambda: "D"),
                     "os": Obj(PathLike="PathLike", fspath=lambda p: p, path=Obj(exists=lambda p: disk.exists(p), expanduser=lambda p: p, abspath=lambda p: p, realpath=lambda p: p, normpath=lambda p: p)),
                     "pdb": Obj(PDBTrajectoryFile=Obj(_residueNameReplacements={}, _atomNameReplacements={}, _loadNameReplacementTables=lambda: None)),
                     "elem": Obj(get_by_symbol=lambda s_: Obj(tag="element", symbol=s_), virtual=Obj(tag="element", symbol="VS"))}
    if rel == W.PDB:
        ts.module_env.update({"element": Obj(get_by_symbol=lambda s_: Obj(tag="element", symbol=s_), hydrogen=Obj(tag="element", symbol="H")),
                              "sys": Obj(stdout=None), "warnings": Obj(warn=lambda *a_, **k_: None),
                              "PDBTrajectoryFile": Obj(_residueNameReplacements={}, _atomNameReplacements={}, _loadNameReplacementTables=lambda: None, _guess_element=lambda *a_: None)})
    return ts


def save_and_load(ctx, key, world, have_cell=True, load_kwargs=None, save_kwargs=None):
    """-> (pieces written, the Trajectory object load_<key> builds)"""
    rel, cls = F.rel_cls(key)
    root = W.new_root()
    disk = Disk()
    made = []
    traj = model_trajectory(world, have_cell)
    saver = ctx.py.func(TRAJ, "Trajectory.save_" + key)
    ts = evaluator(ctx, rel, disk, root, made)
    ts.run_fn(saver, self=traj, filename="FILE", **(save_kwargs or {}))
    loader = ctx.py.func(rel, "load_" + key)
    ts = evaluator(ctx, rel, disk, root, made)
    given = {"filename": "FILE"}
    if "top" in [a_.arg for a_ in loader.args.args + loader.args.kwonlyargs]:
        given["top"] = world.top
    given.update(load_kwargs or {})
    ret = ts.run_fn(loader, **given)
    return T.flatten(disk.files.get("FILE", [])), (ret if isinstance(ret, Obj) else (made[-1] if made else None))


class PdbWorld:
    """two frames of a two-chain system for the PDB path (positions x[f,a,k], one cell per frame)"""
    pdb = True

    def __init__(self, n_frames=2):
        self.top = W.pdb_topology([("A", [("ALA", 5, [("N", "N"), ("CA", "C")]), ("GLY", 6, [("C", "C")])]), ("", [("HOH", 1, [("O", "O")])])])
        self.n, self.n_atoms = n_frames, len(self.top.atoms)
        self.x = Ten.sym("x", (n_frames, self.n_atoms, 3))
        self.L = Ten.sym("L", (n_frames, 3))
        self.A = Ten.sym("A", (n_frames, 3))
        self.t = None

    def traj(self, have_cell):
        t = Obj(tag="trajectory", xyz=self.x, _xyz=self.x, n_frames=self.n, n_atoms=self.n_atoms, top=self.top, topology=self.top, _topology=self.top,
                unitcell_lengths=self.L if have_cell else None, unitcell_angles=self.A if have_cell else None, _have_unitcell=have_cell, _lenient=True)
        t._check_valid_unitcell = lambda: None
        return t


def save_and_load_store(ctx, key, world, have_cell=True, save_kwargs=None):
    """save_hdf5 / save_netcdf followed by load_hdf5 / load_netcdf: the file class is a model object on growing arrays (sa/h5model.py, sa/stores.py) whose
    write / read / read_as_traj / seek are evaluated from the class's source.  -> the Trajectory object the loader builds"""
    from . import h5model as H, stores as S
    rel, cls = F.rel_cls(key)
    mod = ctx.py.mod(rel)
    methods = {q.split(".", 1)[1]: f for q, f in mod.functions.items() if q.startswith(cls + ".") and q.count(".") == 1}
    root = W.new_root()
    made = []
    traj = model_trajectory(world, have_cell)
    state = {}
    file_unit = "nanometers" if key == "h5" else "angstroms"

    def mkfile(ev, call):
        a = [ev.ex(x) for x in call.args]
        kw = {k.arg: ev.ex(k.value) for k in call.keywords}
        mode = a[1] if len(a) > 1 else kw.get("mode", "r")
        if key == "h5":
            if mode == "w" or (mode == "a" and "nodes" not in state):      # append mode on a path that does not exist yet creates the file
                me = H.h5_file(ctx, "w", n_atoms=world.n_atoms)
                me.mode = mode
                state["nodes"] = me._nodes
            else:
                me = H.h5_file(ctx, "r", n_atoms=world.n_atoms, nodes=state["nodes"], first_write=False)
                me.mode = "r"
                me.topology = state.get("top")      # the topology node itself: C04 (HDF5 JSON round trip)
        else:
            if mode == "w":
                me = S.netcdf_file(ctx, "w")
                state["vars"] = me._handle.variables
            else:
                me = S.netcdf_file(ctx, "r", n_atoms=world.n_atoms, variables=state["vars"])
        me._methods = {k: v for k, v in methods.items() if k in ("write", "read", "read_as_traj", "seek", "tell")}
        me.__enter__ = lambda: me
        me.distance_unit = file_unit
        state["last"] = me
        return me
    disk = Disk()

    def mk(relx):
        ts = evaluator(ctx, relx, disk, root, made)
        ts.models = dict(ts.models, **H._models())
        ts.models["in_units_of"] = in_units_of
        ts.models[cls] = mkfile
        ts.module_env = dict(ts.module_env, **{cls: Obj(distance_unit=file_unit)})
        return ts
    name = {"h5": "hdf5", "nc": "netcdf"}[key]
    mk(TRAJ).run_fn(ctx.py.func(TRAJ, "Trajectory.save_" + name), self=traj, filename="FILE", **(save_kwargs or {}))
    if key == "h5":
        state["top"] = getattr(state["last"], "topology", None)
    given = {"filename": "FILE"}
    loader = ctx.py.func(rel, "load_" + name)
    if "top" in [a_.arg for a_ in loader.args.args + loader.args.kwonlyargs]:
        given["top"] = world.top
    ret = mk(rel).run_fn(loader, **given)
    return ret if isinstance(ret, Obj) else (made[-1] if made else None)


def save_and_load_xdr(ctx, key, world, have_cell=True):
    """save_xtc / save_trr followed by load_xtc / load_trr: the Cython file class is a model object (sa/xdrmodel.py) whose write / _write / read / _read /
    read_as_traj are evaluated from the desugared source on a model XDR file.  -> the Trajectory object the loader builds"""
    from . import xdrmodel as X
    rel, cls = F.rel_cls(key)
    root = W.new_root()
    made = []
    traj = model_trajectory(world, have_cell)
    xf = X.XdrFile(key)

    def mkfile(ev, call):
        a = [ev.ex(x) for x in call.args]
        kw = {k.arg: ev.ex(k.value) for k in call.keywords}
        mode = a[1] if len(a) > 1 else kw.get("mode", "r")
        xf.pos = 0
        return X.file_object(ctx, key, xf, mode, n_atoms=world.n_atoms)
    disk = Disk()

    def mk(relx):
        ts = evaluator(ctx, relx, disk, root, made)
        ts.models = dict(ts.models, **X.models(key, xf))
        ts.models["in_units_of"] = in_units_of
        ts.models[cls] = mkfile
        ts.models["os.fspath"] = lambda ev, c: ev.ex(c.args[0])
        ts.module_env = dict(ts.module_env, **X.MODULE_ENV)
        ts.module_env[cls] = Obj(distance_unit="nanometers")
        return ts
    mk(TRAJ).run_fn(ctx.py.func(TRAJ, "Trajectory.save_" + key), self=traj, filename="FILE")
    loader = ctx.py.func(rel, "load_" + key)
    ret = mk(rel).run_fn(loader, filename="FILE", top=world.top)
    return (ret if isinstance(ret, Obj) else (made[-1] if made else None)), xf


def save_and_load_dcd(ctx, world, have_cell=True):
    """save_dcd followed by load_dcd on a model DCD file (sa/dcdmodel.py); -> the Trajectory object the loader builds"""
    from . import dcdmodel as D
    rel, cls = F.rel_cls("dcd")
    root = W.new_root()
    made = []
    traj = model_trajectory(world, have_cell)
    df = D.DcdFile()
    ref = [None]

    def mkfile(ev, call):
        a = [ev.ex(x) for x in call.args]
        kw = {k.arg: ev.ex(k.value) for k in call.keywords}
        mode = a[1] if len(a) > 1 else kw.get("mode", "r")
        ref[0] = D.file_object(ctx, df, mode, n_atoms=world.n_atoms)
        return ref[0]
    disk = Disk()

    def mk(relx):
        ts = evaluator(ctx, relx, disk, root, made)
        ts.models = dict(ts.models, **D.models(df, ref))
        ts.models["in_units_of"] = in_units_of
        ts.models[cls] = mkfile
        ts.models["os.fspath"] = lambda ev, c: ev.ex(c.args[0])
        ts.module_env = dict(ts.module_env, **D.MODULE_ENV)
        ts.module_env[cls] = Obj(distance_unit="angstroms")
        return ts
    mk(TRAJ).run_fn(ctx.py.func(TRAJ, "Trajectory.save_dcd"), self=traj, filename="FILE")
    ret = mk(rel).run_fn(ctx.py.func(rel, "load_dcd"), filename="FILE", top=world.top)
    return ret if isinstance(ret, Obj) else (made[-1] if made else None)
