"""Inter-procedural effect analysis: which parameters does a function write?

Covers Python functions, Cython defs (through the desugarer) and C functions
(const-ness of pointer parameters read from the real prototypes in the headers
and sources).  Used by C03-R3 (mutating kernels), C03-R5 (analysis functions do
not mutate their input), C11 and C13.
"""
from __future__ import annotations

import ast
import os
import re

from .core import AnalysisError
from .cfg import CFG
from .flow import Defs, Fresh, FRESH, UNKNOWN
from .pyfront import dotted, call_name, kwarg, params, src, walk_no_nested, const

PYX_FILES = ["mdtraj/rmsd/_rmsd.pyx", "mdtraj/rmsd/_lprmsd.pyx", "mdtraj/geometry/src/_geometry.pyx",
             "mdtraj/geometry/src/image_molecules.pxi", "mdtraj/geometry/drid.pyx", "mdtraj/geometry/neighbors.pyx",
             "mdtraj/geometry/neighborlist.pyx"]
MUTATING_METHODS = {"sort", "fill", "resize", "put", "itemset", "setfield", "partition", "byteswap"}

# ---------------------------------------------------------------------------------------------
# C prototypes
# ---------------------------------------------------------------------------------------------
_proto_cache = {}


def c_prototypes(repo):
    """{function name: [param type texts]} from headers and sources of the C/C++ kernels."""
    if repo in _proto_cache:
        return _proto_cache[repo]
    protos = {}
    roots = ["mdtraj/geometry/include", "mdtraj/geometry/src", "mdtraj/geometry/src/kernels", "mdtraj/rmsd/include",
             "mdtraj/rmsd/src"]
    rx = re.compile(r"(?:^|[;}\n])\s*(?:static\s+|inline\s+|INLINE\s+|extern\s+|template\s*<[^>]*>\s*)*"
                    r"([A-Za-z_][\w:<>\s\*&]*?)\s+\**([A-Za-z_]\w*)\s*\(([^;{}()]*)\)\s*(?:const\s*)?[;{]", re.S)
    for r in roots:
        d = os.path.join(repo, r)
        if not os.path.isdir(d):
            continue
        for fn in sorted(os.listdir(d)):
            if not fn.endswith((".h", ".hpp", ".c", ".cpp")) or fn.startswith("_"):
                continue
            with open(os.path.join(d, fn), errors="replace") as f:
                txt = f.read()
            txt = re.sub(r"/\*.*?\*/", " ", txt, flags=re.S)
            txt = re.sub(r"//[^\n]*", " ", txt)
            txt = re.sub(r"^\s*#.*$", "", txt, flags=re.M)
            for m in rx.finditer(txt):
                ret, name, ps = m.group(1), m.group(2), m.group(3)
                if name in ("if", "for", "while", "switch", "return", "sizeof") or ret.strip() in ("return", "else"):
                    continue
                plist = [p.strip() for p in ps.split(",")] if ps.strip() and ps.strip() != "void" else []
                old = protos.get(name)
                # keep the declaration with the most const qualifiers?  No: a definition that is less const than the
                # header would be a compile error in C++; prefer header (.h) declarations, which come from include dirs first
                if old is None:
                    protos[name] = plist
    _proto_cache[repo] = protos
    return protos


_def_cache = {}


def c_definition_tu(repo, name):
    """Translation unit (.c/.cpp) in which C function ``name`` is defined (directly or via an included local header)."""
    tab = _def_cache.get(repo)
    if tab is None:
        tab = {}
        texts = {}
        for r in ("mdtraj/geometry/src", "mdtraj/rmsd/src"):
            d = os.path.join(repo, r)
            if not os.path.isdir(d):
                continue
            for fn in sorted(os.listdir(d)):
                if not fn.endswith((".c", ".cpp")) or fn.startswith("_"):
                    continue
                rel = os.path.join(r, fn)
                txt = open(os.path.join(d, fn), errors="replace").read()
                inc = re.findall(r'#\s*include\s+"([^"]+)"', txt)
                for i in inc:
                    for cand in (os.path.join(d, i), os.path.join(d, "kernels", i), os.path.join(os.path.dirname(d), "include", i)):
                        if os.path.exists(cand):
                            txt += "\n" + open(cand, errors="replace").read()
                            break
                texts[rel] = txt
                txt = re.sub(r"/\*.*?\*/", " ", txt, flags=re.S)
                txt = re.sub(r"//[^\n]*", " ", txt)
                txt = re.sub(r"^[ \t]*#.*$", "", txt, flags=re.M)   # signatures under #ifdef are followed by '#endif' and then '{'
                for m in re.finditer(r"\b([A-Za-z_]\w*)\s*\([^;{}()]*\)\s*(?:const\s*)?\{", txt):
                    tab.setdefault(m.group(1), rel)
        _def_cache[repo] = tab
        _def_cache[(repo, "texts")] = texts
    if name in tab:
        return tab[name]
    # signatures selected by the preprocessor (kernel headers): ask clang which TU defines the function
    from . import cfront
    for rel, txt in _def_cache.get((repo, "texts"), {}).items():
        if re.search(r"\b%s\s*\(" % re.escape(name), txt):
            try:
                cfront.get(repo).function(rel, name)
                tab[name] = rel
                return rel
            except AnalysisError:
                continue
    return None


def c_param_written(ptext):
    """May a C parameter declared as ``ptext`` be written through?"""
    if "*" not in ptext and "[" not in ptext and "&" not in ptext:
        return False
    return not re.search(r"\bconst\b", ptext)


# ---------------------------------------------------------------------------------------------
# function table
# ---------------------------------------------------------------------------------------------
class FI:
    def __init__(self, rel, qual, fn, mod):
        self.rel = rel
        self.qual = qual
        self.fn = fn
        self.mod = mod
        self.params = [p for p in params(fn)]
        self.mut = set()       # indices into self.params that are definitely written on some path
        self.maybe = set()     # indices possibly written (callee body unknown)
        self.cfg = None
        self.fresh = None


class Effects:
    def __init__(self, ctx, py_files, pyx_files=PYX_FILES):
        self.ctx = ctx
        self.repo = ctx.repo
        self.protos = c_prototypes(ctx.repo)
        self.funcs = {}     # (rel, qual) -> FI
        self.by_mod = {}    # module basename -> {name: FI}
        self.externs = {}   # rel -> set of extern names
        for rel in list(py_files) + list(pyx_files):
            if not ctx.py.exists(rel):
                raise AnalysisError("anchor file vanished: %s" % rel)
            m = ctx.py.mod(rel)
            base = os.path.basename(rel).split(".")[0]
            tab = self.by_mod.setdefault(base, {})
            for q, fn in m.functions.items():
                if q.endswith((".getter", ".setter", ".deleter")) or "#" in q:
                    continue
                fi = FI(rel, q, fn, m)
                self.funcs[(rel, q)] = fi
                if "." not in q:
                    tab[q] = fi
            if m.pyx is not None:
                ex = set(m.pyx.rec["externs"])
                self.externs[rel] = ex
                for inc in m.pyx.rec["includes"]:
                    # included .pxi shares the namespace
                    inc_rel = os.path.join(os.path.dirname(rel), inc)
                    if ctx.py.exists(inc_rel):
                        im = ctx.py.mod(inc_rel)
                        for q, fn in im.functions.items():
                            if "." not in q:
                                fi = self.funcs.get((inc_rel, q)) or FI(inc_rel, q, fn, im)
                                self.funcs[(inc_rel, q)] = fi
                                tab[q] = fi
                        ex |= set(im.pyx.rec["externs"])
        # .pxi sees the externs of the including file too
        for rel, m in [(r, ctx.py.mod(r)) for r in pyx_files]:
            if rel.endswith(".pxi"):
                for r2, ex in list(self.externs.items()):
                    if os.path.dirname(r2) == os.path.dirname(rel) and r2 != rel:
                        self.externs[rel] = self.externs.get(rel, set()) | ex
        self._solve()

    def c_written(self, name):
        from . import ceffects, cfront
        tu = c_definition_tu(self.repo, name)
        if tu is None:
            return None
        return ceffects.written_params(cfront.get(self.repo), tu, name)

    # -- resolution ------------------------------------------------------------------------
    def resolve(self, fi, call):
        """-> ('py', FI) | ('c', name, [ptexts]) | None"""
        d = call_name(call)
        if d is None:
            return None
        parts = d.split(".")
        if len(parts) == 1:
            name = parts[0]
            if name in self.externs.get(fi.rel, ()) and name in self.protos:
                return ("c", name, self.protos[name])
            base = os.path.basename(fi.rel).split(".")[0]
            t = self.by_mod.get(base, {}).get(name)
            if t is not None:
                return ("py", t)
            # imported name:  from .x import name / from mdtraj.geometry.x import name
            for st in fi.mod.tree.body:
                if isinstance(st, ast.ImportFrom):
                    for a in st.names:
                        if (a.asname or a.name) == name and st.module:
                            mb = st.module.split(".")[-1]
                            t = self.by_mod.get(mb, {}).get(a.name)
                            if t is not None:
                                return ("py", t)
            # function-local import
            for st in walk_no_nested(fi.fn):
                if isinstance(st, ast.ImportFrom) and st.module:
                    for a in st.names:
                        if (a.asname or a.name) == name:
                            t = self.by_mod.get(st.module.split(".")[-1], {}).get(a.name)
                            if t is not None:
                                return ("py", t)
            return None
        if len(parts) == 2 and parts[0] == "self" and "." in fi.qual:
            # a method of the same class
            t = self.funcs.get((fi.rel, fi.qual.rsplit(".", 1)[0] + "." + parts[1]))
            if t is not None and t.params and t.params[0] == "self":
                return ("py", t, 1)
            return None
        if len(parts) == 2 and parts[0] != "self":
            # f.write(...) where f was bound by `with Cls(...) as f` in this function
            for st in walk_no_nested(fi.fn):
                if isinstance(st, ast.With):
                    for it in st.items:
                        if isinstance(it.optional_vars, ast.Name) and it.optional_vars.id == parts[0] and isinstance(it.context_expr, ast.Call):
                            cname = (call_name(it.context_expr) or "").split(".")[-1]
                            cands = [t for (r_, q_), t in self.funcs.items() if q_ == cname + "." + parts[1]]
                            if len(cands) == 1 and cands[0].params and cands[0].params[0] == "self":
                                return ("py", cands[0], 1)
        if len(parts) >= 2 and parts[0] != "self":
            mb, name = parts[-2], parts[-1]
            t = self.by_mod.get(mb, {}).get(name)
            if t is not None:
                return ("py", t)
        return None

    # -- per-function analysis ------------------------------------------------------------------
    def _prep(self, fi):
        if fi.cfg is None:
            fi.cfg = CFG(fi.fn)
            fi.defs = Defs(fi.cfg)
            pset = set(fi.params)
            fi.fresh = Fresh(fi.cfg, fi.defs, roots=lambda d: d.split(".")[0] in pset)

    def param_roots(self, fi, e, node):
        """Parameters (by name) that expression e may alias at node."""
        self._prep(fi)
        tags = fi.fresh.eval(e, node)
        res = set()
        for t in tags:
            if isinstance(t, tuple):
                res.add(t[1])
        return res

    def mutation_events(self, fi):
        """Yield (ast node, root dotted path, description) for every write through an alias of a parameter."""
        self._prep(fi)
        cfg = fi.cfg
        for n in cfg.nodes():
            st = cfg.stmt[n]
            if st is None:
                continue
            if cfg.kind[n] == "stmt":
                tg = []
                if isinstance(st, ast.Assign):
                    tg = list(st.targets)
                elif isinstance(st, ast.AugAssign):
                    tg = [st.target]
                flat = []
                for t in tg:
                    if isinstance(t, (ast.Tuple, ast.List)):
                        flat.extend(t.elts)
                    else:
                        flat.append(t)
                for t in flat:
                    if isinstance(t, ast.Subscript):
                        for r in self.param_roots(fi, t.value, n):
                            yield (st, r, "store into %s[...]" % src(t.value), True)
                    elif isinstance(t, ast.Attribute):
                        d = dotted(t)
                        base = t.value
                        for r in self.param_roots(fi, base, n):
                            yield (st, r + "." + t.attr, "attribute store %s = ..." % d, True)
                    elif isinstance(t, ast.Name) and isinstance(st, ast.AugAssign):
                        for r in self.param_roots(fi, t, n):
                            yield (st, r, "in-place `%s`" % src(st)[:50], True)
            for e in cfg.own_exprs(n):
                for c in ast.walk(e):
                    if not isinstance(c, ast.Call):
                        continue
                    d = call_name(c)
                    if isinstance(c.func, ast.Attribute) and c.func.attr in MUTATING_METHODS:
                        for r in self.param_roots(fi, c.func.value, n):
                            yield (c, r, "%s() in place" % d, True)
                    out = kwarg(c, "out")
                    if out is not None and d and d.startswith(("np.", "numpy.")):
                        for r in self.param_roots(fi, out, n):
                            yield (c, r, "%s(out=...)" % d, True)
                    if d == "in_units_of":
                        ip = kwarg(c, "inplace", 3)
                        if ip is not None and const(ip) is not False and c.args:
                            for r in self.param_roots(fi, c.args[0], n):
                                yield (c, r, "in_units_of(inplace=True)", True)
                    tgt = self.resolve(fi, c)
                    if tgt is None:
                        continue
                    if tgt[0] == "c":
                        wp = self.c_written(tgt[1])
                        for j, a in enumerate(c.args):
                            if j >= len(tgt[2]):
                                continue
                            if wp is not None:
                                stt = wp.get(j)
                                if stt is None or stt[0] == "clean":
                                    continue
                                certain = stt[0] == "writes"
                                why = stt[1]
                            else:
                                if not c_param_written(tgt[2][j]):
                                    continue
                                certain = False
                                why = "prototype `%s` is not const and the body was not found" % tgt[2][j]
                            base = a
                            while isinstance(base, ast.Subscript):
                                base = base.value
                            for r in self.param_roots(fi, base, n):
                                yield (c, r, "C function %s %s through parameter %d (%s)" % (
                                    tgt[1], "writes" if certain else "may write", j, why), certain)
                    else:
                        callee = tgt[1]
                        cps = callee.params
                        off = tgt[2] if len(tgt) > 2 else 0
                        for j, a in enumerate(c.args):
                            if isinstance(a, ast.Starred):
                                break
                            if j + off in callee.mut or j + off in callee.maybe:
                                cert = j + off in callee.mut
                                for r in self.param_roots(fi, a, n):
                                    yield (c, r, "callee %s:%s %s its parameter `%s`" % (callee.rel, callee.qual, "writes" if cert else "may write", cps[j + off]), cert)
                        for k in c.keywords:
                            if k.arg in cps and (cps.index(k.arg) in callee.mut or cps.index(k.arg) in callee.maybe):
                                cert = cps.index(k.arg) in callee.mut
                                for r in self.param_roots(fi, k.value, n):
                                    yield (c, r, "callee %s:%s %s its parameter `%s`" % (callee.rel, callee.qual, "writes" if cert else "may write", k.arg), cert)

    def _solve(self):
        changed = True
        rounds = 0
        while changed and rounds < 8:
            changed = False
            rounds += 1
            for fi in self.funcs.values():
                for (node, root, what, certain) in self.mutation_events(fi):
                    p = root.split(".")[0].split("[")[0]
                    if p in fi.params and "." not in root:
                        i = fi.params.index(p)
                        tgt = fi.mut if certain else fi.maybe
                        if i not in tgt:
                            tgt.add(i)
                            changed = True


_eff_cache = {}


def get_effects(ctx):
    key = (ctx.repo, id(ctx))
    if key not in _eff_cache:
        py = [f for f in ctx.py.all_py("mdtraj/geometry") if f.endswith(".py")]
        py += [f for f in ctx.py.all_py("mdtraj/nmr") if f.endswith(".py")]
        py += ["mdtraj/core/trajectory.py", "mdtraj/utils/validation.py", "mdtraj/utils/unitcell.py"]
        # the file classes written in Python: a saver hands self.xyz to their write()
        py += [f for f in ctx.py.all_py("mdtraj/formats") if f.endswith(".py") and not f.endswith("__init__.py")]
        _eff_cache.clear()
        _eff_cache[key] = Effects(ctx, py)
    return _eff_cache[key]


def kernel_mutation_table(ctx):
    """{simple function name: set of positional indices written} for the Cython modules."""
    eff = get_effects(ctx)
    tab = {}
    for (rel, q), fi in eff.funcs.items():
        if rel.endswith((".pyx", ".pxi")) and "." not in q and fi.mut:
            tab[q] = set(fi.mut)
    if "_center_inplace_atom_major" not in tab:
        raise AnalysisError("effect analysis no longer finds _center_inplace_atom_major writing its argument "
                            "(front-end or prototype table broken)")
    return tab


# ---------------------------------------------------------------------------------------------
# C03-R5
# ---------------------------------------------------------------------------------------------
R5_EXCEPTIONS = {
    # function -> reason (documented in-place behaviour; one symbol each)
    "mdtraj/rmsd/_rmsd.pyx:rmsd": "docstring: 'this function will center the conformations in place' (precentered protocol)",
    "mdtraj/rmsd/_rmsd.pyx:rmsf": "same centring protocol as rmsd, documented",
    "mdtraj/rmsd/_lprmsd.pyx:lprmsd": "writes target only under the documented superpose=True option",
    "mdtraj/core/trajectory.py:Trajectory.superpose": "documented to move self",
    "mdtraj/core/trajectory.py:Trajectory.center_coordinates": "documented: acts inplace",
    "mdtraj/core/trajectory.py:Trajectory.image_molecules": "inplace=True documented; inplace=False decided by C11-R1",
    "mdtraj/core/trajectory.py:Trajectory.make_molecules_whole": "inplace=True documented; inplace=False decided by C11-R1",
    "mdtraj/core/trajectory.py:Trajectory.smooth": "inplace=True documented",
    "mdtraj/core/trajectory.py:Trajectory.atom_slice": "inplace=True documented",
    "mdtraj/core/trajectory.py:Trajectory.restrict_atoms": "inplace documented",
    "mdtraj/core/trajectory.py:Trajectory.remove_solvent": "inplace documented",
}
TRAJ_PARAM_NAMES = ("traj", "trajectory", "target", "reference", "self", "t", "trj")
TRAJ_FIELDS = ("xyz", "_xyz", "time", "_time", "unitcell_lengths", "_unitcell_lengths", "unitcell_angles",
               "_unitcell_angles", "unitcell_vectors", "topology", "_topology", "top", "_rmsd_traces")


def check_r5(ctx):
    eff = get_effects(ctx)
    targets = []
    for (rel, q), fi in sorted(eff.funcs.items()):
        name = q.split(".")[-1]
        if rel.startswith(("mdtraj/geometry/", "mdtraj/nmr/")) and rel.endswith(".py"):
            if "." in q or name.startswith("_"):
                continue
            targets.append(fi)
        elif rel == "mdtraj/core/trajectory.py" and q.startswith("Trajectory.save"):
            targets.append(fi)
        elif rel.endswith(".pyx") and name in ("rmsd", "rmsf", "lprmsd") and "." not in q:
            targets.append(fi)
        elif rel.endswith(".pyx") and "." not in q and not name.startswith("_") and rel.startswith("mdtraj/geometry/"):
            targets.append(fi)
    for fi in targets:
        key = fi.rel + ":" + fi.qual
        ctx.analysed_functions.add(key)
        tp = [p for p in fi.params if p in TRAJ_PARAM_NAMES or p == "self"]
        # any parameter through which `.xyz` is read counts as a trajectory parameter
        for n in walk_no_nested(fi.fn):
            if isinstance(n, ast.Attribute) and n.attr in ("xyz", "_xyz") and isinstance(n.value, ast.Name) and n.value.id in fi.params:
                if n.value.id not in tp:
                    tp.append(n.value.id)
        # array parameters of public functions (other than trajectories and explicit output buffers) are inputs too
        if fi.rel.endswith(".py") and "." not in fi.qual:
            arr_events = []
            for (node, root, what, certain) in eff.mutation_events(fi):
                base = root.split(".")[0].split("[")[0]
                if base in fi.params and base not in tp and base not in ("out", "self") and "." not in root and certain:
                    arr_events.append((node, root, what))
            seen_a = set()
            for (node, root, what) in arr_events:
                if (root, what) in seen_a:
                    continue
                seen_a.add((root, what))
                ctx.violated("C03-R5", node, fi.rel, fi.qual, "write to argument %s" % root,
                             "%s: the caller's array is modified by an analysis function" % what)
        if not tp:
            continue
        events = []
        maybe = []
        for (node, root, what, certain) in eff.mutation_events(fi):
            base = root.split(".")[0].split("[")[0]
            if ".unitcell_vectors" in root or ".unitcell_volumes" in root:
                continue   # computed properties: the getter builds a new array on every access (trajectory.py: unitcell_vectors)
            if base in tp:
                (events if certain else maybe).append((node, root, what))
        if events and key in R5_EXCEPTIONS:
            ctx.note("C03-R5", events[0][0], fi.rel, fi.qual, "writes %s" % events[0][1],
                     "documented in-place behaviour: " + R5_EXCEPTIONS[key])
            continue
        if events:
            seen = set()
            for (node, root, what) in events:
                k = (root, what)
                if k in seen:
                    continue
                seen.add(k)
                ctx.violated("C03-R5", node, fi.rel, fi.qual, "write to %s" % root,
                             "%s: the caller's trajectory is modified by a function not documented as in-place" % what)
        elif maybe and key not in R5_EXCEPTIONS:
            ctx.undecided("C03-R5", maybe[0][0], fi.rel, fi.qual, "write to %s" % maybe[0][1], maybe[0][2])
        else:
            ctx.holds("C03-R5", fi.fn, fi.rel, fi.qual, "no write through %s" % ",".join(tp),
                      "no store, in-place operator, out=, or writing callee reaches the trajectory's arrays")
