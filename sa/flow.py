"""Def-use and freshness / alias analysis for numpy-style code.

``Defs(cfg)``      reaching definitions over the statement CFG (optionally path-sensitive).
``Fresh``          evaluates an expression to a set of tags
                     FRESH            a new object sharing nothing with inputs
                     ('ALIAS', root)  may be / view of the object named by ``root``
                                      (a dotted path such as 'self._xyz', 'traj.xyz', or a parameter name)
                     UNKNOWN          result of a call the analysis does not model
"""
from __future__ import annotations

import ast

from .pyfront import dotted, call_name, kwarg, const, params

FRESH = "FRESH"
UNKNOWN = "UNKNOWN"

# numpy / stdlib functions that return a new object not sharing memory with their arguments
FRESH_FUNCS = {
    "np.array", "np.concatenate", "np.hstack", "np.vstack", "np.dstack", "np.stack", "np.zeros", "np.empty", "np.ones",
    "np.zeros_like", "np.empty_like", "np.ones_like", "np.arange", "np.copy", "np.mean", "np.sum", "np.sqrt", "np.dot",
    "np.einsum", "np.linalg.norm", "np.cross", "np.abs", "np.round", "np.floor", "np.where", "np.unique", "np.sort",
    "np.argsort", "np.cumsum", "np.diff", "np.tile", "np.repeat", "np.full", "np.linspace", "np.r_", "np.c_",
    "np.column_stack", "np.append", "np.delete", "np.insert", "np.take", "np.choose", "np.outer", "np.tensordot",
    "np.matmul", "np.degrees", "np.radians", "np.deg2rad", "np.rad2deg", "np.cos", "np.sin", "np.arccos", "np.arctan2",
    "np.exp", "np.log", "np.power", "np.maximum", "np.minimum", "np.clip", "np.min", "np.max", "np.average", "np.std",
    "np.var", "np.histogram", "np.eye", "np.identity", "np.fromiter", "np.asarray_chkfinite", "np.array_split",
    "np.isnan", "np.any", "np.all", "np.logical_and", "np.logical_or", "np.logical_not", "np.prod", "np.ceil",
    "np.trace", "np.linalg.eigh", "np.linalg.eig", "np.linalg.eigvalsh", "np.linalg.det", "np.linalg.inv", "np.linalg.svd",
    "deepcopy", "copy.deepcopy", "copy.copy", "list", "tuple", "dict", "set", "sorted", "len", "int", "float", "str",
    "range", "zip", "enumerate", "sum", "min", "max", "abs", "bool", "round", "frozenset",
    "in_units_of",  # returns a converted copy unless inplace=True (checked separately)
}
# methods returning a new object
FRESH_METHODS = {"copy", "astype", "mean", "sum", "std", "min", "max", "dot", "subset", "join", "tolist", "nonzero",
                 "cumsum", "argsort", "round", "conj", "repeat", "take", "compress", "flatten", "format", "split",
                 "strip", "lower", "upper", "to_dataframe", "to_openmm", "to_bondgraph", "select", "items", "keys", "values"}
# functions that return (possibly) their first argument
SAME_FUNCS = {"np.asarray", "np.ascontiguousarray", "np.asanyarray", "np.asfortranarray", "ensure_type", "np.require",
              "np.atleast_1d", "np.atleast_2d", "np.atleast_3d", "np.squeeze", "np.reshape", "np.ravel", "np.transpose",
              "np.swapaxes", "np.expand_dims", "np.broadcast_to", "np.real", "memoryview", "iter", "reversed"}
VIEW_METHODS = {"reshape", "view", "ravel", "squeeze", "transpose", "swapaxes", "T"}


class Def:
    __slots__ = ("var", "node", "value", "kind", "stmt")

    def __init__(self, var, node, value, kind, stmt):
        self.var = var      # dotted name
        self.node = node    # cfg node id
        self.value = value  # ast expr or None
        self.kind = kind    # assign | aug | iter | param | unpack | with | other
        self.stmt = stmt


def _targets(t):
    if isinstance(t, (ast.Tuple, ast.List)):
        for e in t.elts:
            yield from _targets(e)
    elif isinstance(t, ast.Starred):
        yield from _targets(t.value)
    else:
        yield t


def stmt_defs(cfg, n):
    """Definitions generated at cfg node n: list of (dotted var, value expr or None, kind)."""
    st = cfg.stmt[n]
    k = cfg.kind[n]
    out = []
    if st is None:
        return out
    if k == "iter":
        for t in _targets(st.target):
            d = dotted(t)
            if d:
                out.append((d, st.iter, "iter"))
        return out
    if k == "handler":
        if st.name:
            out.append((st.name, None, "other"))
        return out
    if k != "stmt":
        return out
    if isinstance(st, ast.Assign):
        for t in st.targets:
            if isinstance(t, (ast.Tuple, ast.List)) and isinstance(st.value, (ast.Tuple, ast.List)) \
                    and len(t.elts) == len(st.value.elts) and not any(isinstance(e, ast.Starred) for e in t.elts):
                for te, ve in zip(t.elts, st.value.elts):
                    d = dotted(te)
                    if d:
                        out.append((d, ve, "assign"))
            elif isinstance(t, (ast.Tuple, ast.List)):
                for te in _targets(t):
                    d = dotted(te)
                    if d:
                        out.append((d, st.value, "unpack"))
            else:
                d = dotted(t)
                if d:
                    out.append((d, st.value, "assign"))
    elif isinstance(st, ast.AnnAssign) and st.value is not None:
        d = dotted(st.target)
        if d:
            out.append((d, st.value, "assign"))
    elif isinstance(st, ast.AugAssign):
        d = dotted(st.target)
        if d:
            out.append((d, st, "aug"))
    elif isinstance(st, (ast.With, ast.AsyncWith)):
        for it in st.items:
            if it.optional_vars is not None:
                for t in _targets(it.optional_vars):
                    d = dotted(t)
                    if d:
                        out.append((d, it.context_expr, "with"))
    elif isinstance(st, (ast.Import, ast.ImportFrom)):
        for a in st.names:
            out.append(((a.asname or a.name).split(".")[0], None, "other"))
    elif isinstance(st, (ast.FunctionDef, ast.ClassDef)):
        out.append((st.name, None, "other"))
    return out


class Defs:
    """Path-insensitive reaching definitions."""

    def __init__(self, cfg, feasible_edge=None):
        self.cfg = cfg
        self.defs = []          # list of Def
        self.gen = {}           # node -> list of def indices
        for p in params(cfg.fn):
            self.defs.append(Def(p, cfg.entry, None, "param", None))
        self.gen[cfg.entry] = list(range(len(self.defs)))
        for n in cfg.nodes():
            if n == cfg.entry:
                continue
            g = []
            for (var, val, kind) in stmt_defs(cfg, n):
                self.defs.append(Def(var, n, val, kind, cfg.stmt[n]))
                g.append(len(self.defs) - 1)
            self.gen[n] = g
        IN = {n: frozenset() for n in cfg.nodes()}
        OUT = {n: frozenset() for n in cfg.nodes()}
        work = list(cfg.nodes())
        while work:
            n = work.pop()
            ins = set()
            for (p, c) in cfg.pred[n]:
                if feasible_edge is not None and not feasible_edge(p, n, c):
                    continue
                ins |= OUT[p]
            IN[n] = frozenset(ins)
            out = set(ins)
            if self.gen[n]:
                killed = {self.defs[i].var for i in self.gen[n]}
                # a definition of 'x' also kills definitions of 'x.attr'
                out = {i for i in out if not (self.defs[i].var in killed or any(self.defs[i].var.startswith(kv + ".") for kv in killed))}
                out |= set(self.gen[n])
            out = frozenset(out)
            if out != OUT[n]:
                OUT[n] = out
                for (m, c) in cfg.succ[n]:
                    work.append(m)
        self.IN = IN
        self.OUT = OUT

    def reaching(self, node, var):
        return [self.defs[i] for i in self.IN[node] if self.defs[i].var == var]


class Fresh:
    """Freshness evaluation of expressions at a CFG node."""

    def __init__(self, cfg, defs, roots=None, fresh_calls=(), same_calls=(), self_fields_alias=True):
        self.cfg = cfg
        self.defs = defs
        self.extra_fresh = set(fresh_calls)
        self.extra_same = set(same_calls)
        self.roots = roots  # optional predicate: is this dotted path a tracked root?

    def eval(self, e, node, _seen=None):
        _seen = _seen or set()
        if e is None:
            return {UNKNOWN}
        if isinstance(e, ast.Constant):
            return {FRESH}
        if isinstance(e, (ast.BinOp, ast.UnaryOp, ast.Compare, ast.BoolOp, ast.ListComp, ast.SetComp, ast.DictComp,
                          ast.GeneratorExp, ast.JoinedStr, ast.Dict, ast.Set)):
            if isinstance(e, ast.BoolOp):
                res = set()
                for v in e.values:
                    res |= self.eval(v, node, _seen)
                return res
            return {FRESH}
        if isinstance(e, (ast.List, ast.Tuple)):
            res = set()
            for v in e.elts:
                res |= self.eval(v, node, _seen)
            return res or {FRESH}
        if isinstance(e, ast.IfExp):
            return self.eval(e.body, node, _seen) | self.eval(e.orelse, node, _seen)
        if isinstance(e, ast.Starred):
            return self.eval(e.value, node, _seen)
        if isinstance(e, ast.Subscript):
            base = self.eval(e.value, node, _seen)
            # indexing a fresh temporary gives an object owned by nobody else
            return base
        if isinstance(e, ast.Call):
            d = call_name(e)
            if d is not None:
                if d in ("np.array", "numpy.array"):
                    cp = kwarg(e, "copy")
                    if cp is not None and const(cp) is False:
                        return self.eval(e.args[0], node, _seen) if e.args else {UNKNOWN}
                    return {FRESH}
                if d == "in_units_of":
                    ip = kwarg(e, "inplace", 3)
                    if ip is not None and const(ip) is not False:
                        return self.eval(e.args[0], node, _seen) if e.args else {UNKNOWN}
                    # in_units_of returns its argument unchanged when units are equal or value is None
                    # (utils/unit: "if units_in == units_out: return quantity") -> may alias
                    return self.eval(e.args[0], node, _seen) | {FRESH} if e.args else {UNKNOWN}
                if d in FRESH_FUNCS or d in self.extra_fresh or d.replace("numpy.", "np.") in FRESH_FUNCS:
                    return {FRESH}
                if d in SAME_FUNCS or d in self.extra_same or d.split(".")[-1] in ("ensure_type",):
                    return self.eval(e.args[0], node, _seen) if e.args else {UNKNOWN}
                tail = d.split(".")[-1]
                if isinstance(e.func, ast.Attribute):
                    if tail in FRESH_METHODS:
                        if tail == "astype":
                            cp = kwarg(e, "copy")
                            if cp is not None and const(cp) is False:
                                return self.eval(e.func.value, node, _seen)
                        return {FRESH}
                    if tail in VIEW_METHODS:
                        return self.eval(e.func.value, node, _seen)
                if tail in ("__class__", "Trajectory", "Topology"):
                    return {FRESH}
            return {UNKNOWN}
        if isinstance(e, ast.Attribute) and e.attr in ("T", "real", "imag", "flat"):
            return self.eval(e.value, node, _seen)
        d = dotted(e)
        if d is None:
            return {UNKNOWN}
        # a tracked root itself (self._xyz, traj.xyz, ...)
        if self.roots is not None and self.roots(d):
            # but a local re-definition of exactly this dotted name takes precedence
            rd = self.defs.reaching(node, d) if node is not None else []
            if not rd:
                return {("ALIAS", d)}
        if isinstance(e, ast.Name) or "." in d:
            rd = self.defs.reaching(node, d) if node is not None else []
            if rd:
                res = set()
                if self.roots is not None and self.roots(d) and node is not None:
                    # a field of a tracked object that is re-assigned on some paths only keeps its incoming value on the others
                    defnodes = {df.node for df in rd if df.node is not None}
                    if node in self.cfg.reachable(self.cfg.entry, removed=defnodes):
                        res.add(("ALIAS", d))
                for df in rd:
                    key = (id(df), d)
                    if key in _seen:
                        continue
                    s2 = _seen | {key}
                    if df.kind == "param":
                        res.add(("ALIAS", d))
                    elif df.kind == "aug":
                        # x op= y : in-place for arrays -> same object as before
                        res |= self.eval(df.stmt.target, df.node, s2)
                    elif df.kind == "iter":
                        res |= self.eval(df.value, df.node, s2)
                    elif df.kind in ("assign", "with", "unpack"):
                        # unpacking a sequence yields its elements: views of the same storage for arrays
                        res |= self.eval(df.value, df.node, s2)
                    else:
                        res.add(UNKNOWN)
                return res or {UNKNOWN}
            if "." in d:
                # attribute of something: alias of the base object's field
                base = e
                while isinstance(base, ast.Attribute):
                    base = base.value
                if isinstance(base, ast.Name):
                    bd = self.defs.reaching(node, base.id) if node is not None else []
                    if bd and all(x.kind == "param" for x in bd):
                        return {("ALIAS", d)}
                    if bd:
                        res = set()
                        for df in bd:
                            if df.kind == "param":
                                res.add(("ALIAS", d))
                            else:
                                sub = self.eval(df.value, df.node, _seen | {(id(df), d)}) if df.value is not None else {UNKNOWN}
                                for t in sub:
                                    if t == FRESH:
                                        res.add(FRESH)   # field of a fresh object
                                    elif isinstance(t, tuple):
                                        res.add(("ALIAS", t[1] + d[len(base.id):]))
                                    else:
                                        res.add(UNKNOWN)
                        return res
                return {("ALIAS", d)}
            return {UNKNOWN}  # global / builtin name
        return {UNKNOWN}


def aliases_of(tags, prefix):
    """Tags that alias a root starting with prefix."""
    return [t for t in tags if isinstance(t, tuple) and (t[1] == prefix or t[1].startswith(prefix + ".") or t[1].startswith(prefix + "["))]


# ---------------------------------------------------------------------------
# Forward abstract interpretation: path-sensitive freshness + origin
# ---------------------------------------------------------------------------

def generic_atom(e):
    """Atom for branch tests: names, attribute chains, `x is None`, `x is not None`, `a == const`."""
    if isinstance(e, ast.Compare) and len(e.ops) == 1:
        l, r = e.left, e.comparators[0]
        op = e.ops[0]
        if isinstance(r, ast.Constant) and r.value is None and dotted(l):
            if isinstance(op, ast.Is):
                return ("isnone", dotted(l))
            if isinstance(op, ast.IsNot):
                return ("~", ("isnone", dotted(l)))
        if isinstance(op, (ast.Eq, ast.NotEq)) and dotted(l) and isinstance(r, ast.Constant):
            k = ("eq", dotted(l), repr(r.value))
            return k if isinstance(op, ast.Eq) else ("~", k)
        return None
    d = dotted(e)
    if d is not None:
        return ("true", d)
    return None


def _mentions(key, var):
    if isinstance(key, tuple):
        return any(_mentions(k, var) for k in key)
    return isinstance(key, str) and (key == var or key.startswith(var + ".") or var.startswith(key + "."))


def _nonnull(e):
    return isinstance(e, (ast.Subscript, ast.BinOp, ast.List, ast.Tuple, ast.Dict, ast.ListComp)) or (
        isinstance(e, ast.Call) and (isinstance(e.func, ast.Attribute) or call_name(e) in FRESH_FUNCS))


class AbsInterp:
    """state: dict  atom->bool  and  ('val', var) -> (frozenset(tags), frozenset(origins))."""

    def __init__(self, cfg, roots, assume=None, extra_fresh=(), extra_same=()):
        self.cfg = cfg
        self.roots = roots
        self.extra_fresh = set(extra_fresh)
        self.extra_same = set(extra_same)
        self.params = set(params(cfg.fn))
        init = dict(assume or {})
        self.W = cfg.worlds_at(self._atom, init=init, transfer=self._transfer)

    # -- atoms ---------------------------------------------------------------
    def _atom(self, e):
        return generic_atom(e)

    # -- evaluation ------------------------------------------------------------
    def value(self, e, state):
        """-> (tags, origins)"""
        if e is None:
            return ({UNKNOWN}, set())
        if isinstance(e, ast.Constant):
            return ({FRESH}, {"const:%r" % (e.value,)})
        if isinstance(e, ast.IfExp):
            at = self._atom(e.test)
            if at is not None:
                neg = at[0] == "~"
                known = state.get(at[1] if neg else at)
                if known is not None:
                    return self.value(e.body if (known != neg) else e.orelse, state)
            a = self.value(e.body, state)
            b = self.value(e.orelse, state)
            return (a[0] | b[0], a[1] | b[1])
        if isinstance(e, ast.BoolOp):
            t, o = set(), set()
            for v in e.values:
                a = self.value(v, state)
                t |= a[0]
                o |= a[1]
            return (t, o)
        if isinstance(e, (ast.BinOp, ast.UnaryOp, ast.Compare, ast.ListComp, ast.SetComp, ast.DictComp,
                          ast.GeneratorExp, ast.JoinedStr, ast.Dict, ast.Set)):
            return ({FRESH}, {"computed"})
        if isinstance(e, (ast.List, ast.Tuple)):
            t, o = set(), set()
            for v in e.elts:
                a = self.value(v, state)
                t |= a[0]
                o |= a[1]
            return (t or {FRESH}, o)
        if isinstance(e, ast.Starred):
            return self.value(e.value, state)
        if isinstance(e, ast.Subscript):
            t, o = self.value(e.value, state)
            try:
                s = ast.unparse(e.slice)
            except Exception:
                s = "?"
            return (set(t), {x + "[" + s + "]" for x in o})
        if isinstance(e, ast.Call):
            d = call_name(e)
            if d is not None:
                first = e.args[0] if e.args else None
                if d in ("np.array", "numpy.array"):
                    cp = kwarg(e, "copy")
                    a = self.value(first, state)
                    if cp is not None and const(cp) is False:
                        return a
                    return ({FRESH}, a[1])
                if d == "in_units_of":
                    a = self.value(first, state)
                    ip = kwarg(e, "inplace", 3)
                    if ip is not None and const(ip) is not False:
                        return a
                    return (a[0] | {FRESH}, a[1])
                if d in ("deepcopy", "copy.deepcopy", "copy.copy", "np.copy"):
                    a = self.value(first, state)
                    return ({FRESH}, a[1])
                if d in FRESH_FUNCS or d in self.extra_fresh:
                    o = set()
                    for x in e.args:
                        o |= {"f(" + y + ")" for y in self.value(x, state)[1]}
                    return ({FRESH}, o or {"computed"})
                if d in SAME_FUNCS or d in self.extra_same or d.split(".")[-1] == "ensure_type":
                    return self.value(first, state)
                tail = d.split(".")[-1]
                if isinstance(e.func, ast.Attribute):
                    if tail == "copy":
                        a = self.value(e.func.value, state)
                        return ({FRESH}, a[1])
                    if tail == "astype":
                        a = self.value(e.func.value, state)
                        cp = kwarg(e, "copy")
                        if cp is not None and const(cp) is False:
                            return a
                        return ({FRESH}, a[1])
                    if tail in FRESH_METHODS:
                        a = self.value(e.func.value, state)
                        return ({FRESH}, {x + "." + tail + "()" for x in a[1]})
                    if tail in VIEW_METHODS:
                        return self.value(e.func.value, state)
                if tail in ("__class__", "Trajectory", "Topology"):
                    return ({FRESH}, {"new"})
            return ({UNKNOWN}, {"call:" + (d or "?")})
        if isinstance(e, ast.Attribute) and e.attr in ("T", "real", "imag", "flat"):
            return self.value(e.value, state)
        d = dotted(e)
        if d is None:
            return ({UNKNOWN}, set())
        if state.get(("isnone", d)) is True:
            return ({FRESH}, {"const:None"})    # in this world the variable is None: nothing to share
        v = state.get(("val", d))
        if v is not None:
            return (set(v[0]), set(v[1]))
        if self.roots(d):
            return ({("ALIAS", d)}, {d})
        if isinstance(e, ast.Name):
            if d in self.params:
                return ({("ALIAS", d)}, {d})
            return ({UNKNOWN}, {"global:" + d})
        # attribute of something
        base = e
        while isinstance(base, ast.Attribute):
            base = base.value
        bt, bo = self.value(e.value, state)
        res = set()
        for t in bt:
            if t == FRESH:
                res.add(FRESH)
            elif isinstance(t, tuple):
                res.add(("ALIAS", t[1] + "." + e.attr))
            else:
                res.add(UNKNOWN)
        return (res or {UNKNOWN}, {x + "." + e.attr for x in bo})

    # -- transfer ----------------------------------------------------------------
    def _transfer(self, n, st):
        for (var, val, kind) in stmt_defs(self.cfg, n):
            if kind == "aug":
                # in-place: value object unchanged; facts about var's None-ness unchanged
                continue
            if kind == "assign":
                tags, orig = self.value(val, st)
            elif kind == "iter":
                tags, orig = self.value(val, st)
                orig = {o + "[*]" for o in orig}
            elif kind == "with":
                tags, orig = self.value(val, st)
            else:
                tags, orig = {UNKNOWN}, set()
            # facts
            none_fact = None
            if kind == "assign":
                if isinstance(val, ast.Constant) and val.value is None:
                    none_fact = True
                elif dotted(val) is not None and ("isnone", dotted(val)) in st:
                    none_fact = st[("isnone", dotted(val))]
                elif isinstance(val, ast.Call) and isinstance(val.func, ast.Attribute) and dotted(val.func.value) == var \
                        and st.get(("isnone", var)) is False:
                    none_fact = False
                elif _nonnull(val):
                    none_fact = False
            for k in [k for k in st if not (isinstance(k, tuple) and k and k[0] == "val") and _mentions(k, var)]:
                st.pop(k)
            for k in [k for k in st if isinstance(k, tuple) and k and k[0] == "val" and k[1] != var and k[1].startswith(var + ".")]:
                st.pop(k)
            if none_fact is not None:
                st[("isnone", var)] = none_fact
            st[("val", var)] = (frozenset(tags), frozenset(orig))
        return st

    def states_at(self, node):
        return [dict(w) for w in self.W[node]]


def deps(expr, node, defs, _seen=None, depth=0):
    """Backward slice of an expression through local reaching definitions:
    the set of dotted names (parameters, attribute chains, globals) it depends on."""
    _seen = _seen if _seen is not None else set()
    out = set()
    if expr is None:
        return out
    todo = []
    for n in ast.walk(expr):
        if isinstance(n, ast.Call) and call_name(n) == "getattr" and len(n.args) >= 2 and isinstance(n.args[1], ast.Constant) \
                and isinstance(n.args[1].value, str):
            # getattr(x, 'f', default)  ==  x.f
            for b in deps(n.args[0], node, defs, _seen, depth + 1):
                out.add(b + "." + n.args[1].value)
        if isinstance(n, (ast.Name, ast.Attribute)):
            d = dotted(n)
            if d:
                todo.append(d)
    # keep only maximal chains (a.b.c but not a.b, a)
    maximal = [d for d in set(todo) if not any(o != d and o.startswith(d + ".") for o in todo)]
    for d in maximal:
        base = d.split(".")[0]
        rd = defs.reaching(node, d) or defs.reaching(node, base)
        real = [x for x in rd if x.kind != "param"]
        if not real or depth > 12:
            out.add(d)
            continue
        suffix = d[len(base):] if not defs.reaching(node, d) else ""
        for df in real:
            key = (id(df), d)
            if key in _seen:
                continue        # on the current chain of definitions already (loop-carried definition): nothing new behind it
            _outer, _seen = _seen, _seen | {key}
            if df.kind == "aug":
                sub = deps(df.stmt.value, df.node, defs, _seen, depth + 1) | deps(df.stmt.target, df.node, defs, _seen, depth + 1)
            elif df.value is None:
                sub = {d}
            else:
                sub = deps(df.value, df.node, defs, _seen, depth + 1)
            # containers filled by method calls:  x = []; x.append(e)  /  x[k] = e
            if df.kind == "assign" and isinstance(df.value, (ast.List, ast.Dict, ast.Set)) or (
                    df.kind == "assign" and isinstance(df.value, ast.Call) and call_name(df.value) in ("list", "dict", "set")):
                for st_node in defs.cfg.nodes():
                    for e in defs.cfg.own_exprs(st_node):
                        for c in ast.walk(e):
                            if isinstance(c, ast.Call) and isinstance(c.func, ast.Attribute) and c.func.attr in ("append", "extend", "add", "insert") \
                                    and dotted(c.func.value) == df.var and c.args:
                                key2 = ("fill", id(c))
                                if key2 not in _seen:
                                    sub |= {x + "[*]" for x in deps(c.args[-1], st_node, defs, _seen | {key2}, depth + 1)}
                            if isinstance(c, ast.Assign):
                                for t in c.targets:
                                    if isinstance(t, ast.Subscript) and dotted(t.value) == df.var:
                                        key2 = ("fill", id(c))
                                        if key2 not in _seen:
                                            sub |= {x + "[*]" for x in deps(c.value, st_node, defs, _seen | {key2}, depth + 1)}
            if df.kind in ("iter", "unpack"):
                sub = {s + "[*]" for s in sub}
            out |= {s + suffix for s in sub} if suffix else sub
            _seen = _outer
        if any(x.kind == "param" for x in rd):
            out.add(d)
    return out
