"""Table of trajectory file classes (the instances confirmed by hand, DESIGN Appendix A.1)."""
from __future__ import annotations

import ast

from .core import AnalysisError
from .pyfront import dotted, call_name, params, walk_no_nested, const

# name: (file, class, position field (dotted) or None, native length unit per format spec)
CLASSES = {
    "h5": ("mdtraj/formats/hdf5.py", "HDF5TrajectoryFile", "self._frame_index", "nanometers"),
    "nc": ("mdtraj/formats/netcdf.py", "NetCDFTrajectoryFile", "self._frame_index", "angstroms"),
    "xtc": ("mdtraj/formats/xtc/xtc.pyx", "XTCTrajectoryFile", "self.frame_counter", "nanometers"),
    "trr": ("mdtraj/formats/xtc/trr.pyx", "TRRTrajectoryFile", "self.frame_counter", "nanometers"),
    "dcd": ("mdtraj/formats/dcd/dcd.pyx", "DCDTrajectoryFile", None, "angstroms"),
    "dtr": ("mdtraj/formats/dtr/dtr.pyx", "DTRTrajectoryFile", "self.frame_counter", "angstroms"),
    "mdcrd": ("mdtraj/formats/mdcrd.py", "MDCRDTrajectoryFile", "self._frame_index", "angstroms"),
    "xyz": ("mdtraj/formats/xyzfile.py", "XYZTrajectoryFile", "self._frame_index", "angstroms"),
    "lammpstrj": ("mdtraj/formats/lammpstrj.py", "LAMMPSTrajectoryFile", "self._frame_index", "angstroms"),
    "gro": ("mdtraj/formats/gro.py", "GroTrajectoryFile", "self._frame_index", "nanometers"),
    "pdb": ("mdtraj/formats/pdb/pdbfile.py", "PDBTrajectoryFile", None, "angstroms"),
    "arc": ("mdtraj/formats/arc.py", "ArcTrajectoryFile", "self._frame_index", "angstroms"),
    "rst7": ("mdtraj/formats/amberrst.py", "AmberRestartFile", None, "angstroms"),
    "ncrst": ("mdtraj/formats/amberrst.py", "AmberNetCDFRestartFile", None, "angstroms"),
    "lh5": ("mdtraj/formats/lh5.py", "LH5TrajectoryFile", "self._frame_index", "nanometers"),
}


def method(ctx, key, name, required=True):
    rel, cls, _, _ = CLASSES[key]
    m = ctx.py.mod(rel)
    q = "%s.%s" % (cls, name)
    fn = m.functions.get(q)
    if fn is None:
        if required:
            raise AnalysisError("anchor function vanished: %s:%s" % (rel, q))
        return None
    ctx.analysed_functions.add(rel + ":" + q)
    return fn


def rel_cls(key):
    return CLASSES[key][0], CLASSES[key][1]


def self_calls(fn):
    """Names of methods called as self.<m>(...) in fn."""
    res = []
    for n in walk_no_nested(fn):
        if isinstance(n, ast.Call):
            d = call_name(n)
            if d and d.startswith("self.") and d.count(".") == 1:
                res.append((d[5:], n))
    return res


def registry(ctx):
    """{'loaders': {ext: (rel, func)}, 'fileobjects': {ext: (rel, class)}} from decorators (.py/.pyx) and
    explicit FormatRegistry.register_*('.ext')(obj) calls (.pyx)."""
    res = {"loaders": {}, "fileobjects": {}}
    for rel in ctx.py.all_py("mdtraj/formats"):
        m = ctx.py.mod(rel)
        for node in ast.walk(m.tree):
            if isinstance(node, (ast.FunctionDef, ast.ClassDef)):
                for d in node.decorator_list:
                    if isinstance(d, ast.Call) and (call_name(d) or "").startswith("FormatRegistry.register_") and d.args:
                        kind = "loaders" if call_name(d).endswith("loader") else "fileobjects"
                        ext = const(d.args[0])
                        if isinstance(ext, str):
                            res[kind][ext] = (rel, node.name)
            if isinstance(node, ast.Call) and isinstance(node.func, ast.Call) and (call_name(node.func) or "").startswith("FormatRegistry.register_") \
                    and node.func.args and node.args:
                kind = "loaders" if call_name(node.func).endswith("loader") else "fileobjects"
                ext = const(node.func.args[0])
                tgt = dotted(node.args[0])
                if isinstance(ext, str) and tgt:
                    res[kind][ext] = (rel, tgt)
    if len(res["loaders"]) < 20 or len(res["fileobjects"]) < 15:
        raise AnalysisError("FormatRegistry tables look incomplete: %d loaders, %d file objects" % (len(res["loaders"]), len(res["fileobjects"])))
    return res
