"""HDF5TrajectoryFile.write evaluated (sa/tensym.py) on a model of the PyTables file: nodes are recorders of what is appended to them, a node
that does not exist raises the class's NoSuchNodeError, _initialize_headers creates the nodes its flags ask for."""
from __future__ import annotations

from . import formats as F
from .tensym import TenSym, Ten, Obj, Raised
from . import stores as S

FIELDS = ["coordinates", "time", "cell_lengths", "cell_angles", "velocities", "kineticEnergy", "potentialEnergy", "temperature", "alchemicalLambda"]
NODE_OF = {f: f for f in FIELDS}
NODE_OF["alchemicalLambda"] = "lambda"      # the one field whose node is named differently (MDTraj HDF5 format specification)
HEADER_FLAGS = {"set_coordinates": ["coordinates"], "set_time": ["time"], "set_cell": ["cell_lengths", "cell_angles"], "set_velocities": ["velocities"],
                "set_kineticEnergy": ["kineticEnergy"], "set_potentialEnergy": ["potentialEnergy"], "set_temperature": ["temperature"], "set_alchemicalLambda": ["lambda"]}


def arrays(n_frames=2, n_atoms=3, fields=("coordinates", "time", "cell_lengths", "cell_angles")):
    shp = {"coordinates": (n_frames, n_atoms, 3), "velocities": (n_frames, n_atoms, 3), "cell_lengths": (n_frames, 3), "cell_angles": (n_frames, 3)}
    return {f: Ten.sym(f, shp.get(f, (n_frames,))) for f in fields}


UNITS = {"coordinates": "nanometers", "time": "picoseconds", "cell_lengths": "nanometers", "cell_angles": "degrees", "velocities": "nanometers/picosecond",
         "kineticEnergy": "kilojoules_per_mole", "potentialEnergy": "kilojoules_per_mole", "temperature": "kelvin", "lambda": "dimensionless"}


def h5_file(ctx, mode="w", n_atoms=3, nodes_present=None, first_write=True, nodes=None):
    """an HDF5TrajectoryFile object on a model PyTables handle: every node is a growing array (sa/stores.py) that also logs what is appended to it"""
    log = []
    nodes = nodes if nodes is not None else {}
    root = Obj(tag="root", _lenient=True)
    root._contains = lambda name: name in nodes
    state = {"n_atoms": n_atoms}

    def mknode(name):
        rs = {"coordinates": (state["n_atoms"], 3), "velocities": (state["n_atoms"], 3), "cell_lengths": (3,), "cell_angles": (3,)}.get(name, ())
        nd = S.grow_array(name, rs, UNITS.get(name), auto_extend=False)
        app = nd.append

        def append(x_, _n=name, _app=app):
            log.append(("append", _n, x_))
            _app(x_)
        nd.append = append
        nodes[name] = nd
        setattr(root, name, nd)
        return nd
    for nm in (nodes_present or []):
        mknode(nm)
    for nm, nd in list(nodes.items()):
        setattr(root, nm, nd)

    def get_node(where="/", name=None, **kw):
        if name not in nodes:
            raise Raised("the analysed path raises: NoSuchNodeError(%s)" % name, "self.tables.NoSuchNodeError(%r)" % name)
        return nodes[name]

    def init_headers(**kw):
        log.append(("headers", {k: v for k, v in kw.items() if k.startswith("set_")}))
        if kw.get("n_atoms") is not None:
            state["n_atoms"] = kw["n_atoms"]
        for flag, names in HEADER_FLAGS.items():
            if kw.get(flag):
                for nm in names:
                    mknode(nm)
    me = Obj(tag="h5 file", mode=mode, _needs_initialization=first_write, _frame_index=0, _open=True, tables=Obj(NoSuchNodeError="NoSuchNodeError"), distance_unit="nanometers", _lenient=True)
    me._get_node = get_node
    me._initialize_headers = init_headers
    me.flush = lambda: log.append(("flush",))
    me._handle = Obj(tag="pytables handle", root=root, get_node=get_node, flush=lambda: None, _lenient=True)
    me._log, me._nodes = log, nodes
    return me


def _models():
    def frames(ev, call):
        kw = {k.arg: ev.ex(k.value) for k in call.keywords}
        o = Obj(tag="frames", _lenient=True, **kw)
        c = kw.get("coordinates")
        o.n_frames = c.shape[0] if isinstance(c, Ten) else 0
        return o
    return {"ensure_type": lambda ev, c: (lambda v: ev.to_ten(v) if isinstance(v, (list, tuple)) else v)(ev.ex(c.args[0])), "in_units_of": lambda ev, c: ev.ex(c.args[0]),
            "_check_mode": lambda ev, c: None, "warnings.warn": lambda ev, c: None, "Frames": frames}


def call(ctx, me, method, extra_models=None, **kw):
    """evaluate a method of HDF5TrajectoryFile on the model object; -> (returned value, exception text or None)"""
    fn = F.method(ctx, "h5", method)
    mm = _models()
    mm.update(extra_models or {})
    ts = TenSym({}, models=mm)
    try:
        return ts.run_fn(fn, self=me, **kw), None
    except Raised as e:
        return None, (e.exc or str(e))


def run_write(ctx, given, nodes_present=None, first_write=True, mode="w"):
    """-> dict(log=[("append", node name, array) | ("headers", flags)], raised=None | exception text, nodes=set of node names afterwards)"""
    me = h5_file(ctx, mode=mode, n_atoms=(given["coordinates"].shape[1] if isinstance(given.get("coordinates"), Ten) else 3), nodes_present=nodes_present, first_write=first_write)
    _, raised = call(ctx, me, "write", **given)
    return dict(log=me._log, raised=raised, nodes=set(me._nodes), me=me)
