"""HDF5TrajectoryFile.write evaluated (sa/tensym.py) on a model of the PyTables file: nodes are recorders of what is appended to them, a node
that does not exist raises the class's NoSuchNodeError, _initialize_headers creates the nodes its flags ask for."""
from __future__ import annotations

from . import formats as F
from .tensym import TenSym, Ten, Obj, Raised

FIELDS = ["coordinates", "time", "cell_lengths", "cell_angles", "velocities", "kineticEnergy", "potentialEnergy", "temperature", "alchemicalLambda"]
NODE_OF = {f: f for f in FIELDS}
NODE_OF["alchemicalLambda"] = "lambda"      # the one field whose node is named differently (MDTraj HDF5 format specification)
HEADER_FLAGS = {"set_coordinates": ["coordinates"], "set_time": ["time"], "set_cell": ["cell_lengths", "cell_angles"], "set_velocities": ["velocities"],
                "set_kineticEnergy": ["kineticEnergy"], "set_potentialEnergy": ["potentialEnergy"], "set_temperature": ["temperature"], "set_alchemicalLambda": ["lambda"]}


def arrays(n_frames=2, n_atoms=3, fields=("coordinates", "time", "cell_lengths", "cell_angles")):
    shp = {"coordinates": (n_frames, n_atoms, 3), "velocities": (n_frames, n_atoms, 3), "cell_lengths": (n_frames, 3), "cell_angles": (n_frames, 3)}
    return {f: Ten.sym(f, shp.get(f, (n_frames,))) for f in fields}


def run_write(ctx, given, nodes_present=None, first_write=True, mode="w"):
    """-> dict(log=[("append", node name, array) | ("headers", flags)], raised=None | exception text, nodes=set of node names afterwards)"""
    rel, cls = F.rel_cls("h5")
    fn = F.method(ctx, "h5", "write")
    mod = ctx.py.mod(rel)
    log = []
    nodes = {}

    def mknode(name):
        nd = Obj(tag="node " + name, name=name, _lenient=True)
        nd.append = lambda x_, _n=name: log.append(("append", _n, x_))
        nodes[name] = nd
        return nd
    for nm in (nodes_present or []):
        mknode(nm)

    def get_node(where="/", name=None, **kw):
        if name not in nodes:
            raise Raised("the analysed path raises: NoSuchNodeError(%s)" % name, "self.tables.NoSuchNodeError(%r)" % name)
        return nodes[name]

    def init_headers(**kw):
        log.append(("headers", {k: v for k, v in kw.items() if k.startswith("set_")}))
        for flag, names in HEADER_FLAGS.items():
            if kw.get(flag):
                for nm in names:
                    mknode(nm)
    me = Obj(tag="h5 file", mode=mode, _needs_initialization=first_write, _frame_index=0, tables=Obj(NoSuchNodeError="NoSuchNodeError"), _lenient=True)
    me._get_node = get_node
    me._handle = Obj(tag="pytables handle", root=nodes, get_node=get_node, flush=lambda: None, _lenient=True)     # `name in self._handle.root`: the nodes that exist now
    me._initialize_headers = init_headers
    me.flush = lambda: log.append(("flush",))
    ts = TenSym({}, models={"ensure_type": lambda ev, c: ev.ex(c.args[0]), "in_units_of": lambda ev, c: ev.ex(c.args[0]), "_check_mode": lambda ev, c: None,
                            "warnings.warn": lambda ev, c: None})
    raised = None
    try:
        ts.run_fn(fn, self=me, **given)
    except Raised as e:
        raised = e.exc or str(e)
    return dict(log=log, raised=raised, nodes=set(nodes), me=me)
