"""Fixed-width layout engine: format strings -> column spans; constant reader slices."""
from __future__ import annotations

import ast
import re

from .pyfront import src, const, call_name, dotted

_PCT = re.compile(r"%(?P<flags>[-+ #0]*)(?P<width>\d+|\*)?(?:\.(?P<prec>\d+|\*))?(?P<type>[diouxXeEfFgGcrsa%])")
_BRACE = re.compile(r"\{(?P<name>[^{}:!]*)(?:![rsa])?(?::(?P<spec>[^{}]*))?\}")
_SPEC = re.compile(r"(?:(?P<fill>.)?(?P<align>[<>=^]))?(?P<sign>[-+ ])?#?0?(?P<width>\d+)?[,_]?(?:\.(?P<prec>\d+))?(?P<type>[bcdeEfFgGnosxX%])?$")


def parse_percent(fmt):
    """-> list of ('lit', text) | ('field', width|None, prec|None, type, flags)"""
    out = []
    i = 0
    for m in _PCT.finditer(fmt):
        if m.start() > i:
            out.append(("lit", fmt[i:m.start()]))
        if m.group("type") == "%":
            out.append(("lit", "%"))
        else:
            w = m.group("width")
            p = m.group("prec")
            out.append(("field", int(w) if w and w != "*" else None, int(p) if p and p != "*" else None, m.group("type"), m.group("flags") or ""))
        i = m.end()
    if i < len(fmt):
        out.append(("lit", fmt[i:]))
    return out


def parse_brace(fmt):
    out = []
    i = 0
    for m in _BRACE.finditer(fmt):
        if m.start() > i:
            out.append(("lit", fmt[i:m.start()].replace("{{", "{").replace("}}", "}")))
        spec = m.group("spec") or ""
        sm = _SPEC.match(spec)
        w = int(sm.group("width")) if sm and sm.group("width") else None
        p = int(sm.group("prec")) if sm and sm.group("prec") else None
        out.append(("field", w, p, (sm.group("type") if sm else None) or "s", m.group("name")))
        i = m.end()
    if i < len(fmt):
        out.append(("lit", fmt[i:]))
    return out


def parse_fstring(node):
    """ast.JoinedStr -> items like parse_brace, with the value expression as 5th element."""
    out = []
    for v in node.values:
        if isinstance(v, ast.Constant):
            out.append(("lit", v.value))
        elif isinstance(v, ast.FormattedValue):
            spec = ""
            if v.format_spec is not None:
                spec = "".join(x.value for x in v.format_spec.values if isinstance(x, ast.Constant))
            sm = _SPEC.match(spec)
            w = int(sm.group("width")) if sm and sm.group("width") else None
            p = int(sm.group("prec")) if sm and sm.group("prec") else None
            out.append(("field", w, p, (sm.group("type") if sm else None) or "s", v.value))
    return out


def spans(items, default_widths=None):
    """-> list of dict(start,end,kind,index,prec,type) ; None if a field width is unknown."""
    pos = 0
    res = []
    fi = 0
    for it in items:
        if it[0] == "lit":
            res.append(dict(start=pos, end=pos + len(it[1]), kind="lit", text=it[1]))
            pos += len(it[1])
        else:
            w = it[1]
            if w is None and default_widths is not None:
                w = default_widths.get(fi)
            if w is None:
                return None
            res.append(dict(start=pos, end=pos + w, kind="field", index=fi, prec=it[2], type=it[3], extra=it[4]))
            pos += w
            fi += 1
    return res


def const_slices(fn_node, var):
    """Constant slices  var[a:b]  and single indices  var[k]  read in a function."""
    out = []
    for n in ast.walk(fn_node):
        if isinstance(n, ast.Subscript) and dotted(n.value) == var:
            if isinstance(n.slice, ast.Slice):
                a = const(n.slice.lower) if n.slice.lower is not None else 0
                b = const(n.slice.upper) if n.slice.upper is not None else None
                if isinstance(a, int) and isinstance(b, int):
                    out.append((a, b, n))
            else:
                k = const(n.slice)
                if isinstance(k, int) and k >= 0:
                    out.append((k, k + 1, n))
    return out


def comprehension_slices(fn_node, var):
    """[f(var[j:j+W]) for j in range(A, B, S)]  ->  list of (A+k*S, A+k*S+W, node)"""
    out = []
    for n in ast.walk(fn_node):
        if isinstance(n, (ast.ListComp, ast.GeneratorExp)) and len(n.generators) == 1:
            g = n.generators[0]
            if not (isinstance(g.iter, ast.Call) and call_name(g.iter) == "range" and isinstance(g.target, ast.Name)):
                continue
            args = [const(a) for a in g.iter.args]
            if any(not isinstance(a, int) for a in args) or not args:
                continue
            rng = range(*args)
            j = g.target.id
            for s in ast.walk(n.elt):
                if isinstance(s, ast.Subscript) and dotted(s.value) == var and isinstance(s.slice, ast.Slice):
                    lo, up = s.slice.lower, s.slice.upper
                    if isinstance(lo, ast.Name) and lo.id == j and isinstance(up, ast.BinOp) and isinstance(up.op, ast.Add) \
                            and isinstance(up.left, ast.Name) and up.left.id == j and isinstance(const(up.right), int):
                        w = const(up.right)
                        for v in rng:
                            out.append((v, v + w, s))
    return out
