"""Entry point:  python -m sa.main <ID> [--tier quick|thorough] [--replay path]"""
from __future__ import annotations

import argparse
import json
import os
import sys

from . import core


def main(argv=None):
    ap = argparse.ArgumentParser()
    ap.add_argument("prop")
    ap.add_argument("--tier", default=os.environ.get("VERIF_TIER", "quick"), choices=["quick", "thorough"])
    ap.add_argument("--replay", default=None)
    ap.add_argument("--repo", default=os.environ.get("VERIF_REPO", "/repo"))
    a = ap.parse_args(argv)
    if a.replay:
        # a replay file is the obligation record of a reported violation: show it and re-run the rule
        try:
            with open(a.replay) as f:
                print(json.dumps(json.load(f), indent=1))
        except Exception as e:
            print("cannot read replay file: %s" % e)
    prop = a.prop.upper()
    if prop == "SELFTEST":
        from . import selftest
        return selftest.main(a.tier)
    rc = core.run_property(prop, a.tier, a.repo)
    if rc == 0 and a.tier == "thorough" and not os.environ.get("VERIF_NO_SELFTEST"):
        from . import selftest
        rc2 = selftest.run_for(prop)
        if rc2 != 0:
            print("ANALYSIS-ERROR property=%s seeded-variant self-test failed (the checker, not the repository, is at fault)" % prop)
            return 2
    return rc


if __name__ == "__main__":
    sys.exit(main())
