"""Seeded variants (firing) and twins (silent) for the self-test.

Each entry: prop, name, file, old (unique snippet), new, expect (rule id, or None
for a behaviour-preserving twin), optional where (substring of the report line).
Snippets are anchors into today's source; a variant whose anchor is gone is
SKIPped (reported), never silently counted as passing.
"""

VARIANTS = []


def V(prop, name, file, old, new, expect, where=None, count=1):
    VARIANTS.append(dict(prop=prop, name=name, file=file, old=old, new=new, expect=expect, where=where, count=count))


# ---------------------------------------------------------------- C20
V("C20", "lammps-guard-below-open", "mdtraj/formats/lammpstrj.py",
  """            if not force_overwrite and os.path.exists(filename):
                raise OSError('"%s" already exists' % filename)
            self._fh = open(filename, "w")""",
  """            self._fh = open(filename, "w")
            if not force_overwrite and os.path.exists(filename):
                raise OSError('"%s" already exists' % filename)""",
  "C20-R1", "LAMMPSTrajectoryFile.__init__")
V("C20", "save_xtc-omits-force", "mdtraj/core/trajectory.py",
  """        with XTCTrajectoryFile(
            os.fspath(filename),
            "w",
            force_overwrite=force_overwrite,
        ) as f:""",
  """        with XTCTrajectoryFile(
            os.fspath(filename),
            "w",
        ) as f:""",
  "C20-R2", "Trajectory.save_xtc")
V("C20", "mdcrd-opens-r+b", "mdtraj/formats/mdcrd.py",
  'self._fh = open(filename, "wb")', 'self._fh = open(filename, "r+b")', "C20-R3", "MDCRDTrajectoryFile.__init__")
V("C20", "xyz-seek-reopens-for-append", "mdtraj/formats/xyzfile.py",
  "                self._fh = open(self._filename)", "                self._fh = open(self._filename, 'a+')", "C20-R4")
V("C20", "xtc-unlink-unconditional", "mdtraj/formats/xtc/xtc.pyx",
  "            if force_overwrite and os.path.exists(filename):\n                os.unlink(filename)",
  "            if os.path.exists(filename):\n                os.unlink(filename)", "C20-R1", "XTCTrajectoryFile.__cinit__")
V("C20", "dcd-guard-inverted", "mdtraj/formats/dcd/dcd.pyx",
  "            if not force_overwrite and os.path.exists(filename):", "            if force_overwrite and os.path.exists(filename):",
  "C20-R1", "DCDTrajectoryFile")
V("C20", "netcdfrst-numbered-files-forced", "mdtraj/core/trajectory.py",
  """                with AmberNetCDFRestartFile(
                    fmt % (i + 1),
                    "w",
                    force_overwrite=force_overwrite,
                ) as f:""",
  """                with AmberNetCDFRestartFile(
                    fmt % (i + 1),
                    "w",
                    force_overwrite=True,
                ) as f:""", "C20-R2", "Trajectory.save_netcdfrst")
V("C20", "hdf5-guard-only-when-mode-a", "mdtraj/formats/hdf5.py",
  'if mode == "w" and not force_overwrite and os.path.exists(filename):',
  'if mode == "a" and not force_overwrite and os.path.exists(filename):', "C20-R1", "HDF5TrajectoryFile.__init__")
V("C20", "zipped-guard-skips-gz", "mdtraj/utils/zipped.py",
  """        if os.path.exists(filename) and not force_overwrite:
            raise OSError('"%s" already exists' % filename)
        if extension == ".gz":""",
  """        if extension != ".gz" and os.path.exists(filename) and not force_overwrite:
            raise OSError('"%s" already exists' % filename)
        if extension == ".gz":""", "C20-R1", "open_maybe_zipped")
V("C20", "gsd-guard-dropped", "mdtraj/core/trajectory.py",
  """        if os.path.exists(filename) and not force_overwrite:
            raise OSError('"%s" already exists' % filename)

        self._check_valid_unitcell()
        write_gsd(""",
  """        self._check_valid_unitcell()
        write_gsd(""", "C20-R1", "Trajectory.save_gsd")
V("C20", "twin-operands-swapped", "mdtraj/formats/gro.py",
  "            if os.path.exists(filename) and not force_overwrite:",
  "            if not force_overwrite and os.path.exists(filename):", None)
V("C20", "twin-nested-guard", "mdtraj/formats/mdcrd.py",
  """            if os.path.exists(filename) and not force_overwrite:
                raise OSError('"%s" already exists' % filename)""",
  """            if os.path.exists(filename):
                if not force_overwrite:
                    raise OSError('"%s" already exists' % filename)""", None)
