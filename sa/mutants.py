"""Seeded variants (firing) and twins (silent) for the self-test.

Each entry: prop, name, file, old (unique snippet), new, expect (rule id, or None
for a behaviour-preserving twin), optional where (substring of the report line).
Snippets are anchors into today's source; a variant whose anchor is gone is
SKIPped (reported), never silently counted as passing.
"""

VARIANTS = []


def V(prop, name, file, old, new, expect, where=None, count=1, edits=None):
    VARIANTS.append(dict(prop=prop, name=name, file=file, old=old, new=new, expect=expect, where=where, count=count, edits=edits))


# ---------------------------------------------------------------- C20
V("C20", "lammps-guard-below-open", "mdtraj/formats/lammpstrj.py",
  """            if not force_overwrite and os.path.exists(filename):
                raise OSError('"%s" already exists' % filename)
            self._fh = open(filename, "w")""",
  """            self._fh = open(filename, "w")
            if not force_overwrite and os.path.exists(filename):
                raise OSError('"%s" already exists' % filename)""",
  "C20-R1", "LAMMPSTrajectoryFile.__init__")
V("C20", "save_xtc-omits-force", "mdtraj/core/trajectory.py",
  """        with XTCTrajectoryFile(
            os.fspath(filename),
            "w",
            force_overwrite=force_overwrite,
        ) as f:""",
  """        with XTCTrajectoryFile(
            os.fspath(filename),
            "w",
        ) as f:""",
  "C20-R2", "Trajectory.save_xtc")
V("C20", "mdcrd-opens-r+b", "mdtraj/formats/mdcrd.py",
  'self._fh = open(filename, "wb")', 'self._fh = open(filename, "r+b")', "C20-R3", "MDCRDTrajectoryFile.__init__")
V("C20", "xyz-seek-reopens-for-append", "mdtraj/formats/xyzfile.py",
  '                self._fh = open_maybe_zipped(self._filename, "r")', "                self._fh = open(self._filename, 'a+')", "C20-R4")
V("C20", "xtc-unlink-unconditional", "mdtraj/formats/xtc/xtc.pyx",
  "            if force_overwrite and os.path.exists(filename):\n                os.unlink(filename)",
  "            if os.path.exists(filename):\n                os.unlink(filename)", "C20-R1", "XTCTrajectoryFile.__cinit__")
V("C20", "dcd-guard-inverted", "mdtraj/formats/dcd/dcd.pyx",
  "            if not force_overwrite and os.path.exists(filename):", "            if force_overwrite and os.path.exists(filename):",
  "C20-R1", "DCDTrajectoryFile")
V("C20", "netcdfrst-numbered-files-forced", "mdtraj/core/trajectory.py",
  """                with AmberNetCDFRestartFile(
                    fmt % (i + 1),
                    "w",
                    force_overwrite=force_overwrite,
                ) as f:""",
  """                with AmberNetCDFRestartFile(
                    fmt % (i + 1),
                    "w",
                    force_overwrite=True,
                ) as f:""", "C20-R2", "Trajectory.save_netcdfrst")
V("C20", "hdf5-guard-only-when-mode-a", "mdtraj/formats/hdf5.py",
  'if mode == "w" and not force_overwrite and os.path.exists(filename):',
  'if mode == "a" and not force_overwrite and os.path.exists(filename):', "C20-R1", "HDF5TrajectoryFile.__init__")
V("C20", "zipped-guard-skips-gz", "mdtraj/utils/zipped.py",
  """        if os.path.exists(filename) and not force_overwrite:
            raise OSError('"%s" already exists' % filename)
        if extension == ".gz":""",
  """        if extension != ".gz" and os.path.exists(filename) and not force_overwrite:
            raise OSError('"%s" already exists' % filename)
        if extension == ".gz":""", "C20-R1", "open_maybe_zipped")
V("C20", "gsd-guard-dropped", "mdtraj/core/trajectory.py",
  """        if os.path.exists(filename) and not force_overwrite:
            raise OSError('"%s" already exists' % filename)

        self._check_valid_unitcell()
        write_gsd(""",
  """        self._check_valid_unitcell()
        write_gsd(""", "C20-R1", "Trajectory.save_gsd")
V("C20", "twin-operands-swapped", "mdtraj/formats/gro.py",
  "            if os.path.exists(filename) and not force_overwrite:",
  "            if not force_overwrite and os.path.exists(filename):", None)
V("C20", "twin-nested-guard", "mdtraj/formats/mdcrd.py",
  """            if os.path.exists(filename) and not force_overwrite:
                raise OSError('"%s" already exists' % filename)""",
  """            if os.path.exists(filename):
                if not force_overwrite:
                    raise OSError('"%s" already exists' % filename)""", None)

# ---------------------------------------------------------------- C03
T = "mdtraj/core/trajectory.py"
V("C03", "slice-xyz-copy-removed", T, "            xyz = xyz.copy()\n            time = time.copy()", "            time = time.copy()",
  "C03-R1", "Trajectory.slice")
V("C03", "join-topology-shared", T, """        return self.__class__(
            xyz,
            deepcopy(self._topology),""", """        return self.__class__(
            xyz,
            self._topology,""", "C03-R1", "Trajectory.join")
V("C03", "slice-time-not-indexed", T, "        time = self.time[key]", "        time = self.time", "C03-R2", "Trajectory.slice")
V("C03", "slice-traces-unindexed-again", T, "rmsd_traces = np.atleast_1d(self._rmsd_traces[key])", "rmsd_traces = self._rmsd_traces",
  "C03-R2", "Trajectory.slice")
V("C03", "slice-traces-copy-removed", T, "            if rmsd_traces is not None:\n                rmsd_traces = rmsd_traces.copy()\n", "",
  "C03-R1", "Trajectory.slice")
V("C03", "superpose-bypasses-setter", T, "        self.xyz = self_displace_xyz\n        return self", "        self._xyz = self_displace_xyz\n        return self",
  "C03-R3", "Trajectory.superpose")
V("C03", "atom_slice-reset-removed", T, "            # the cached traces were computed for the full atom set\n            self._rmsd_traces = None\n", "",
  "C03-R3", "Trajectory.atom_slice")
V("C03", "center-drops-traces", T, "            self._rmsd_traces = _rmsd._center_inplace_atom_major(self._xyz)", "            _rmsd._center_inplace_atom_major(self._xyz)",
  "C03-R3", "Trajectory.center_coordinates")
V("C03", "join-angles-over-other-only", T, "            angles = np.concatenate([t.unitcell_angles for t in trajectories])",
  "            angles = np.concatenate([t.unitcell_angles for t in other])", "C03-R4", "Trajectory.join")
V("C03", "join-unitcell-check-dropped", T, """            if not all(self._have_unitcell == o._have_unitcell for o in other):
                raise ValueError("Mixing trajectories with and without unitcell")
""", "", "C03-R4", "Trajectory.join")
V("C03", "atom_slice-time-shared", T, "        time = self._time.copy()\n", "        time = self._time\n", "C03-R1", "Trajectory.atom_slice")
V("C03", "atom_slice-xyz-asarray", T, '        xyz = np.array(self.xyz[:, atom_indices], order="C")', '        xyz = np.asarray(self.xyz[:, atom_indices], order="C")',
  "C03-R1", "Trajectory.atom_slice")
V("C03", "stack-xyz-shared-when-other-empty", T, "        xyz = np.hstack((self.xyz, other.xyz))", "        xyz = self.xyz if other.n_atoms == 0 else np.hstack((self.xyz, other.xyz))",
  "C03-R1", "Trajectory.stack")
V("C03", "rg-centres-input-in-place", "mdtraj/geometry/rg.py",
  "    centered = (xyz.transpose((1, 0, 2)) - mu).transpose((1, 0, 2))", "    xyz -= mu[:, None, :]\n    centered = xyz",
  "C03-R5", "compute_rg")
V("C03", "save_dcd-converts-in-place", T, """            f.write(
                xyz=in_units_of(self.xyz, Trajectory._distance_unit, f.distance_unit),
                cell_lengths=in_units_of(
                    self.unitcell_lengths,
                    Trajectory._distance_unit,
                    f.distance_unit,
                ),
                cell_angles=self.unitcell_angles,
            )

    def save_dtr(""", """            f.write(
                xyz=in_units_of(self.xyz, Trajectory._distance_unit, f.distance_unit, inplace=True),
                cell_lengths=in_units_of(
                    self.unitcell_lengths,
                    Trajectory._distance_unit,
                    f.distance_unit,
                ),
                cell_angles=self.unitcell_angles,
            )

    def save_dtr(""", "C03-R5", "Trajectory.save_dcd")
V("C03", "twin-np.array-copy", T, "            xyz = xyz.copy()\n            time = time.copy()", "            xyz = np.array(xyz, copy=True)\n            time = time.copy()", None)
V("C03", "twin-reorder-assignments", T, "        xyz = self.xyz[key]\n        time = self.time[key]", "        time = self.time[key]\n        xyz = self.xyz[key]", None)
V("C03", "twin-atom_slice-reset-via-setter", T, "            self._xyz = xyz\n            # the cached traces were computed for the full atom set\n            self._rmsd_traces = None\n",
  "            self.xyz = xyz\n", None)

# ---------------------------------------------------------------- C04
TP = "mdtraj/core/topology.py"
V("C04", "join-omits-segment_id", TP, "                r = out.add_residue(residue.name, c, out_resSeq, residue.segment_id)",
  "                r = out.add_residue(residue.name, c, out_resSeq)", "C04-R1", "Topology.join")
V("C04", "join-bonds-unmapped", TP, """            out.add_bond(
                atom_mapping[a1],
                atom_mapping[a2],
                type=bond.type,
                order=bond.order,
            )

        return out

    def to_fasta""", """            out.add_bond(
                a1,
                a2,
                type=bond.type,
                order=bond.order,
            )

        return out

    def to_fasta""", "C04-R2", "Topology.join")
V("C04", "copy-bonds-unmapped-again", TP, "out.add_bond(atom_mapping[a1], atom_mapping[a2], type=bond.type, order=bond.order)",
  "out.add_bond(a1, a2, type=bond.type, order=bond.order)", "C04-R2", "Topology.copy")
V("C04", "copy-drops-bond-order", TP, "out.add_bond(atom_mapping[a1], atom_mapping[a2], type=bond.type, order=bond.order)",
  "out.add_bond(atom_mapping[a1], atom_mapping[a2], type=bond.type)", "C04-R1", "Topology.copy")
V("C04", "copy-chain-id-dropped", TP, "            c = out.add_chain(chain.chain_id)\n            for residue in chain.residues:\n                r = out.add_residue(residue.name, c, residue.resSeq, residue.segment_id)\n                for atom in residue.atoms:\n                    atom_mapping",
  "            c = out.add_chain()\n            for residue in chain.residues:\n                r = out.add_residue(residue.name, c, residue.resSeq, residue.segment_id)\n                for atom in residue.atoms:\n                    atom_mapping", "C04-R1", "Topology.copy")
V("C04", "subset-serial-from-index", TP, "                        serial = atom.serial\n", "                        serial = atom.index\n", "C04-R1", "_topology_from_subset")
V("C04", "subset-resseq-or-default", TP, """            resSeq = getattr(residue, "resSeq", None)
            if resSeq is None:
                resSeq = residue.index""", """            resSeq = getattr(residue, "resSeq", None) or residue.index""", "C04-R6", "_topology_from_subset")
V("C04", "atom-hash-adds-serial", TP, '        """A quick comparison."""\n        return self.index', '        """A quick comparison."""\n        return hash((self.index, self.serial))',
  "C04-R3")
V("C04", "residue-hash-resSeq-again", TP, "        return hash((self.name, self.index))", "        return hash((self.name, self.index, self.resSeq))", "C04-R3")
V("C04", "delete-atom-forgets-counter", TP, "        self._atoms.remove(a)\n        self._numAtoms -= 1", "        self._atoms.remove(a)", "C04-R5", "Topology.delete_atom_by_index")
V("C04", "insert-atom-renumber-off-by-one", TP, "            for i in range(index, len(self._atoms)):\n                self._atoms[i].index += 1",
  "            for i in range(index + 1, len(self._atoms)):\n                self._atoms[i].index += 1", "C04-R5", "Topology.insert_atom")
V("C04", "hdf5-reader-wrong-key", "mdtraj/formats/hdf5.py", 'segment_id = residue_dict["segmentID"]', 'segment_id = residue_dict["segment_id"]', "C04-R1", "HDF5TrajectoryFile.topology")
V("C04", "hdf5-writer-drops-resSeq", "mdtraj/formats/hdf5.py", '                        "resSeq": int(residue.resSeq),\n', "", "C04-R1", "HDF5TrajectoryFile.topology")
V("C04", "dataframe-serial-column-from-index", TP, "                atom.serial,\n                atom.name,", "                atom.index,\n                atom.name,", "C04-R1", "Topology.to_dataframe")
V("C04", "pdb-footer-zero-based-again", "mdtraj/formats/pdb/pdbfile.py", "            nextAtomIndex = 1\n", "            nextAtomIndex = 0\n", "C04-R7")
V("C04", "pdb-footer-ignores-serial", "mdtraj/formats/pdb/pdbfile.py", """                    if atom.serial is not None and len(self._last_topology._chains) < 2:
                        atomIndex[atom] = atom.serial
                    else:
                        atomIndex[atom] = nextAtomIndex""", """                    atomIndex[atom] = nextAtomIndex""", "C04-R7")
V("C04", "pdb-reader-serial-dropped", "mdtraj/formats/pdb/pdbfile.py", "                            r,\n                            serial=atom.serial_number,\n", "                            r,\n", "C04-R1", "_read_models")
V("C04", "twin-keyword-args", TP, "                r = out.add_residue(residue.name, c, out_resSeq, residue.segment_id)",
  "                r = out.add_residue(name=residue.name, chain=c, resSeq=out_resSeq, segment_id=residue.segment_id)", None)
V("C04", "twin-local-alias", TP, "            c = out.add_chain(chain.chain_id)\n            for residue in chain.residues:\n                if keep_resSeq:",
  "            cid = chain.chain_id\n            c = out.add_chain(cid)\n            for residue in chain.residues:\n                if keep_resSeq:", None)

# ---------------------------------------------------------------- C19
V("C19", "xtc-atomcount-check-after-write", "mdtraj/formats/xtc/xtc.pyx",
  """        prec = 1000.0 * np.ones(n_frames, dtype=np.float32)
        self._write(xyz, time, step, box, prec)""",
  """        prec = 1000.0 * np.ones(n_frames, dtype=np.float32)
        self._write(xyz, time, step, box, prec)
        if self.with_unitcell and (box is None):
            raise ValueError("unitcell information missing")""", "C19-R1", "XTCTrajectoryFile.write")
V("C19", "dcd-drops-unitcell-check", "mdtraj/formats/dcd/dcd.pyx",
  """            if cell_lengths is None and self.with_unitcell:
                raise ValueError("The file that you're saving to expects each frame "
                    "to contain unitcell information, but you did not supply it.")
            if cell_lengths is not None and not self.with_unitcell:
                raise ValueError("The file that you're saving to was created without "
                    "unitcell information.")
""", "", "C19-R2", "DCDTrajectoryFile.write")
V("C19", "xtc-drops-atomcount-check", "mdtraj/formats/xtc/xtc.pyx",
  """            if not self.n_atoms == xyz.shape[1]:
                raise ValueError("This file has %d atoms, but you're now "
                    "trying to write %d atoms" % (self.n_atoms, xyz.shape[1]))
""", "", "C19-R2", "XTCTrajectoryFile.write")
V("C19", "xtc-counter-before-loop", "mdtraj/formats/xtc/xtc.pyx",
  """        assert n_frames == len(box) == len(step) == len(time) == len(prec)
        for i in range(n_frames):""", """        assert n_frames == len(box) == len(step) == len(time) == len(prec)
        self.frame_counter += n_frames
        for i in range(n_frames):""", "C19-R4", "XTCTrajectoryFile._write")
V("C19", "pdb-header-guard-removed", "mdtraj/formats/pdb/pdbfile.py",
  """        if not self._header_written:
            self._write_header(unitcell_lengths, unitcell_angles)
            self._header_written = True""", """        self._write_header(unitcell_lengths, unitcell_angles)
        self._header_written = True""", "C19-R5", "PDBTrajectoryFile.write")
V("C19", "nc-init-flag-never-cleared", "mdtraj/formats/netcdf.py",
  """                set_cell=(cell_lengths is not None and cell_angles is not None),
            )
            self._needs_initialization = False""", """                set_cell=(cell_lengths is not None and cell_angles is not None),
            )""", "C19-R5", "NetCDFTrajectoryFile.write")
V("C19", "hdf5-flush-removed", "mdtraj/formats/hdf5.py", "        self._frame_index += n_frames\n        self.flush()", "        self._frame_index += n_frames",
  "C19-R6", "HDF5TrajectoryFile.write")
V("C19", "hdf5-flush-only-every-10", "mdtraj/formats/hdf5.py", "        self._frame_index += n_frames\n        self.flush()",
  "        self._frame_index += n_frames\n        if self._frame_index % 10 == 0:\n            self.flush()", "C19-R6", "HDF5TrajectoryFile.write")
V("C19", "nc-flush-noop", "mdtraj/formats/netcdf.py", "        self._validate_open()\n        self._handle.sync()", "        self._validate_open()", "C19-R6", "NetCDFTrajectoryFile.flush")
V("C19", "reporter-no-flush", "mdtraj/reporters/basereporter.py", "            self._traj_file.flush()", "            pass", "C19-R6", "_BaseReporter.report")
V("C19", "hdf5-append-before-check-again", "mdtraj/formats/hdf5.py",
  "                    to_append.append((self._get_node(where=\"/\", name=name), contents))", "                    self._get_node(where=\"/\", name=name).append(contents)",
  "C19-R1", "HDF5TrajectoryFile.write")
V("C19", "nc-missing-check-after-deposit", "mdtraj/formats/netcdf.py",
  """        # update the frame index pointers. this should be done at the""",
  """        if time is None and "time" in self._handle.variables:
            raise ValueError("time missing")
        # update the frame index pointers. this should be done at the""", "C19-R1", "NetCDFTrajectoryFile.write")
V("C19", "mdcrd-atomcount-check-removed", "mdtraj/formats/mdcrd.py",
  """        elif self._n_atoms != xyz.shape[1]:
            raise ValueError(
                "This mdcrd file has %d atoms, but you're now trying to write %d atoms" % (self._n_atoms, xyz.shape[1]),
            )
""", "", "C19-R2", "MDCRDTrajectoryFile.write")
V("C19", "twin-merged-checks", "mdtraj/formats/dcd/dcd.pyx",
  """            if cell_lengths is None and self.with_unitcell:
                raise ValueError("The file that you're saving to expects each frame "
                    "to contain unitcell information, but you did not supply it.")
            if cell_lengths is not None and not self.with_unitcell:
                raise ValueError("The file that you're saving to was created without "
                    "unitcell information.")
""", """            if (cell_lengths is None) != (not self.with_unitcell):
                raise ValueError("unit cell information must be given in all writes or in none")
""", None)

# ---------------------------------------------------------------- C18
V("C18", "nc-whence1-assigns-offset", "mdtraj/formats/netcdf.py", "            self._frame_index = self._frame_index + offset", "            self._frame_index = offset",
  "C18-R1", "NetCDFTrajectoryFile.seek")
V("C18", "h5-whence2-forgets-offset", "mdtraj/formats/hdf5.py", "            self._frame_index = len(self._handle.root.coordinates) + offset",
  "            self._frame_index = len(self._handle.root.coordinates)", "C18-R1", "HDF5TrajectoryFile.seek")
V("C18", "dcd-relative-seek-treated-absolute", "mdtraj/formats/dcd/dcd.pyx", "        elif whence == 1 and offset >= 0:\n            advance = offset",
  "        elif whence == 1 and offset >= 0:\n            advance = offset - current_pos", "C18-R1", "DCDTrajectoryFile.seek")
V("C18", "xtc-invalid-args-accepted", "mdtraj/formats/xtc/xtc.pyx", "        else:\n            raise IOError('Invalid argument')\n\n        if absolute < 0 or absolute >= len(self.offsets):",
  "        else:\n            absolute = 0\n\n        if absolute < 0 or absolute >= len(self.offsets):", "C18-R1", "XTCTrajectoryFile.seek")
V("C18", "h5-position-plus-n", "mdtraj/formats/hdf5.py", "        self._frame_index += frame_slice.stop - frame_slice.start", "        self._frame_index += n_frames",
  "C18-R2", "HDF5TrajectoryFile.read")
V("C18", "nc-unbounded-again", "mdtraj/formats/netcdf.py", "        self._frame_index = frame_stop\n", "        self._frame_index = self._frame_index + min(n_frames, total_n_frames)\n",
  "C18-R2", "NetCDFTrajectoryFile.read")
V("C18", "mdcrd-increment-before-eof-check", "mdtraj/formats/mdcrd.py", '        "Read a single frame"\n        i = 0', '        "Read a single frame"\n        self._frame_index += 1\n        i = 0',
  "C18-R3", "MDCRDTrajectoryFile.read")
V("C18", "xyz-increment-before-parse", "mdtraj/formats/xyzfile.py", "        self._fh.readline()  # Comment line.\n        self._line_counter += 2",
  "        self._fh.readline()  # Comment line.\n        self._line_counter += 2\n        self._frame_index += 1", "C18-R3", "XYZTrajectoryFile.read")
V("C18", "xtc-counter-counts-failed-read", "mdtraj/formats/xtc/xtc.pyx", "            self.frame_counter += len(xyz)", "            self.frame_counter += n_read_frames",
  "C18-R3", "XTCTrajectoryFile._read")
V("C18", "lammps-reopen-forgets-frame-index", "mdtraj/formats/lammpstrj.py", "                self._fh = open(self._filename)\n                self._frame_index = 0\n",
  "                self._fh = open(self._filename)\n", "C18-R4", "LAMMPSTrajectoryFile.seek")
V("C18", "xyz-reopen-plain-open-again", "mdtraj/formats/xyzfile.py", '                self._fh = open_maybe_zipped(self._filename, "r")', "                self._fh = open(self._filename)",
  "C18-R4", "XYZTrajectoryFile.seek")
V("C18", "mdcrd-reopen-skips-no-header", "mdtraj/formats/mdcrd.py", '                self._fh = open(self._filename, "rb")\n                self._fh.readline()  # read comment\n',
  '                self._fh = open(self._filename, "rb")\n', "C18-R4", "MDCRDTrajectoryFile.seek")
V("C18", "xyz-frame-index-class-level", "mdtraj/formats/xyzfile.py", "        self._frame_index = 0\n        self._n_frames = None",
  "        self._n_frames = None", "C18-R5", "XYZTrajectoryFile")
V("C18", "xtc-len-scan-without-restore", "mdtraj/formats/xtc/xtc.pyx", "            finally:\n                xdrlib.xdr_seek(self.fh, old_pos, SEEK_SET)\n", "            finally:\n                pass\n",
  "C18-R6", "XTCTrajectoryFile._calc_len_and_offsets")
V("C18", "twin-plus-equals-rewritten", "mdtraj/formats/netcdf.py", "            self._frame_index = self._frame_index + offset", "            self._frame_index += offset", None)
V("C18", "twin-commuted", "mdtraj/formats/hdf5.py", "            self._frame_index = self._frame_index + offset", "            self._frame_index = offset + self._frame_index", None)

# ---------------------------------------------------------------- C02
V("C02", "load_dcd-drops-stride", "mdtraj/formats/dcd/dcd.pyx", "        return f.read_as_traj(topology, n_frames=n_frames, stride=stride, atom_indices=atom_indices)",
  "        return f.read_as_traj(topology, n_frames=n_frames, atom_indices=atom_indices)", "C02-R1", "load_dcd")
V("C02", "load_xyz-frame-not-sought", "mdtraj/formats/xyzfile.py", "        if frame is not None:\n            f.seek(frame)\n            n_frames = 1",
  "        if frame is not None:\n            n_frames = 1", "C02-R1", "load_xyz")
V("C02", "xtc-read_as_traj-drops-atom_indices", "mdtraj/formats/xtc/xtc.pyx", "        xyz, time, step, box = self.read(n_frames=n_frames, stride=stride, atom_indices=atom_indices)",
  "        xyz, time, step, box = self.read(n_frames=n_frames, stride=stride)", "C02-R1", "XTCTrajectoryFile.read_as_traj")
V("C02", "gro-read_as_traj-drops-n_frames-again", "mdtraj/formats/gro.py", "            n_frames=n_frames,\n            stride=stride,\n            atom_indices=atom_indices,\n        )\n        if len(coordinates) == 0:",
  "            stride=stride,\n            atom_indices=atom_indices,\n        )\n        if len(coordinates) == 0:", "C02-R1", "GroTrajectoryFile.read_as_traj")
V("C02", "nc-window-not-scaled", "mdtraj/formats/netcdf.py", "        elif stride is not None:\n            # 'n_frames' frames should be read in total\n            n_frames *= stride\n", "", "C02-R8", "NetCDFTrajectoryFile.read")
V("C02", "h5-window-not-scaled-again", "mdtraj/formats/hdf5.py", "            # n_frames counts the frames returned, so stride times as many are consumed\n            n_frames *= stride\n\n        total_n_frames = len(self._handle.root.coordinates)",
  "\n        total_n_frames = len(self._handle.root.coordinates)", "C02-R8", "HDF5TrajectoryFile.read")
V("C02", "mdcrd-skip-loop-off-by-one", "mdtraj/formats/mdcrd.py", "            for j in range(stride - 1):\n                # throw away these frames\n                try:\n                    self._read()",
  "            for j in range(stride):\n                # throw away these frames\n                try:\n                    self._read()", "C02-R8", "MDCRDTrajectoryFile.read")
V("C02", "h5-cursor-advances-by-returned", "mdtraj/formats/hdf5.py", "        self._frame_index += frame_slice.stop - frame_slice.start", "        self._frame_index += len(frames.coordinates)",
  "C02-R3", "HDF5TrajectoryFile.read")
V("C02", "xyz-time-loses-initial", "mdtraj/formats/xyzfile.py", "        time = (stride * np.arange(len(xyz))) + initial", "        time = stride * np.arange(len(xyz))", "C02-R4", "XYZTrajectoryFile.read_as_traj")
V("C02", "dcd-time-ignores-stride", "mdtraj/formats/dcd/dcd.pyx", "        time = (stride*np.arange(len(xyz))) + initial", "        time = np.arange(len(xyz)) + initial", "C02-R4", "DCDTrajectoryFile.read_as_traj")
V("C02", "lammps-initial-after-read", "mdtraj/formats/lammpstrj.py", """        initial = int(self._frame_index)
        xyz, cell_lengths, cell_angles = self.read(
            n_frames=n_frames,
            stride=stride,
            atom_indices=atom_indices,
        )""", """        xyz, cell_lengths, cell_angles = self.read(
            n_frames=n_frames,
            stride=stride,
            atom_indices=atom_indices,
        )
        initial = int(self._frame_index)""", "C02-R4", "LAMMPSTrajectoryFile.read_as_traj")
V("C02", "pdb-time-times-frame-again", "mdtraj/formats/pdb/pdbfile.py", "        time += frame", "        time *= frame", "C02-R4", "load_pdb")
V("C02", "mdcrd-topology-not-subset", "mdtraj/formats/mdcrd.py", "        if atom_indices is not None:\n            topology = topology.subset(atom_indices)\n\n        initial = int(self._frame_index)\n        xyz, cell_lengths",
  "        initial = int(self._frame_index)\n        xyz, cell_lengths", "C02-R5", "MDCRDTrajectoryFile.read_as_traj")
V("C02", "arc-returns-full-topology-again", "mdtraj/formats/arc.py", "            xyz=xyz,\n            topology=topology,\n            time=time,", "            xyz=xyz,\n            topology=self.topology,\n            time=time,",
  "C02-R5", "ArcTrajectoryFile.read_as_traj")
V("C02", "iterload-no-seek-skip", "mdtraj/core/trajectory.py", "            if skip > 0:\n                f.seek(skip)\n", "", "C02-R6", "iterload")
V("C02", "iterload-chunk0-drops-stride", "mdtraj/core/trajectory.py", "        yield load(filename, atom_indices=atom_indices, **kwargs)[skip::stride]", "        yield load(filename, atom_indices=atom_indices, **kwargs)[skip:]",
  "C02-R6", "iterload")
V("C02", "load-list-drops-kwargs", "mdtraj/core/trajectory.py", "        t = loader(f, **kwargs)\n\n        t.topology = None", "        t = loader(f)\n\n        t.topology = None", "C02-R6", "load")
# read_as_traj by evaluation (C02-R1c / R4 / R5): forms the textual rules could not tell apart
V("C02", "twin-time-arange-start-stop-step", "mdtraj/formats/xyzfile.py", "        time = (stride * np.arange(len(xyz))) + initial", "        time = np.arange(initial, initial + stride * len(xyz), stride)", None)
V("C02", "twin-subset-guard-inverted-form", "mdtraj/formats/xyzfile.py", "        if atom_indices is not None:\n            topology = topology.subset(atom_indices)\n\n        initial = int(self._frame_index)",
  "        if atom_indices is None:\n            pass\n        else:\n            topology = topology.subset(atom_indices)\n\n        initial = int(self._frame_index)", None)
V("C02", "twin-subset-into-new-name", "mdtraj/formats/netcdf.py", "        if atom_indices is not None:\n            topology = topology.subset(atom_indices)\n\n        xyz, time, cell_lengths, cell_angles = self.read(",
  "        top = topology if atom_indices is None else topology.subset(atom_indices)\n        topology = top\n\n        xyz, time, cell_lengths, cell_angles = self.read(", None)
V("C02", "twin-read-positional", "mdtraj/formats/lh5.py", "        xyz = self.read(n_frames=n_frames, stride=stride, atom_indices=atom_indices)", "        xyz = self.read(n_frames, stride, atom_indices)", None)
V("C02", "lh5-read-positional-swapped", "mdtraj/formats/lh5.py", "        xyz = self.read(n_frames=n_frames, stride=stride, atom_indices=atom_indices)", "        xyz = self.read(stride, n_frames, atom_indices)", "C02-R1", "LH5TrajectoryFile.read_as_traj")
V("C02", "lh5-time-from-cursor-after-read", "mdtraj/formats/lh5.py", "        time = (stride * np.arange(len(xyz))) + initial", "        time = (stride * np.arange(len(xyz))) + int(self._frame_index)", "C02-R4", "LH5TrajectoryFile.read_as_traj")
V("C02", "arc-time-off-by-one", "mdtraj/formats/arc.py", "        time = (stride * np.arange(len(xyz))) + initial", "        time = (stride * np.arange(1, len(xyz) + 1)) + initial", "C02-R4", "ArcTrajectoryFile.read_as_traj")
V("C02", "xyz-empty-exit-full-topology", "mdtraj/formats/xyzfile.py", "        if atom_indices is not None:\n            topology = topology.subset(atom_indices)\n\n        initial = int(self._frame_index)\n        xyz = self.read(n_frames=n_frames, stride=stride, atom_indices=atom_indices)\n        if len(xyz) == 0:\n            return Trajectory(xyz=np.zeros((0, topology.n_atoms, 3)), topology=topology)\n",
  "        initial = int(self._frame_index)\n        xyz = self.read(n_frames=n_frames, stride=stride, atom_indices=atom_indices)\n        if len(xyz) == 0:\n            return Trajectory(xyz=np.zeros((0, topology.n_atoms, 3)), topology=topology)\n        if atom_indices is not None:\n            topology = topology.subset(atom_indices)\n", "C02-R5", "XYZTrajectoryFile.read_as_traj")
V("C02", "gro-time-record-dropped", "mdtraj/formats/gro.py", "        traj = Trajectory(xyz=coordinates, topology=topology, time=time)", "        traj = Trajectory(xyz=coordinates, topology=topology)", "C02-R4", "GroTrajectoryFile.read_as_traj")
V("C02", "h5-subset-of-subset-guard-truthy", "mdtraj/formats/hdf5.py", "        topology = self.topology\n        if atom_indices is not None:\n            topology = topology.subset(atom_indices)\n\n        data = self.read(",
  "        topology = self.topology\n        if atom_indices is not None and stride is None:\n            topology = topology.subset(atom_indices)\n\n        data = self.read(", "C02-R5", "HDF5TrajectoryFile.read_as_traj")
# C02-R8: text readers evaluated on a model file
V("C02", "twin-xyz-skip-before-keep", "mdtraj/formats/xyzfile.py", None, None, None, edits=[("            all_coords.append(frame_coords)\n\n            for j in range(stride - 1):", "            for j in range(stride - 1):"), ("                except _EOF:\n                    break\n\n        all_coords = np.array(all_coords)", "                except _EOF:\n                    break\n            all_coords.append(frame_coords)\n\n        all_coords = np.array(all_coords)")])
V("C02", "xyz-selection-sorted", "mdtraj/formats/xyzfile.py", "                    frame_coords = frame_coords[atom_indices, :]", "                    frame_coords = frame_coords[sorted(atom_indices), :]", "C02-R8", "XYZTrajectoryFile.read")
V("C02", "twin-xyz-read-while-loop", "mdtraj/formats/xyzfile.py", "            for j in range(stride - 1):\n                # throw away these frames\n                try:\n                    self._read()\n                except _EOF:\n                    break",
  "            skipped = 0\n            while skipped < stride - 1:\n                try:\n                    self._read()\n                except _EOF:\n                    break\n                skipped += 1", None)
V("C02", "gro-time-not-strided", "mdtraj/formats/gro.py", "            time = time[::stride]", "            time = time[: len(coordinates[::stride])]", "C02-R8", "GroTrajectoryFile.read")
# C01-R9: end to end
_TRJ9 = "mdtraj/core/trajectory.py"
V("C01", "save_xyz-conversion-inverted", _TRJ9, "                xyz=in_units_of(self.xyz, Trajectory._distance_unit, f.distance_unit),\n                types=[a.name for a in self.top.atoms],", "                xyz=in_units_of(self.xyz, f.distance_unit, Trajectory._distance_unit),\n                types=[a.name for a in self.top.atoms],", "C01-R9")
V("C01", "xyz-reader-conversion-dropped", "mdtraj/formats/xyzfile.py", "        in_units_of(xyz, self.distance_unit, Trajectory._distance_unit, inplace=True)\n\n        if stride is None:\n            stride = 1\n        time = (stride * np.arange(len(xyz))) + initial\n        return Trajectory(xyz=xyz, topology=topology, time=time)", "        if stride is None:\n            stride = 1\n        time = (stride * np.arange(len(xyz))) + initial\n        return Trajectory(xyz=xyz, topology=topology, time=time)", "C01-R9")
V("C01", "xyz-reader-conversion-not-inplace", "mdtraj/formats/xyzfile.py", "        in_units_of(xyz, self.distance_unit, Trajectory._distance_unit, inplace=True)\n\n        if stride is None:\n            stride = 1\n        time = (stride * np.arange(len(xyz))) + initial\n        return Trajectory(xyz=xyz, topology=topology, time=time)", "        in_units_of(xyz, self.distance_unit, Trajectory._distance_unit)\n\n        if stride is None:\n            stride = 1\n        time = (stride * np.arange(len(xyz))) + initial\n        return Trajectory(xyz=xyz, topology=topology, time=time)", "C01-R9")
V("C01", "twin-xyz-reader-conversion-rebound", "mdtraj/formats/xyzfile.py", "        in_units_of(xyz, self.distance_unit, Trajectory._distance_unit, inplace=True)\n\n        if stride is None:\n            stride = 1\n        time = (stride * np.arange(len(xyz))) + initial\n        return Trajectory(xyz=xyz, topology=topology, time=time)", "        xyz = in_units_of(xyz, self.distance_unit, Trajectory._distance_unit)\n\n        if stride is None:\n            stride = 1\n        time = (stride * np.arange(len(xyz))) + initial\n        return Trajectory(xyz=xyz, topology=topology, time=time)", None)
V("C01", "save_mdcrd-cell-not-converted", _TRJ9, "                cell_lengths=in_units_of(\n                    self.unitcell_lengths,\n                    Trajectory._distance_unit,\n                    f.distance_unit,\n                ),\n            )\n\n    def save_netcdf", "                cell_lengths=self.unitcell_lengths,\n            )\n\n    def save_netcdf", "C01-R9")
# array stores / iterload / volume (rules added with Addendum 3)
_TRJ10 = "mdtraj/core/trajectory.py"
V("C19", "nc-frame-counter-not-advanced", "mdtraj/formats/netcdf.py", "        self._frame_index += n_frames\n\n    def flush(self):", "        self._frame_index += 0\n\n    def flush(self):", "C19-R8", "NetCDFTrajectoryFile.write")
V("C19", "h5-frame-counter-by-one", "mdtraj/formats/hdf5.py", "        self._frame_index += n_frames\n        self.flush()", "        self._frame_index += 1\n        self.flush()", "C19-R8", "HDF5TrajectoryFile.write")
V("C19", "twin-nc-counter-from-slice", "mdtraj/formats/netcdf.py", "        self._frame_index += n_frames\n\n    def flush(self):", "        self._frame_index = frame_slice.stop\n\n    def flush(self):", None)
V("C02", "iterload-seek-scaled-by-stride", _TRJ10, "            if skip > 0:\n                f.seek(skip)", "            if skip > 0:\n                f.seek(skip * stride)", "C02-R6", "iterload")
V("C02", "iterload-pdb-stride-before-skip", _TRJ10, "        t = load(filename, atom_indices=atom_indices)[skip::stride]", "        t = load(filename, atom_indices=atom_indices)[::stride][skip:]", "C02-R6", "iterload")
V("C02", "twin-iterload-seek-always", _TRJ10, "            if skip > 0:\n                f.seek(skip)", "            f.seek(skip)", None)
V("C17", "twin-volume-closed-form", _TRJ10, "            return np.array(list(map(np.linalg.det, self.unitcell_vectors)), dtype=np.float64)", "            cosines = np.cos(np.deg2rad(self.unitcell_angles))\n            gram = 1.0 - np.sum(cosines**2, axis=1) + 2.0 * np.prod(cosines, axis=1)\n            return np.asarray(np.prod(self.unitcell_lengths, axis=1) * np.sqrt(gram), dtype=np.float64)", None)
V("C17", "volume-closed-form-wrong-sign", _TRJ10, "            return np.array(list(map(np.linalg.det, self.unitcell_vectors)), dtype=np.float64)", "            cosines = np.cos(np.deg2rad(self.unitcell_angles))\n            gram = 1.0 - np.sum(cosines**2, axis=1) - 2.0 * np.prod(cosines, axis=1)\n            return np.asarray(np.prod(self.unitcell_lengths, axis=1) * np.sqrt(gram), dtype=np.float64)", "C17-R5", "Trajectory.unitcell_volumes.getter")
V("C01", "save_netcdf-cell-not-converted", _TRJ10, "                cell_lengths=in_units_of(\n                    self.unitcell_lengths,\n                    Trajectory._distance_unit,\n                    f.distance_unit,\n                ),\n                cell_angles=self.unitcell_angles,\n            )\n\n    def save_netcdfrst", "                cell_lengths=self.unitcell_lengths,\n                cell_angles=self.unitcell_angles,\n            )\n\n    def save_netcdfrst", "C01-R9")
V("C01", "save_pdb-second-frame-first-coordinates", _TRJ10, "                if self._have_unitcell:\n                    f.write(\n                        in_units_of(\n                            self._xyz[i],", "                if self._have_unitcell:\n                    f.write(\n                        in_units_of(\n                            self._xyz[0],", "C01-R9")
# Cython classes on model files (xdrmodel / dcdmodel)
V("C19", "xtc-write-first-box-for-all", "mdtraj/formats/xtc/xtc.pyx", "time[i], <xdrlib.matrix>&box[i, 0, 0], <xdrlib.rvec*>&xyz[i, 0, 0], prec[i])", "time[i], <xdrlib.matrix>&box[0, 0, 0], <xdrlib.rvec*>&xyz[i, 0, 0], prec[i])", "C19-R8", "XTCTrajectoryFile.write")
V("C19", "xtc-write-counter-by-one", "mdtraj/formats/xtc/xtc.pyx", "        self.frame_counter += n_frames\n        return status", "        self.frame_counter += 1\n        return status", "C19-R8", "XTCTrajectoryFile.write")
V("C19", "trr-write-first-time-for-all", "mdtraj/formats/xtc/trr.pyx", "            status = trrlib.write_trr(self.fh, n_atoms, step[i], time[i],", "            status = trrlib.write_trr(self.fh, n_atoms, step[i], time[0],", "C19-R8", "TRRTrajectoryFile.write")
V("C19", "dcd-write-first-cell-length", "mdtraj/formats/dcd/dcd.pyx", "                self.timestep.A = cell_lengths[i, 0]", "                self.timestep.A = cell_lengths[0, 0]", "C19-R8", "DCDTrajectoryFile.write")
V("C02", "dcd-read-skips-stride-frames", "mdtraj/formats/dcd/dcd.pyx", "            for j in range(_stride - 1):", "            for j in range(_stride):", "C02-R8", "DCDTrajectoryFile.read")
V("C02", "twin-dcd-read-skip-count-local", "mdtraj/formats/dcd/dcd.pyx", "            for j in range(_stride - 1):", "            n_skip = _stride - 1\n            for j in range(n_skip):", None)
V("C02", "twin-time-commuted", "mdtraj/formats/xyzfile.py", "        time = (stride * np.arange(len(xyz))) + initial", "        time = initial + (np.arange(len(xyz)) * stride)", None)
V("C02", "twin-positional-args", "mdtraj/formats/netcdf.py", """        xyz, time, cell_lengths, cell_angles = self.read(
            n_frames=n_frames,
            stride=stride,
            atom_indices=atom_indices,
        )""", """        xyz, time, cell_lengths, cell_angles = self.read(n_frames, stride, atom_indices)""", None)

# NetCDF layout / unit-tagged input / CONECT numbering / keyword attributes / path classes / ARC reader, all by evaluation
V("C01", "nc-coordinates-double", "mdtraj/formats/netcdf.py", """                "coordinates",
                "f",""", """                "coordinates",
                "d",""", "C01-R3", "NetCDFTrajectoryFile._initialize_headers")
V("C01", "nc-time-per-atom-dimension", "mdtraj/formats/netcdf.py", 'frame_times = self._handle.createVariable("time", "f", ("frame",))', 'frame_times = self._handle.createVariable("time", "f", ("atom",))', "C01-R3", "NetCDFTrajectoryFile._initialize_headers")
V("C01", "ncrst-cell-lengths-float", "mdtraj/formats/amberrst.py", 'v = ncfile.createVariable("cell_lengths", "d", ("cell_spatial",))', 'v = ncfile.createVariable("cell_lengths", "f", ("cell_spatial",))', "C01-R3", "AmberNetCDFRestartFile._initialize_headers")
V("C01", "ncrst-angles-in-radian-label", "mdtraj/formats/amberrst.py", 'v.units = "degree"', 'v.units = "radian"', "C01-R3", "AmberNetCDFRestartFile._initialize_headers")
V("C01", "nc-label-dimension-4", "mdtraj/formats/netcdf.py", 'self._handle.createDimension("label", 5)', 'self._handle.createDimension("label", 4)', "C01-R3", "NetCDFTrajectoryFile._initialize_headers")
V("C01", "twin-ncrst-type-by-dtype-name", "mdtraj/formats/amberrst.py", 'v = ncfile.createVariable("time", "d", ("time",))', 'v = ncfile.createVariable("time", "f8", ("time",))', None)
V("C01", "twin-ncrst-type-as-numpy-dtype", "mdtraj/formats/amberrst.py", 'v = ncfile.createVariable("time", "d", ("time",))', 'v = ncfile.createVariable("time", np.float64, ("time",))', None)
V("C01", "twin-nc-setattr-as-attribute", "mdtraj/formats/netcdf.py", 'setattr(frame_times, "units", "picosecond")', 'frame_times.units = "picosecond"', None)
V("C01", "nc-tagged-time-to-nanoseconds", "mdtraj/formats/netcdf.py", 'time = in_units_of(time, None, "picoseconds")', 'time = in_units_of(time, None, "nanoseconds")', "C01-R2", "NetCDFTrajectoryFile.write")
V("C01", "h5-tagged-velocities-angstrom", "mdtraj/formats/hdf5.py", 'velocities = in_units_of(velocities, None, "nanometers/picosecond")', 'velocities = in_units_of(velocities, None, "angstroms/picosecond")', "C01-R2", "HDF5TrajectoryFile.write")
V("C04", "conect-ter-counted-for-chains-with-atoms", "mdtraj/formats/pdb/pdbfile.py", "                if self.ter and chain.n_residues > 0:", "                if self.ter and chain.n_atoms > 0:", "C04-R7", "PDBTrajectoryFile._write_footer")
V("C04", "conect-three-partners-per-line-again", "mdtraj/formats/pdb/pdbfile.py", '"CONECT%5d%5d%5d%5d%5d" % (index1, bonded[0], bonded[1], bonded[2], bonded[3]),', '"CONECT%5d%5d%5d%5d" % (index1, bonded[0], bonded[1], bonded[2]),', "C04-R7", "PDBTrajectoryFile._write_footer")
V("C04", "conect-counter-from-zero", "mdtraj/formats/pdb/pdbfile.py", "            nextAtomIndex = 1\n", "            nextAtomIndex = 0\n", "C04-R7", "PDBTrajectoryFile._write_footer")
V("C04", "conect-one-direction-only", "mdtraj/formats/pdb/pdbfile.py", "                atomBonds[index1].append(index2)\n                atomBonds[index2].append(index1)", "                atomBonds[index1].append(index2)", "C04-R7", "PDBTrajectoryFile._write_footer")
V("C04", "twin-conect-del-slice-by-rebinding", "mdtraj/formats/pdb/pdbfile.py", "                    del bonded[:4]", "                    bonded = bonded[4:]", None)
V("C12", "n-bonds-counts-first-ends-only", "mdtraj/core/topology.py", "        return ilen(bond for bond in self.residue.chain.topology.bonds if self in bond)", "        return ilen(bond for bond in self.residue.chain.topology.bonds if self is bond[0])", "C12-R1", "SelectionKeyword")
V("C12", "twin-n-bonds-as-sum", "mdtraj/core/topology.py", "        return ilen(bond for bond in self.residue.chain.topology.bonds if self in bond)", "        return sum(1 for bond in self.residue.chain.topology.bonds if self in bond)", None)
V("C20", "lammpstrj-open-expanded-path", "mdtraj/formats/lammpstrj.py", '            self._fh = open(filename, "w")', '            self._fh = open(os.path.expanduser(filename), "w")', "C20-R1", "LAMMPSTrajectoryFile.__init__")
V("C20", "twin-lammpstrj-open-fspath", "mdtraj/formats/lammpstrj.py", '            self._fh = open(filename, "w")', '            self._fh = open(os.fspath(filename), "w")', None)
V("C02", "arc-skip-loop-outside-try-again", "mdtraj/formats/arc.py", """            try:
                for j in range(stride - 1):
                    # throw away these frames
                    self._read()
            except _EOF:
                # the file ends inside the stride: the frame above was the last one
                break
""", """            for j in range(stride - 1):
                # throw away these frames
                self._read()
""", "C02-R8", "ArcTrajectoryFile.read")
V("C02", "arc-time-ignores-position", "mdtraj/formats/arc.py", "        time = (stride * np.arange(len(xyz))) + initial", "        time = stride * np.arange(len(xyz))", "C02-R8", "ArcTrajectoryFile.read")
V("C02", "arc-cell-angles-from-shifted-columns", "mdtraj/formats/arc.py", "                    [float(s[3]), float(s[4]), float(s[5])],", "                    [float(s[2]), float(s[3]), float(s[4])],", "C02-R8", "ArcTrajectoryFile.read")
V("C02", "arc-last-atom-dropped", "mdtraj/formats/arc.py", "        # Now do the last atom\n        atom_names[i] = s[1]\n        bond_partners[i] = [int(x) for x in s[6:]]\n        coords[i, :] = [float(s[pos]) for pos in [2, 3, 4]]", "        # Now do the last atom\n        atom_names[i] = s[1]\n        bond_partners[i] = [int(x) for x in s[6:]]", "C02-R8", "ArcTrajectoryFile.read")
V("C02", "twin-arc-for-loop-over-atoms", "mdtraj/formats/arc.py", "            coords[i, :] = [float(s[pos]) for pos in [2, 3, 4]]\n            i += 1", "            coords[i, :] = [float(s[2]), float(s[3]), float(s[4])]\n            i += 1", None)

# round 12: adjugate rows, masked last block, closest contact, view-backed trajectories, caller's bond order, donors of mixed participation
T_ = "mdtraj/rmsd/src/theobald_rmsd.cpp"
V("C06", "adjugate-row-1-wrong-sign", T_, "            q1 =  k00*k2233_2323 - k02*k0233_0323 + k03*k0223_0322;", "            q1 =  k00*k2233_2323 + k02*k0233_0323 + k03*k0223_0322;", "C06-R4", "msdFromMandG")
V("C06", "adjugate-row-2-skipped", T_, """                q0 =  k13*k0213_0312 - k23*k0113_0311 + k33*k0112_0211;
                q1 = -k03*k0213_0312 + k23*k0013_0103 - k33*k0012_0102;
                q2 =  k03*k0113_0311 - k13*k0013_0103 + k33*k0011_0101;
                q3 = -k03*k0112_0211 + k13*k0012_0102 - k23*k0011_0101;
                qsqr = q0*q0 + q1*q1 + q2*q2 + q3*q3;

                if (qsqr < 1e-11f) {""", """                {""", "C06-R4", "msdFromMandG")
V("C06", "adjugate-row-3-norm-not-recomputed", T_, """                    q3 =  k02*k0112_0211 - k12*k0012_0102 + k22*k0011_0101;
                    qsqr = q0*q0 + q1*q1 + q2*q2 + q3*q3;""", """                    q3 =  k02*k0112_0211 - k12*k0012_0102 + k22*k0011_0101;""", "C06-R4", "msdFromMandG")
V("C06", "identity-after-row-0-only-again", T_, """        if (qsqr < 1e-11f) {
            q0 = -k01*k2233_2323 + k02*k1233_1323 - k03*k1223_1322;""", """        if (0) {
            q0 = -k01*k2233_2323 + k02*k1233_1323 - k03*k1223_1322;""", "C06-R4", "msdFromMandG")
V("C06", "twin-adjugate-minor-inlined", T_, "                k0011_0101 = k00*k11 - k01*k01;", "                k0011_0101 = k11*k00 - k01*k01;", None)
V("C06", "mask-row-3-loads-four", "mdtraj/rmsd/src/theobald_rmsd_sse.h", "        {1, 1, 1, 0}", "        {1, 1, 1, 1}", "C06-R5", "msd_atom_major", count=2)
V("C06", "twin-mask-table-as-counts", "mdtraj/rmsd/src/theobald_rmsd_sse.h", """    static const int masks[4][4] = {
        {1, 1, 1, 1},
        {1, 0, 0, 0},
        {1, 1, 0, 0},
        {1, 1, 1, 0}
    };""", """    static const int masks[4][4] = {
        {1, 1, 1, 1},
        {1, 0, 0, 0},
        {2, 2, 0, 0},
        {3, 3, 3, 0}
    };""", None, count=2)
G_ = "mdtraj/geometry/src/geometry.cpp"
V("C09", "closest-contact-c-vector-from-a", G_, "        box_vec3 = fvec4(box_vectors_pointer[6], box_vectors_pointer[7], box_vectors_pointer[8], 0);", "        box_vec3 = fvec4(box_vectors_pointer[2], box_vectors_pointer[7], box_vectors_pointer[8], 0);", "C09-R3", "find_closest_contact")
V("C09", "closest-contact-b-not-subtracted", G_, "                delta -= box_vec2*floorf(delta[1]*recip_box_size[1]+0.5f);\n", "", "C09-R3", "find_closest_contact")
V("C09", "closest-contact-half-vector", G_, "                delta -= box_vec1*floorf(delta[0]*recip_box_size[0]+0.5f);", "                delta -= box_vec1*0.5f*floorf(delta[0]*recip_box_size[0]+0.5f);", "C09-R3", "find_closest_contact")
V("C09", "twin-closest-contact-round-term-named", G_, "                delta -= box_vec1*floorf(delta[0]*recip_box_size[0]+0.5f);", "                float n_a = floorf(delta[0]*recip_box_size[0]+0.5f);\n                delta -= box_vec1*n_a;", None)
V("C03", "slice-copies-only-direct-views", "mdtraj/core/trajectory.py", "            xyz = xyz.copy()\n            time = time.copy()", "            xyz = xyz.copy() if xyz.base is self._xyz else xyz\n            time = time.copy()", "C03-R1", "Trajectory.slice")
V("C03", "twin-slice-copy-via-np-array", "mdtraj/core/trajectory.py", "            xyz = xyz.copy()\n            time = time.copy()", "            xyz = np.array(xyz)\n            time = time.copy()", None)
V("C11", "whole-molecules-resorts-given-bonds", "mdtraj/core/trajectory.py", """        box = np.asarray(result.unitcell_vectors, order="c")
        _geometry.whole_molecules(result.xyz, box, sorted_bonds)""", """        box = np.asarray(result.unitcell_vectors, order="c")
        sorted_bonds = sorted_bonds[np.argsort(sorted_bonds[:, 0], kind="stable")]
        _geometry.whole_molecules(result.xyz, box, sorted_bonds)""", "C11-R4", "Trajectory.make_molecules_whole")
V("C14", "donor-filter-looks-at-hydrogen-only", "mdtraj/geometry/hbond.py", "        atoms = [atom for atom in atoms if can_participate(atom[0]) and can_participate(atom[1])]",
  "        atoms = [(one, two) for one, two in atoms if can_participate(two if two.element.symbol == \"H\" else one)]", "C14-R2", "_get_bond_triplets")
V("C14", "twin-donor-filter-all", "mdtraj/geometry/hbond.py", "        atoms = [atom for atom in atoms if can_participate(atom[0]) and can_participate(atom[1])]",
  "        atoms = [atom for atom in atoms if all(can_participate(a_) for a_ in atom)]", None)

D_ = "mdtraj/geometry/src/dssp.cpp"
V("C15", "ladder-extents-hoisted-out-of-merge-loop", D_, """        for (int j = i + 1; j < (int) bridges.size(); ++j) {
            int ibi = bridges[i].i.front();
            int iei = bridges[i].i.back();
            int jbi = bridges[i].j.front();
            int jei = bridges[i].j.back();
""", """        const int ibi = bridges[i].i.front();
        const int iei = bridges[i].i.back();
        const int jbi = bridges[i].j.front();
        const int jei = bridges[i].j.back();
        for (int j = i + 1; j < (int) bridges.size(); ++j) {
""", "C15-R4", "calculate_beta_sheets")
V("C15", "twin-ladder-extents-of-j-declared-first", D_, """            int ibi = bridges[i].i.front();
            int iei = bridges[i].i.back();
            int jbi = bridges[i].j.front();
            int jei = bridges[i].j.back();
            int ibj = bridges[j].i.front();
            int iej = bridges[j].i.back();
            int jbj = bridges[j].j.front();
            int jej = bridges[j].j.back();
""", """            int ibj = bridges[j].i.front();
            int iej = bridges[j].i.back();
            int jbj = bridges[j].j.front();
            int jej = bridges[j].j.back();
            int ibi = bridges[i].i.front();
            int iei = bridges[i].i.back();
            int jbi = bridges[i].j.front();
            int jei = bridges[i].j.back();
""", None)
V("C17", "vectors-setter-no-cell-from-diagonal", "mdtraj/core/trajectory.py", "        if vectors is None or np.all(np.abs(vectors) < 1e-15):", "        if vectors is None or np.all(np.abs(np.diagonal(vectors, axis1=-2, axis2=-1)) < 1e-15):", "C17-R4", "Trajectory.unitcell_vectors.setter")
V("C17", "twin-vectors-setter-max-abs", "mdtraj/core/trajectory.py", "        if vectors is None or np.all(np.abs(vectors) < 1e-15):", "        if vectors is None or np.max(np.abs(vectors)) < 1e-15:", None)
V("C01", "rst7-two-atom-box-needs-more-than-60", "mdtraj/formats/amberrst.py", "                tmp = [float(line[i : i + 12]) >= 60.0 for i in range(0, 72, 12)]", "                tmp = [float(line[i : i + 12]) > 60.0 for i in range(0, 72, 12)]", "C01-R8", "AmberRestartFile.write / ._parse")

# round 13
V("C18", "gro-read-does-not-count-frames", "mdtraj/formats/gro.py", "                frame_xyz, frame_box, frame_time = self._read_frame()\n                self._frame_index += 1\n", "                frame_xyz, frame_box, frame_time = self._read_frame()\n", "C18-R3", "GroTrajectoryFile.read")
V("C18", "twin-gro-counts-after-append", "mdtraj/formats/gro.py", "                frame_xyz, frame_box, frame_time = self._read_frame()\n                self._frame_index += 1\n", "                frame_xyz, frame_box, frame_time = self._read_frame()\n                self._frame_index = self._frame_index + 1\n", None)
V("C18", "lammpstrj-counts-before-the-atom-records", "mdtraj/formats/lammpstrj.py", None, None, "C18-R3", "LAMMPSTrajectoryFile.read", edits=[("        self._frame_index += 1\n        return xyz, lengths, angles", "        return xyz, lengths, angles"), ("        self._line_counter += 4\n        # --- end header ---\n", "        self._line_counter += 4\n        self._frame_index += 1\n        # --- end header ---\n")])
V("C02", "mdcrd-selection-applied-after-stacking", "mdtraj/formats/mdcrd.py", None, None, "C02-R8", "MDCRDTrajectoryFile.read", edits=[("                coord, box = self._read()\n                if atom_indices is not None:\n                    coord = coord[atom_indices, :]\n", "                coord, box = self._read()\n"), ("        coords = np.array(coords)\n", "        coords = np.array(coords)\n        if atom_indices is not None:\n            coords = coords[:, atom_indices, :]\n")])
V("C03", "md-join-discard-from-check-topology", "mdtraj/core/trajectory.py", "            discard_overlapping_frames=discard_overlapping_frames,\n        ),\n        trajs,", "            discard_overlapping_frames=check_topology,\n        ),\n        trajs,", "C03-R7", "join")
V("C03", "lh5-scales-the-callers-array-again", "mdtraj/formats/lh5.py", '        Rounded = np.multiply(X, float(precision)).astype("int16")', '        X *= float(precision)\n        Rounded = X.astype("int16")\n        X /= float(precision)', "C03-R5", "Trajectory.save_lh5")
V("C03", "twin-lh5-scale-operator", "mdtraj/formats/lh5.py", '        Rounded = np.multiply(X, float(precision)).astype("int16")', '        Rounded = (X * float(precision)).astype("int16")', None)
V("C19", "ensure-type-zero-matches-anything", "mdtraj/utils/validation.py", "            if b is None:\n                # if the user's shape spec has a None in it, it matches anything", "            if not b:\n                # if the user's shape spec has a None in it, it matches anything", "C19-R8", "ensure_type")
V("C19", "pdb-write-takes-first-frame-of-a-block", "mdtraj/formats/pdb/pdbfile.py", "        if ilen(topology.atoms) != len(positions):", "        if positions.ndim == 3:\n            positions = positions[0]\n        if ilen(topology.atoms) != len(positions):", "C19-R8", "PDBTrajectoryFile.write")
V("C01", "save-hdf5-topology-only-in-mode-w", "mdtraj/core/trajectory.py", "            f.topology = self.topology\n\n    def save_lammpstrj", "            if mode == \"w\":\n                f.topology = self.topology\n\n    def save_lammpstrj", "C01-R9", "Trajectory.save_hdf5 / load_hdf5")
V("C20", "save-returns-early-for-empty-trajectories", "mdtraj/core/trajectory.py", "        # run the saver, and return whatever output it gives\n        return saver(filename, **kwargs)", "        if self.n_frames == 0:\n            return None\n        # run the saver, and return whatever output it gives\n        return saver(filename, **kwargs)", "C20-R2", "Trajectory.save")
V("C20", "twin-save-binds-result-first", "mdtraj/core/trajectory.py", "        # run the saver, and return whatever output it gives\n        return saver(filename, **kwargs)", "        # run the saver, and return whatever output it gives\n        result = saver(filename, **kwargs)\n        return result", None)
V("C12", "atom-eq-ignores-the-index", "mdtraj/core/topology.py", "        if self.index != other.index:\n            return False\n        if self.element.name != other.element.name:", "        if self.element.name != other.element.name:", "C12-R1", "SelectionKeyword")

# round 14
V("C14", "bond-triplets-memoised-per-topology", "mdtraj/geometry/hbond.py", "def _get_bond_triplets(topology, exclude_water=True, sidechain_only=False):", "@functools.lru_cache(maxsize=16)\ndef _get_bond_triplets(topology, exclude_water=True, sidechain_only=False):", "C14-R2", "_get_bond_triplets")
V("C14", "kabsch-sander-row-pointer-shared-by-the-frames", "mdtraj/geometry/hbond.py", None, None, "C14-R3", "kabsch_sander", edits=[("        indptr = np.zeros(n_residues + 1, np.int32)\n        indptr[1:] = np.cumsum(mask.sum(axis=1))", "        indptr[1:] = np.cumsum(mask.sum(axis=1))"), ("    hbonds_mask = hbonds != -1\n", "    hbonds_mask = hbonds != -1\n    indptr = np.zeros(n_residues + 1, np.int32)\n")])
V("C14", "twin-kabsch-sander-row-pointer-by-concatenate", "mdtraj/geometry/hbond.py", "        indptr = np.zeros(n_residues + 1, np.int32)\n        indptr[1:] = np.cumsum(mask.sum(axis=1))", "        indptr = np.zeros(n_residues + 1, np.int32)\n        counts = mask.sum(axis=1)\n        indptr[1:] = np.cumsum(counts)", None)
V("C12", "sidechain-for-every-non-backbone-atom", "mdtraj/core/topology.py", '        return self.name not in {"C", "CA", "N", "O", "HA", "H"} and self.residue.is_protein', '        return not self.is_backbone and self.name not in {"HA", "H"}', "C12-R1", "SelectionKeyword")
V("C10", "neighbors-sorted-before-return", "mdtraj/geometry/src/neighbors.cpp", None, None, "C10-R1", "_compute_neighbors", edits=[("#include <cmath>\n", "#include <algorithm>\n#include <cmath>\n"), ("    return result;\n}", "    std::sort(result.begin(), result.end());\n    return result;\n}")])
V("C08", "sasa-buffer-cleared-by-element-count", "mdtraj/geometry/src/sasa.cpp", None, None, "C08-R2", "sasa", edits=[("#include <cstdio>\n", "#include <cstdio>\n#include <cstring>\n"), ("    for (int j = 0; j < n_atoms; j++) {\n        outframebuffer[j] = 0;\n    }", "    memset(outframebuffer, 0, n_atoms);")])
V("C08", "twin-sasa-buffer-cleared-by-memset-bytes", "mdtraj/geometry/src/sasa.cpp", None, None, None, edits=[("#include <cstdio>\n", "#include <cstdio>\n#include <cstring>\n"), ("    for (int j = 0; j < n_atoms; j++) {\n        outframebuffer[j] = 0;\n    }", "    memset(outframebuffer, 0, n_atoms * sizeof(float));")])
V("C06", "superpose-reference-not-copied-when-self", "mdtraj/core/trajectory.py", "            copy=True,\n            order=\"c\",\n        ).reshape(1, -1, 3)", "            copy=reference is not self,\n            order=\"c\",\n        ).reshape(1, -1, 3)", "C06-R2", "Trajectory.superpose")

# twins learnt from the independently seeded changes (the refactoring without the bug must stay silent)
V("C04", "twin-hdf5-getter-uses-dict-get", "mdtraj/formats/hdf5.py",
  """                try:
                    segment_id = residue_dict["segmentID"]
                except KeyError:
                    segment_id = \"\"""", """                segment_id = residue_dict.get("segmentID", \"\")""", None)
V("C20", "twin-excl-flag-guard-with-trunc", "mdtraj/formats/amberrst.py",
  """        if mode == "w":
            self._needs_initialization = True
            self._handle = open(filename, mode)""", """        if mode == "w":
            self._needs_initialization = True
            flags = os.O_WRONLY | os.O_CREAT | os.O_TRUNC
            if not force_overwrite:
                flags |= os.O_EXCL
            self._handle = os.fdopen(os.open(filename, flags, 0o666), mode)""", None)
V("C03", "twin-slice-key-asarray-no-dtype", "mdtraj/core/trajectory.py", "        xyz = self.xyz[key]\n        time = self.time[key]",
  "        if isinstance(key, (list, tuple)):\n            key = np.asarray(key)\n        xyz = self.xyz[key]\n        time = self.time[key]", None)

# ---------------------------------------------------------------- C12
S = "mdtraj/core/selection.py"
V("C12", "infix-per-spelling-sorted-again", S, """            levels = {}
            for kw, op in klass.keyword_aliases.items():
                levels.setdefault(id(op), []).append(kw)
            return [
                (MatchFirst([PPLiteral(kw) for kw in kws]), klass.n_terms, getattr(opAssoc, klass.assoc), klass)
                for kws in levels.values()
            ]""", """            kws = sorted(klass.keyword_aliases.keys())
            return [(kw, klass.n_terms, getattr(opAssoc, klass.assoc), klass) for kw in kws]""", "C12-R3")
V("C12", "and-listed-before-comparisons", S, """        (["<", "lt"], ast.Lt()),
        (["==", "eq"], ast.Eq()),
        (["<=", "le"], ast.LtE()),
        (["!=", "ne"], ast.NotEq()),
        ([">=", "ge"], ast.GtE()),
        ([">", "gt"], ast.Gt()),
        (["and", "&&"], ast.And()),""", """        (["and", "&&"], ast.And()),
        (["<", "lt"], ast.Lt()),
        (["==", "eq"], ast.Eq()),
        (["<=", "le"], ast.LtE()),
        (["!=", "ne"], ast.NotEq()),
        ([">=", "ge"], ast.GtE()),
        ([">", "gt"], ast.Gt()),""", "C12-R3")
V("C12", "lt-maps-to-LtE", S, '(["<", "lt"], ast.Lt()),', '(["<", "lt"], ast.LtE()),', "C12-R2")
V("C12", "ge-spelling-split", S, '([">=", "ge"], ast.GtE()),\n        ([">", "gt"], ast.Gt()),', '([">="], ast.GtE()),\n        ([">", "gt", "ge"], ast.Gt()),', "C12-R2")
V("C12", "resid-maps-to-resSeq", S, '(("resid", "resi"), _chain("residue", "index")),', '(("resid", "resi"), _chain("residue", "resSeq")),', "C12-R1")
V("C12", "waters-synonym-dropped", S, '(("water", "waters", "is_water"), _chain("residue", "is_water")),', '(("water", "is_water"), _chain("residue", "is_water")),', "C12-R1")
V("C12", "chainid-maps-to-chain-id-string", S, '(("chainid",), _chain("residue", "chain", "index")),', '(("chainid",), _chain("residue", "chain", "chain_id")),', "C12-R1")
V("C12", "parseAll-false", S, "self.expression.parseString(selection, parseAll=True)", "self.expression.parseString(selection, parseAll=False)", "C12-R6")
V("C12", "range-upper-exclusive", S, "            ops=[ast.LtE(), ast.LtE()],", "            ops=[ast.LtE(), ast.Lt()],", "C12-R4")
V("C12", "range-bounds-swapped", S, "            left=self._from.ast(),\n            ops=[ast.LtE(), ast.LtE()],\n            comparators=[self._field.ast(), self._to.ast()],",
  "            left=self._to.ast(),\n            ops=[ast.LtE(), ast.LtE()],\n            comparators=[self._field.ast(), self._from.ast()],", "C12-R4")
V("C12", "regex-args-swapped", S, "                args=[pattern, string],", "                args=[string, pattern],", "C12-R2")
V("C12", "regex-search-instead-of-match", S, '                    attr="match",', '                    attr="search",', "C12-R2")
V("C12", "literal-check-dropped", S, """            if all(isinstance(c, Literal) for c in self.comparators):
                raise ValueError("Cannot compare literals.")""", """            if all(isinstance(c, Literal) for c in self.comparators):
                pass""", "C12-R6")
V("C12", "operators-not-excluded-from-literals", S, "        literal = ~(keywords(BinaryInfixOperand) | keywords(UnaryInfixOperand)) + (", "        literal = ~(keywords(UnaryInfixOperand)) + (", "C12-R7")
V("C12", "select-negated-filter", "mdtraj/core/topology.py", "indices = np.array([a.index for a in self.atoms if filter_func(a)])", "indices = np.array([a.index for a in self.atoms if not filter_func(a)])", "C12-R5")
V("C12", "select-expression-other-string", "mdtraj/core/topology.py", "        condition = parse_selection(selection_string).source", "        condition = parse_selection(selection_string.lower()).source", "C12-R5")
V("C12", "twin-aliases-reordered", S, '(("water", "waters", "is_water"), _chain("residue", "is_water")),', '(("is_water", "water", "waters"), _chain("residue", "is_water")),', None)
V("C12", "twin-comparisons-reordered", S, '        (["<", "lt"], ast.Lt()),\n        (["==", "eq"], ast.Eq()),', '        (["eq", "=="], ast.Eq()),\n        (["lt", "<"], ast.Lt()),', None)

# ---------------------------------------------------------------- C17
U = "mdtraj/utils/unitcell.py"
V("C17", "alpha-beta-operands-exchanged", U, 'alpha = np.arccos(np.einsum("...i, ...i", b, c) / (b_length * c_length), casting=\'safe\')\n    beta = np.arccos(np.einsum("...i, ...i", c, a) / (c_length * a_length), casting=\'safe\')',
  'alpha = np.arccos(np.einsum("...i, ...i", c, a) / (c_length * a_length), casting=\'safe\')\n    beta = np.arccos(np.einsum("...i, ...i", b, c) / (b_length * c_length), casting=\'safe\')', "C17-R1")
V("C17", "cx-uses-alpha", U, "    cx = c_length * np.cos(beta)", "    cx = c_length * np.cos(alpha)", "C17-R1")
V("C17", "b-uses-beta", U, "    b = np.array([b_length * np.cos(gamma), b_length * np.sin(gamma), np.zeros_like(b_length)])",
  "    b = np.array([b_length * np.cos(beta), b_length * np.sin(beta), np.zeros_like(b_length)])", "C17-R1")
V("C17", "tilt-xz-uses-gamma", U, "    xz = c_length * np.cos(np.deg2rad(beta))", "    xz = c_length * np.cos(np.deg2rad(gamma))", "C17-R1")
V("C17", "b-not-in-xy-plane", U, "np.array([b_length * np.cos(gamma), b_length * np.sin(gamma), np.zeros_like(b_length)])",
  "np.array([b_length * np.cos(gamma), np.zeros_like(b_length), b_length * np.sin(gamma)])", "C17-R2")
V("C17", "getter-angles-column-order", "mdtraj/core/trajectory.py", "            self._unitcell_angles[:, 0],  # alpha\n            self._unitcell_angles[:, 1],  # beta",
  "            self._unitcell_angles[:, 1],  # alpha\n            self._unitcell_angles[:, 0],  # beta", "C17-R3")
V("C17", "setter-stacks-angles-wrong", "mdtraj/core/trajectory.py", "        self._unitcell_angles = np.vstack((alpha, beta, gamma)).T", "        self._unitcell_angles = np.vstack((gamma, beta, alpha)).T", "C17-R3")
V("C17", "degrees-not-converted", U, "    gamma = gamma * np.pi / 180\n", "", "C17-R5")
V("C17", "arccos-returned-in-radians", U, "    beta = beta * 180.0 / np.pi\n", "", "C17-R5")
V("C17", "atom_slice-forwards-lengths-only", "mdtraj/core/trajectory.py", """            time=time,
            unitcell_lengths=unitcell_lengths,
            unitcell_angles=unitcell_angles,
        )

    def remove_solvent""", """            time=time,
            unitcell_lengths=unitcell_lengths,
        )

    def remove_solvent""", "C17-R4")
V("C17", "zero-box-clears-only-lengths", "mdtraj/core/trajectory.py", "            self._unitcell_lengths = None\n            self._unitcell_angles = None\n            return", "            self._unitcell_lengths = None\n            return", "C17-R4")
V("C17", "lammps-writer-swaps-xz-yz-source", "mdtraj/formats/lammpstrj.py", "            xz = c * np.cos(beta)", "            xz = c * np.cos(alpha)", "C17-R7")
V("C17", "lammps-reader-gamma-from-xz", "mdtraj/formats/lammpstrj.py", "            gamma = np.arccos(xy / b)", "            gamma = np.arccos(xz / b)", "C17-R7")
V("C17", "volume-from-lengths-product", "mdtraj/core/trajectory.py", "            return np.array(list(map(np.linalg.det, self.unitcell_vectors)), dtype=np.float64)",
  "            return np.prod(self.unitcell_lengths, axis=1).astype(np.float64)", "C17-R5")
V("C17", "twin-sum-instead-of-einsum", U, 'alpha = np.arccos(np.einsum("...i, ...i", b, c) / (b_length * c_length), casting=\'safe\')', "alpha = np.arccos(np.sum(b * c, axis=-1) / (b_length * c_length))", None)
V("C17", "twin-deg2rad", U, "    alpha = alpha * np.pi / 180\n", "    alpha = np.deg2rad(alpha)\n", None)

# ---------------------------------------------------------------- C01
V("C01", "xyz-class-unit-nanometers", "mdtraj/formats/xyzfile.py", '    distance_unit = "angstroms"', '    distance_unit = "nanometers"', "C01-R3", "XYZTrajectoryFile")
V("C01", "xtc-class-unit-angstroms", "mdtraj/formats/xtc/xtc.pyx", "        self.distance_unit = 'nanometers'", "        self.distance_unit = 'angstroms'", "C01-R3", "XTCTrajectoryFile")
V("C01", "save_dcd-lengths-unconverted", T, """        ) as f:
            f.write(
                xyz=in_units_of(self.xyz, Trajectory._distance_unit, f.distance_unit),
                cell_lengths=in_units_of(
                    self.unitcell_lengths,
                    Trajectory._distance_unit,
                    f.distance_unit,
                ),
                cell_angles=self.unitcell_angles,
            )

    def save_dtr(""", """        ) as f:
            f.write(
                xyz=in_units_of(self.xyz, Trajectory._distance_unit, f.distance_unit),
                cell_lengths=self.unitcell_lengths,
                cell_angles=self.unitcell_angles,
            )

    def save_dtr(""", "C01-R2", "Trajectory.save_dcd")
V("C01", "save_netcdf-angles-length-converted", T, """                    f.distance_unit,
                ),
                cell_angles=self.unitcell_angles,
            )

    def save_netcdfrst(""", """                    f.distance_unit,
                ),
                cell_angles=in_units_of(self.unitcell_angles, Trajectory._distance_unit, f.distance_unit),
            )

    def save_netcdfrst(""", "C01-R2", "Trajectory.save_netcdf")
V("C01", "save_xtc-units-swapped", T, """                xyz=in_units_of(self.xyz, Trajectory._distance_unit, f.distance_unit),
                time=self.time,
                box=in_units_of(
                    self.unitcell_vectors,
                    Trajectory._distance_unit,
                    f.distance_unit,
                ),
            )

    def save_trr(""", """                xyz=in_units_of(self.xyz, f.distance_unit, Trajectory._distance_unit),
                time=self.time,
                box=in_units_of(
                    self.unitcell_vectors,
                    Trajectory._distance_unit,
                    f.distance_unit,
                ),
            )

    def save_trr(""", "C01-R2", "Trajectory.save_xtc")
V("C01", "dcd-reader-box-unconverted", "mdtraj/formats/dcd/dcd.pyx", "        in_units_of(box_length, self.distance_unit, Trajectory._distance_unit, inplace=True)\n", "", "C01-R2", "DCDTrajectoryFile.read_as_traj")
V("C01", "xyz-reader-conversion-not-inplace", "mdtraj/formats/xyzfile.py", "        in_units_of(xyz, self.distance_unit, Trajectory._distance_unit, inplace=True)",
  "        in_units_of(xyz, self.distance_unit, Trajectory._distance_unit)", "C01-R2", "XYZTrajectoryFile.read_as_traj")
V("C01", "cryst1-angle-decimals", "mdtraj/formats/pdb/pdbfile.py", '"CRYST1{:9.3f}{:9.3f}{:9.3f}{:7.2f}{:7.2f}{:7.2f} P 1           1 "', '"CRYST1{:9.3f}{:9.3f}{:9.3f}{:7.3f}{:7.2f}{:7.2f} P 1           1 "', "C01-R8")
V("C01", "cryst1-length-width", "mdtraj/formats/pdb/pdbfile.py", '"CRYST1{:9.3f}{:9.3f}{:9.3f}{:7.2f}{:7.2f}{:7.2f} P 1           1 "', '"CRYST1{:10.3f}{:9.3f}{:9.3f}{:7.2f}{:7.2f}{:7.2f} P 1           1 "', "C01-R8")
V("C01", "pdb-reader-x-slice-shifted", "mdtraj/formats/pdb/pdbstructure.py", "        x = float(pdb_line[30:38])", "        x = float(pdb_line[31:39])", "C01-R8")
V("C01", "pdb-atom-line-bfactor-width", "mdtraj/formats/pdb/pdbfile.py", '"ATOM  %5d %-4s %3s %1s%4d    %s%s%s  1.00 %5s      %-4s%2s  "', '"ATOM  %5d %-4s %3s %1s%4d    %s%s%s  1.00%6s      %-4s%2s  "', None)
V("C01", "pdb-atom-line-resseq-shift", "mdtraj/formats/pdb/pdbfile.py", '"ATOM  %5d %-4s %3s %1s%4d    %s%s%s  1.00 %5s      %-4s%2s  "', '"ATOM  %5d %-4s %3s %1s %4d   %s%s%s  1.00 %5s      %-4s%2s  "', "C01-R8")
V("C01", "mdcrd-writer-9.3", "mdtraj/formats/mdcrd.py", '                out = "%8.3f" % coord', '                out = "%9.3f" % coord', "C01-R4", "MDCRDTrajectoryFile.write")
V("C01", "rst7-reader-second-atom-offset", "mdtraj/formats/amberrst.py", "for j in range(36, 72, 12)]", "for j in range(37, 73, 12)]", "C01-R8")
V("C01", "gro-box-writer-swaps-offdiag", "mdtraj/formats/gro.py", 'f"{box[0, 1]:10.5f}{box[0, 2]:10.5f}{box[1, 0]:10.5f}"', 'f"{box[1, 0]:10.5f}{box[0, 2]:10.5f}{box[0, 1]:10.5f}"', "C01-R8")
V("C01", "gro-box-reader-transposed", "mdtraj/formats/gro.py", "                [box[0], box[3], box[4]],\n                [box[5], box[1], box[6]],", "                [box[0], box[5], box[4]],\n                [box[3], box[1], box[6]],", "C01-R8")
V("C01", "dcd-write-alpha-gamma-swapped", "mdtraj/formats/dcd/dcd.pyx", "                self.timestep.alpha = cell_angles[i, 0]\n                self.timestep.beta  = cell_angles[i, 1]\n                self.timestep.gamma = cell_angles[i, 2]",
  "                self.timestep.alpha = cell_angles[i, 2]\n                self.timestep.beta  = cell_angles[i, 1]\n                self.timestep.gamma = cell_angles[i, 0]", "C01-R5", "DCDTrajectoryFile._write")
V("C01", "xyz-writer-yx-order", "mdtraj/formats/xyzfile.py", 'f"{types[j]} {coord[0]:8.3f} {coord[1]:8.3f} {coord[2]:8.3f}\\n"', 'f"{types[j]} {coord[1]:8.3f} {coord[0]:8.3f} {coord[2]:8.3f}\\n"', "C01-R8")
V("C01", "netcdfrst-time-first-frame", T, "                        coordinates=coordinates[i],\n                        time=self.time[i],\n                        cell_lengths=lengths[i],\n                        cell_angles=self.unitcell_angles[i],\n                    )\n\n    def save_amberrst7",
  "                        coordinates=coordinates[i],\n                        time=self.time[0],\n                        cell_lengths=lengths[i],\n                        cell_angles=self.unitcell_angles[i],\n                    )\n\n    def save_amberrst7", "C01-R6", "Trajectory.save_netcdfrst")
V("C01", "pdb-frames-all-first-coords", T, "                    f.write(\n                        in_units_of(\n                            self._xyz[i],\n                            Trajectory._distance_unit,\n                            f.distance_unit,\n                        ),\n                        self.topology,\n                        modelIndex=i,\n                        bfactors=bfactors[i],\n                        ter=ter,",
  "                    f.write(\n                        in_units_of(\n                            self._xyz[0],\n                            Trajectory._distance_unit,\n                            f.distance_unit,\n                        ),\n                        self.topology,\n                        modelIndex=i,\n                        bfactors=bfactors[i],\n                        ter=ter,", "C01-R6", "Trajectory.save_pdb")
V("C01", "savers-dcd-to-netcdf-class", T, '            ".ncdf": self.save_netcdf,', '            ".ncdf": self.save_mdcrd,', "C01-R1")
V("C01", "h5-units-attr-angstroms", "mdtraj/formats/hdf5.py", 'self._handle.root.coordinates.attrs["units"] = "nanometers"', 'self._handle.root.coordinates.attrs["units"] = "angstroms"', "C01-R3")
V("C01", "twin-format-by-concatenation", "mdtraj/formats/pdb/pdbfile.py", '"CRYST1{:9.3f}{:9.3f}{:9.3f}{:7.2f}{:7.2f}{:7.2f} P 1           1 "', '"CRYST1{:9.3f}{:9.3f}{:9.3f}{:7.2f}{:7.2f}{:7.2f} P 1           1 "', None)

# ---------------------------------------------------------------- C11
PX = "mdtraj/geometry/src/image_molecules.pxi"
V("C11", "result-is-self-on-both-branches", T, """        if inplace:
            result = self
        else:
            # This slice-based assignment ensures all numpy arrays in result
            #  are copies, not views, of the corresponding items in self:
            result = self[:]

        if sorted_bonds is None:""", """        if inplace:
            result = self
        else:
            result = self

        if sorted_bonds is None:""", "C11-R1", "Trajectory.make_molecules_whole")
V("C11", "image-copy-is-shallow-slice", T, "            result = self[:]\n        if make_whole and sorted_bonds is None:", "            result = self.slice(slice(None), copy=False)\n        if make_whole and sorted_bonds is None:",
  "C11-R1", "Trajectory.image_molecules")
V("C11", "twin-cell-rederived-per-frame", T, "        box = np.asarray(result.unitcell_vectors, order=\"c\")\n        _geometry.whole_molecules(", "        vecs = lengths_and_angles_to_box_vectors(*result.unitcell_lengths.T, *result.unitcell_angles.T)\n        box = np.ascontiguousarray(np.swapaxes(np.dstack(vecs), 1, 2))\n        _geometry.whole_molecules(", None)
V("C11", "cell-of-first-frame-for-all", T, "        box = np.asarray(result.unitcell_vectors, order=\"c\")\n        _geometry.whole_molecules(", "        box = np.ascontiguousarray(np.broadcast_to(result.unitcell_vectors[0], (result.n_frames, 3, 3)))\n        _geometry.whole_molecules(", "C11-R1", "Trajectory.make_molecules_whole")
V("C11", "cell-storage-lengths-instead-of-vectors", T, "        box = np.asarray(result.unitcell_vectors, order=\"c\")\n        _geometry.image_molecules(", "        box = np.asarray(result.unitcell_vectors[::-1], order=\"c\")\n        _geometry.image_molecules(", "C11-R1", "Trajectory.image_molecules")
V("C11", "make_whole-cell-transposed", PX, "            offset[k] = frame_unitcell_vectors[2, k]*roundf(delta[2]/frame_unitcell_vectors[2,2])", "            offset[k] = frame_unitcell_vectors[k, 2]*roundf(delta[2]/frame_unitcell_vectors[2,2])", "C11-R2", "make_whole")
V("C11", "make_whole-roundf-dropped", PX, "            offset[k] += frame_unitcell_vectors[1, k]*roundf((delta[1]-offset[1])/frame_unitcell_vectors[1,1])", "            offset[k] += frame_unitcell_vectors[1, k]*((delta[1]-offset[1])/frame_unitcell_vectors[1,1])", "C11-R2", "make_whole")
V("C11", "make_whole-wrong-divisor", PX, "roundf((delta[0]-offset[0])/frame_unitcell_vectors[0,0])\n            frame_positions", "roundf((delta[0]-offset[0])/frame_unitcell_vectors[1,1])\n            frame_positions", "C11-R2", "make_whole")
V("C11", "make_whole-order-a-b-c", PX, """            offset[k] = frame_unitcell_vectors[2, k]*roundf(delta[2]/frame_unitcell_vectors[2,2])
        for k in range(3):
            offset[k] += frame_unitcell_vectors[1, k]*roundf((delta[1]-offset[1])/frame_unitcell_vectors[1,1])
        for k in range(3):
            offset[k] += frame_unitcell_vectors[0, k]*roundf((delta[0]-offset[0])/frame_unitcell_vectors[0,0])""",
  """            offset[k] = frame_unitcell_vectors[0, k]*roundf(delta[0]/frame_unitcell_vectors[0,0])
        for k in range(3):
            offset[k] += frame_unitcell_vectors[1, k]*roundf((delta[1]-offset[1])/frame_unitcell_vectors[1,1])
        for k in range(3):
            offset[k] += frame_unitcell_vectors[2, k]*roundf((delta[2]-offset[2])/frame_unitcell_vectors[2,2])""", "C11-R2", "make_whole")
V("C11", "wrap_mols-per-atom-term", PX, "                frame_positions[mol[j], k] += mol_offset[k]-mol_center[k]", "                frame_positions[mol[j], k] += mol_offset[k]-mol_center[k]*0.5", "C11-R2", "wrap_mols")
V("C11", "image_frame-np-round-dropped", PX, "        offset = frame_unitcell_vectors[2]*np.round(delta[2]/frame_unitcell_vectors[2,2])", "        offset = frame_unitcell_vectors[2]*(delta[2]/frame_unitcell_vectors[2,2])", "C11-R2", "image_frame")
V("C11", "make_whole-normalises-cell", PX, "        atom1 = sorted_bonds[j, 0]\n        atom2 = sorted_bonds[j, 1]\n        for k in range(3):\n            delta[k]",
  "        atom1 = sorted_bonds[j, 0]\n        atom2 = sorted_bonds[j, 1]\n        frame_unitcell_vectors[1, 2] = 0\n        for k in range(3):\n            delta[k]", "C11-R3", "make_whole")
V("C11", "bonds-not-sorted", T, "            sorted_bonds = sorted(self._topology.bonds, key=lambda bond: bond[0].index)\n            sorted_bonds = np.asarray(\n                [[b0.index, b1.index] for b0, b1 in sorted_bonds],\n                dtype=np.int32,\n            )\n\n        box = np.asarray(result.unitcell_vectors, order=\"c\")\n        _geometry.whole_molecules",
  "            sorted_bonds = list(self._topology.bonds)\n            sorted_bonds = np.asarray(\n                [[b0.index, b1.index] for b0, b1 in sorted_bonds],\n                dtype=np.int32,\n            )\n\n        box = np.asarray(result.unitcell_vectors, order=\"c\")\n        _geometry.whole_molecules", "C11-R4", "Trajectory.make_molecules_whole")
V("C11", "twin-floorf-plus-half", PX, "            offset[k] = frame_unitcell_vectors[2, k]*roundf(delta[2]/frame_unitcell_vectors[2,2])", "            offset[k] = frame_unitcell_vectors[2, k]*floorf(delta[2]/frame_unitcell_vectors[2,2] + 0.5)", None)

# ---------------------------------------------------------------- C08
SA = "mdtraj/geometry/src/sasa.cpp"
V("C08", "center-sx-not-private", "mdtraj/rmsd/src/center_sse.h", "confp, i, x, y, z, x2, y2, z2, sx, sy, sz, trace)", "confp, i, x, y, z, x2, y2, z2, sy, sz, trace)", "C08-R1")
V("C08", "center-confp-not-private", "mdtraj/rmsd/src/center_sse.h", "        confp, i, x, y, z, x2, y2, z2, sx, sy, sz, trace)", "        i, x, y, z, x2, y2, z2, sx, sy, sz, trace)", "C08-R1")
V("C08", "sasa-shared-j-again", SA, "  int i;\n\n  /* work buffers that will be thread-local */", "  int i, j;\n\n  /* work buffers that will be thread-local */", None)
V("C08", "sasa-outframe-not-private", SA, "  #pragma omp parallel private(wb1, wb2, outframebuffer, outframe)", "  #pragma omp parallel private(wb1, wb2, outframebuffer)", "C08-R1")
V("C08", "sasa-accumulator-reset-removed", SA, "    for (int j = 0; j < n_atoms; j++) {\n        outframebuffer[j] = 0;\n    }\n", "", "C08-R2")
V("C08", "sasa-outframe-independent-of-frame", SA, "    outframe = out + (n_groups * i);", "    outframe = out;", "C08-R1")
V("C08", "neighborlist-getNeighbors-nonconst", "mdtraj/geometry/src/neighborlist.cpp", "const float* atomLocations, VoxelIndex atomVoxelIndex) const {", "const float* atomLocations, VoxelIndex atomVoxelIndex) {", "C08-R1")
V("C08", "rmsd-prange-accumulates-scalar", "mdtraj/rmsd/_rmsd.pyx", """        for i in prange(target_n_frames, nogil=True):
            msd = msd_atom_major(n_atoms, n_atoms, &target_xyz[i, 0, 0], &ref_xyz_frame[0, 0], target_g[i], ref_g, 0, NULL)
            distances[i] = sqrtf(msd)""", """        for i in prange(target_n_frames, nogil=True):
            msd += msd_atom_major(n_atoms, n_atoms, &target_xyz[i, 0, 0], &ref_xyz_frame[0, 0], target_g[i], ref_g, 0, NULL)
            distances[i] = sqrtf(msd)""", "C08-R3")
V("C08", "superpose-prange-rot-shared-slot", "mdtraj/rmsd/_rmsd.pyx", """                           g_target[target_frame], g_mobile[i], 1, &rot[i, 0, 0])
            rot_atom_major(n_atoms_displace, &xyz_displace_mobile[i, 0, 0], &rot[i, 0, 0])
    else:""", """                           g_target[target_frame], g_mobile[i], 1, &rot[0, 0, 0])
            rot_atom_major(n_atoms_displace, &xyz_displace_mobile[i, 0, 0], &rot[0, 0, 0])
    else:""", "C08-R3")
V("C08", "dssp-framesecondary-hoisted", "mdtraj/geometry/src/dssp.cpp", """    for (int i = 0; i < n_frames; i++) {
        const float* framexyz = xyz + (i * n_atoms * 3);
        std::vector<int> hbonds(n_residues*2, -1);
        std::vector<float> henergies(n_residues*2, 0);
        // loop is the 'default' secondary structure, which applies
        // when nothing else matches.
        std::vector<ss_t> framesecondary(n_residues, SS_LOOP);
""", """    std::vector<ss_t> framesecondary(n_residues, SS_LOOP);
    for (int i = 0; i < n_frames; i++) {
        const float* framexyz = xyz + (i * n_atoms * 3);
        std::vector<int> hbonds(n_residues*2, -1);
        std::vector<float> henergies(n_residues*2, 0);
""", "C08-R4")
V("C08", "kabsch-hbonds-stride-wrong", "mdtraj/geometry/src/geometry.cpp", "        hbonds += n_residues*2;\n        henergies += n_residues*2;", "        hbonds += n_residues*2;\n        henergies += n_residues;", "C08-R4")
V("C08", "twin-memset-reset", SA, "    for (int j = 0; j < n_atoms; j++) {\n        outframebuffer[j] = 0;\n    }\n", "    { float* ob = outframebuffer; for (int j = 0; j < n_atoms; j++) { ob[j] = 0; } }\n", None)

# ---------------------------------------------------------------- C14
HBP = "mdtraj/geometry/hbond.py"
GC = "mdtraj/geometry/src/geometry.cpp"
V("C14", "angle-cutoff-left-in-degrees", HBP, "    angle_cutoff = np.radians(angle_cutoff)\n", "", "C14-R1", "baker_hubbard")
V("C14", "angle-criterion-less-than", HBP, "presence = np.logical_and(distances < distance_cutoff, angles > angle_cutoff)", "presence = np.logical_and(distances < distance_cutoff, angles < angle_cutoff)", "C14-R1", "baker_hubbard")
V("C14", "freq-criterion-ge", HBP, "    mask[mask] = np.mean(presence, axis=0) > freq", "    mask[mask] = np.mean(presence, axis=0) >= freq", "C14-R1", "baker_hubbard")
V("C14", "bh-distance-donor-acceptor", HBP, "        distance_cutoff,\n        [1, 2],\n        [0, 1, 2],", "        distance_cutoff,\n        [0, 2],\n        [0, 1, 2],", "C14-R1", "baker_hubbard")
V("C14", "bh-angle-at-donor", HBP, "        distance_cutoff,\n        [1, 2],\n        [0, 1, 2],", "        distance_cutoff,\n        [1, 2],\n        [2, 0, 1],", "C14-R1", "baker_hubbard")
V("C14", "wn-angle-not-converted", HBP, "    cutoffs = distance_cutoff - angle_const * (angles * 180.0 / np.pi) ** 2", "    cutoffs = distance_cutoff - angle_const * angles ** 2", "C14-R1", "wernet_nilsson")
V("C14", "prefilter-other-cutoff", HBP, "    prevalence = np.mean(distances < distance_cutoff, axis=0)", "    prevalence = np.mean(distances < 0.2, axis=0)", "C14-R1", "baker_hubbard")
V("C14", "acceptors-only-oxygen", HBP, '    acceptor_elements = frozenset(("O", "N"))', '    acceptor_elements = frozenset(("O",))', "C14-R2")
V("C14", "acceptors-unfiltered", HBP, "acceptors = [a.index for a in topology.atoms if a.element.symbol in acceptor_elements and can_participate(a)]", "acceptors = [a.index for a in topology.atoms if a.element.symbol in acceptor_elements]", "C14-R2")
V("C14", "self-bonds-kept", HBP, "    return bond_triplets[np.logical_not(self_bond_mask), :]", "    return bond_triplets", "C14-R2")
V("C14", "coupling-literal-typo", GC, "    fvec4 coupling(-2.7888f, -2.7888f, 2.7888f, 2.7888f);", "    fvec4 coupling(-2.7788f, -2.7888f, 2.7888f, 2.7888f);", "C14-R3")
V("C14", "coupling-signs-wrong", GC, "    fvec4 coupling(-2.7888f, -2.7888f, 2.7888f, 2.7888f);", "    fvec4 coupling(-2.7888f, 2.7888f, -2.7888f, 2.7888f);", "C14-R3")
V("C14", "second-store-guarded-by-other-proline", GC, "                        if (e < HBOND_ENERGY_CUTOFF && !is_proline[rj])", "                        if (e < HBOND_ENERGY_CUTOFF && !is_proline[ri])", "C14-R3")
V("C14", "energy-cutoff-minus-one", GC, "    float HBOND_ENERGY_CUTOFF = -0.5;", "    float HBOND_ENERGY_CUTOFF = -1.0;", "C14-R3")
V("C14", "h-bond-length-0.15", GC, "                fvec4 r_h = r_n+norm_r_co*0.1f;", "                fvec4 r_h = r_n+norm_r_co*0.15f;", "C14-R3")
V("C14", "store-energies-keeps-worst", GC, "    else if (isnan(existing_e1) || e < henergies[2*donor+1]) {", "    else if (isnan(existing_e1) || e > henergies[2*donor+1]) {", "C14-R3")
V("C14", "sentinel-guard-removed-again", GC, "            if (pc_index < 0 || po_index < 0) {", "            if (false) {", "C14-R4")
V("C14", "first-residue-unguarded-again", GC, "    if (!skip[0]) {\n        fvec4 r_n(xyz[3*nco_indices[0]], xyz[3*nco_indices[0]+1], xyz[3*nco_indices[0]+2], 0);\n        r_n.store(hcoords);\n    }",
  "    {\n        fvec4 r_n(xyz[3*nco_indices[0]], xyz[3*nco_indices[0]+1], xyz[3*nco_indices[0]+2], 0);\n        r_n.store(hcoords);\n    }", "C14-R4")
V("C14", "bends-lose-skip-guard", "mdtraj/geometry/src/dssp.cpp", "        if (chain_ids[i-2] == chain_ids[i+2] && !skip[i-2] && !skip[i] && !skip[i+2]) {", "        if (chain_ids[i-2] == chain_ids[i+2] && !skip[i-2] && !skip[i]) {", "C14-R4")
V("C14", "twin-deg2rad", HBP, "    angle_cutoff = np.radians(angle_cutoff)\n", "    angle_cutoff = np.deg2rad(angle_cutoff)\n", None)
V("C14", "twin-skip-continue-form", GC, "            if (skip[ri])\n                continue;", "            if (skip[ri] != 0)\n                continue;", None)

# ---------------------------------------------------------------- C13
SPY = "mdtraj/geometry/sasa.py"
V("C13", "selected-groups-not-zeroed", SPY, "        out[:,atom_mapping[atom_indices]]=0\n", "", "C13-R2")
V("C13", "unselected-reported-zero", SPY, "        out = np.full((xyz.shape[0], dim1), -1, dtype=np.float32)", "        out = np.full((xyz.shape[0], dim1), 0, dtype=np.float32)", "C13-R2")
V("C13", "blockers-restricted-to-selection", SA, "            if (i == j)\n                continue;\n", "            if (i == j || atom_selection_mask[j] == 0)\n                continue;\n", "C13-R3")
V("C13", "radii-table-mutated", SPY, "        modified_radii = deepcopy(_ATOMIC_RADII)\n", "        modified_radii = _ATOMIC_RADII\n", "C13-R4")
V("C13", "probe-not-added", SPY, "    radii = np.array(atom_radii, np.float32) + probe_radius", "    radii = np.array(atom_radii, np.float32)", "C13-R4")
V("C13", "area-constant-2pi", SA, "    float constant = 4.0 * M_PI / n_sphere_points;", "    float constant = 2.0 * M_PI / n_sphere_points;", "C13-R4")
V("C13", "area-radius-not-squared", SA, "        areas[i] *= constant * (atom_radii[i])*(atom_radii[i]);", "        areas[i] *= constant * (atom_radii[i]);", "C13-R4")
V("C13", "wrapper-swaps-mapping-and-mask", "mdtraj/geometry/src/_geometry.pyx", "         &atom_outmapping[0], &atom_selection_mask[0], out.shape[1], &out[0,0])", "         &atom_selection_mask[0], &atom_outmapping[0], out.shape[1], &out[0,0])", "C13-R4")
V("C13", "accumulator-not-reset", SA, "    for (int j = 0; j < n_atoms; j++) {\n        outframebuffer[j] = 0;\n    }\n", "", "C13-R1")
V("C13", "twin-mask-by-isin", SPY, "        out[:,atom_mapping[atom_indices]]=0\n", "        out[:, atom_mapping[atom_indices]] = 0\n", None)

# ---------------------------------------------------------------- C15
DCP = "mdtraj/geometry/src/dssp.cpp"
V("C15", "case-helix5-removed", DCP, "                case SS_HELIX_5:     ss='I'; break;\n", "", "C15-R1")
V("C15", "turn-printed-as-H", DCP, "                case SS_TURN:        ss='T'; break;", "                case SS_TURN:        ss='H'; break;", "C15-R1")
V("C15", "translation-T-to-H", "mdtraj/geometry/dssp.py", 'str.maketrans("HGIEBTS ", "HHHEECCC")', 'str.maketrans("HGIEBTS ", "HHHEEHCC")', "C15-R1")
V("C15", "NA-overlay-inverted", "mdtraj/geometry/dssp.py", '    array[:, np.logical_not(protein_indices)] = "NA"', '    array[:, protein_indices] = "NA"', "C15-R1")
V("C15", "protein-mask-ignores-O", "mdtraj/geometry/hbond.py", "        is_protein.append(ca != -1 and n != -1 and c != -1 and o != -1)", "        is_protein.append(ca != -1 and n != -1 and c != -1)", "C15-R1")
V("C15", "bends-lose-skip-i+2", DCP, "        if (chain_ids[i-2] == chain_ids[i+2] && !skip[i-2] && !skip[i] && !skip[i+2]) {", "        if (chain_ids[i-2] == chain_ids[i+2] && !skip[i-2] && !skip[i]) {", "C15-R2")
V("C15", "skip-requires-all-missing", DCP, """        if ((nco_indices[i*3] == -1) || (nco_indices[i*3+1] == -1) ||
             (nco_indices[i*3+2] == -1) || ca_indices[i] == -1) {
             skip[i] = 1;""", """        if ((nco_indices[i*3] == -1) && (nco_indices[i*3+1] == -1) &&
             (nco_indices[i*3+2] == -1) && ca_indices[i] == -1) {
             skip[i] = 1;""", "C15-R2")
V("C15", "bridges-ignore-skip", DCP, "            if (type == BRIDGE_NONE || skip[i] || skip[j]) {", "            if (type == BRIDGE_NONE) {", "C15-R2")
V("C15", "turn-ignores-skip", DCP, "        if (secondary[i] == SS_LOOP && !skip[i]) {", "        if (secondary[i] == SS_LOOP) {", "C15-R2")
V("C15", "bridge-test-loses-chain-check", DCP, "    if (a >= 0 && c < n_residues && chain_ids[a] == chain_ids[c] &&\n        d >= 0 && f < n_residues && chain_ids[d] == chain_ids[f]) {",
  "    if (a >= 0 && c < n_residues && chain_ids[a] == chain_ids[c] &&\n        d >= 0 && f < n_residues) {", "C15-R3")
V("C15", "helix-test-loses-chain-check", DCP, "_test_bond(i+stride, i, hbonds) && (chain_ids[i] == chain_ids[i+stride])) {", "_test_bond(i+stride, i, hbonds)) {", "C15-R3")
V("C15", "twin-case-order", DCP, "                case SS_ALPHAHELIX:  ss='H'; break;\n                case SS_BETABRIDGE:  ss='B'; break;", "                case SS_BETABRIDGE:  ss='B'; break;\n                case SS_ALPHAHELIX:  ss='H'; break;", None)

# ---------------------------------------------------------------- C05
GEOC = "mdtraj/geometry/src/geometry.cpp"
DKH = "mdtraj/geometry/src/kernels/distancekernels.h"
DPY = "mdtraj/geometry/distance.py"
GPYX = "mdtraj/geometry/src/_geometry.pyx"
V("C05", "reference-box-not-transposed", DPY, "            return _distance_mic(xyz, pairs, box.transpose(0, 2, 1), orthogonal)", "            return _distance_mic(xyz, pairs, box, orthogonal)", "C05-R1", "compute_distances_core")
V("C05", "periodic-is-True", DPY, "    if periodic and traj._have_unitcell:\n        box = ensure_type(\n            traj.unitcell_vectors,\n            dtype=np.float32,\n            ndim=3,\n            name=\"unitcell_vectors\",\n            shape=(len(xyz), 3, 3),\n            warn_on_cast=False,\n        )\n        orthogonal = np.allclose(traj.unitcell_angles, 90)\n        if opt:\n            out = np.empty((xyz.shape[0], pairs.shape[0], 3), dtype=np.float32)",
  "    if periodic is True and traj._have_unitcell:\n        box = ensure_type(\n            traj.unitcell_vectors,\n            dtype=np.float32,\n            ndim=3,\n            name=\"unitcell_vectors\",\n            shape=(len(xyz), 3, 3),\n            warn_on_cast=False,\n        )\n        orthogonal = np.allclose(traj.unitcell_angles, 90)\n        if opt:\n            out = np.empty((xyz.shape[0], pairs.shape[0], 3), dtype=np.float32)", "C05-R1", "compute_displacements")
V("C05", "orthogonal-from-lengths", DPY, "        orthogonal = np.allclose(np.array(unitcell_angles), 90)", "        orthogonal = np.allclose(np.array(unitcell_angles), 90, atol=30)", "C05-R1")
V("C05", "wrapper-branches-swapped", GPYX, "    if orthogonal:\n        dist_mic(&xyz[0,0,0], &pairs[0,0], &box_matrix[0,0,0], &out[0,0], NULL, n_frames, n_atoms, n_pairs)\n    else:\n        dist_mic_triclinic(&xyz[0,0,0], &pairs[0,0], &box_matrix[0,0,0], &out[0,0], NULL, n_frames, n_atoms, n_pairs)",
  "    if not orthogonal:\n        dist_mic(&xyz[0,0,0], &pairs[0,0], &box_matrix[0,0,0], &out[0,0], NULL, n_frames, n_atoms, n_pairs)\n    else:\n        dist_mic_triclinic(&xyz[0,0,0], &pairs[0,0], &box_matrix[0,0,0], &out[0,0], NULL, n_frames, n_atoms, n_pairs)", "C05-R1", "_dist_mic")
V("C05", "wrapper-n_atoms-n_pairs-swapped", GPYX, "        dist_mic_triclinic(&xyz[0,0,0], &pairs[0,0], &box_matrix[0,0,0], &out[0,0], NULL, n_frames, n_atoms, n_pairs)", "        dist_mic_triclinic(&xyz[0,0,0], &pairs[0,0], &box_matrix[0,0,0], &out[0,0], NULL, n_frames, n_pairs, n_atoms)", "C05-R5", "_dist_mic")
V("C05", "kernel-sign-flipped", DKH, "            fvec4 r12 = pos2-pos1;\n#ifdef COMPILE_WITH_PERIODIC_BOUNDARY_CONDITIONS\n            r12 -= round(r12*inv_box_size)*box_size;", "            fvec4 r12 = pos1-pos2;\n#ifdef COMPILE_WITH_PERIODIC_BOUNDARY_CONDITIONS\n            r12 -= round(r12*inv_box_size)*box_size;", "C05-R4", count=2)
V("C05", "triclinic_t-z-loop-short", GEOC, """            int offset2 = time_offset2 + pair_offset2;
            fvec4 pos1(xyz[offset1], xyz[offset1+1], xyz[offset1+2], 0);
            fvec4 pos2(xyz[offset2], xyz[offset2+1], xyz[offset2+2], 0);
            fvec4 r12 = pos2-pos1;
            r12 -= box_vec3*round(r12[2]*recip_box_size[2]);
            r12 -= box_vec2*round(r12[1]*recip_box_size[1]);
            r12 -= box_vec1*round(r12[0]*recip_box_size[0]);

            // We need to consider 27 possible periodic copies.

            float min_dist2 = FLT_MAX;
            fvec4 min_r = r12;
            for (int x = -1; x < 2; x++) {
                fvec4 ra = r12 + box_vec1*x;
                for (int y = -1; y < 2; y++) {
                    fvec4 rb = ra + box_vec2*y;
                    for (int z = -1; z < 2; z++) {""", """            int offset2 = time_offset2 + pair_offset2;
            fvec4 pos1(xyz[offset1], xyz[offset1+1], xyz[offset1+2], 0);
            fvec4 pos2(xyz[offset2], xyz[offset2+1], xyz[offset2+2], 0);
            fvec4 r12 = pos2-pos1;
            r12 -= box_vec3*round(r12[2]*recip_box_size[2]);
            r12 -= box_vec2*round(r12[1]*recip_box_size[1]);
            r12 -= box_vec1*round(r12[0]*recip_box_size[0]);

            // We need to consider 27 possible periodic copies.

            float min_dist2 = FLT_MAX;
            fvec4 min_r = r12;
            for (int x = -1; x < 2; x++) {
                fvec4 ra = r12 + box_vec1*x;
                for (int y = -1; y < 2; y++) {
                    fvec4 rb = ra + box_vec2*y;
                    for (int z = -1; z < 1; z++) {""", "C05-R4", "dist_mic_triclinic_t")
V("C05", "triclinic-reduction-dropped", GEOC, "        box_vec3 -= box_vec2*roundf(box_vec3[1]/box_vec2[1]);\n        box_vec3 -= box_vec1*roundf(box_vec3[0]/box_vec1[0]);\n        box_vec2 -= box_vec1*roundf(box_vec2[0]/box_vec1[0]);\n        float recip_box_size[3] = {1.0f/box_vec1[0], 1.0f/box_vec2[1], 1.0f/box_vec3[2]};\n        for (int j = 0; j < n_pairs; j++) {\n            // Compute the displacement.\n\n            int time_offset1",
  "        box_vec3 -= box_vec1*roundf(box_vec3[0]/box_vec1[0]);\n        box_vec2 -= box_vec1*roundf(box_vec2[0]/box_vec1[0]);\n        float recip_box_size[3] = {1.0f/box_vec1[0], 1.0f/box_vec2[1], 1.0f/box_vec3[2]};\n        for (int j = 0; j < n_pairs; j++) {\n            // Compute the displacement.\n\n            int time_offset1", "C05-R4", "dist_mic_triclinic_t")
V("C05", "triclinic-stores-unsearched-displacement", GEOC, "                min_r.store(temp);", "                r12.store(temp);", "C05-R4", count=2)
V("C05", "reference-wrap-order", DPY, "            r12 = xyz[i, b, :] - xyz[i, a, :]\n            r12 -= bv3 * round(r12[2] / bv3[2])\n            r12 -= bv2 * round(r12[1] / bv2[1])\n            r12 -= bv1 * round(r12[0] / bv1[0])\n            dist = np.linalg.norm(r12)",
  "            r12 = xyz[i, b, :] - xyz[i, a, :]\n            r12 -= bv1 * round(r12[0] / bv1[0])\n            r12 -= bv2 * round(r12[1] / bv2[1])\n            r12 -= bv3 * round(r12[2] / bv3[2])\n            dist = np.linalg.norm(r12)", "C05-R4", "_distance_mic")
V("C05", "reference-loop-0-2", DPY, "                for ii in range(-1, 2):\n                    v1 = bv1 * ii\n                    for jj in range(-1, 2):\n                        v12 = bv2 * jj + v1\n                        for kk in range(-1, 2):\n                            new_r12 = r12 + v12 + bv3 * kk\n                            dist = min(dist, np.linalg.norm(new_r12))\n            out[i, j] = dist\n    return out\n\n\ndef _distance_mic_t(",
  "                for ii in range(0, 2):\n                    v1 = bv1 * ii\n                    for jj in range(-1, 2):\n                        v12 = bv2 * jj + v1\n                        for kk in range(-1, 2):\n                            new_r12 = r12 + v12 + bv3 * kk\n                            dist = min(dist, np.linalg.norm(new_r12))\n            out[i, j] = dist\n    return out\n\n\ndef _distance_mic_t(", "C05-R4", "_distance_mic")
V("C05", "twin-selection-strict", GEOC, "                        if (dist2 <= min_dist2) {\n                            min_dist2 = dist2;\n                            min_r = rc;\n                        }\n                    }\n                }\n            }\n\n            // Store results.\n\n            if (store_displacement) {\n                float temp[4];\n                min_r.store(temp);\n                *displacement_out = temp[0];\n                displacement_out++;\n                *displacement_out = temp[1];\n                displacement_out++;\n                *displacement_out = temp[2];\n                displacement_out++;\n            }\n            if (store_distance) {\n                *distance_out = sqrtf(min_dist2);\n                distance_out++;\n            }\n        }\n        // Reset box offset",
  "                        if (dist2 <= min_dist2) {\n                            min_r = rc;\n                            min_dist2 = dist2;\n                        }\n                    }\n                }\n            }\n\n            // Store results.\n\n            if (store_displacement) {\n                float temp[4];\n                min_r.store(temp);\n                *displacement_out = temp[0];\n                displacement_out++;\n                *displacement_out = temp[1];\n                displacement_out++;\n                *displacement_out = temp[2];\n                displacement_out++;\n            }\n            if (store_distance) {\n                *distance_out = sqrtf(min_dist2);\n                distance_out++;\n            }\n        }\n        // Reset box offset", None)
V("C05", "twin-dispatcher-local-rename", DPY, "            return _distance_mic(xyz, pairs, box.transpose(0, 2, 1), orthogonal)", "            res = _distance_mic(xyz, pairs, box.transpose(0, 2, 1), orthogonal)\n            return res", None)

# ---------------------------------------------------------------- C07
APY = "mdtraj/geometry/angle.py"
DHPY = "mdtraj/geometry/dihedral.py"
AKH = "mdtraj/geometry/src/kernels/anglekernels.h"
DHKH = "mdtraj/geometry/src/kernels/dihedralkernels.h"
V("C07", "angles-periodic-is-True", APY, "    if periodic and traj._have_unitcell:", "    if periodic is True and traj._have_unitcell:", "C07-R1", "compute_angles")
V("C07", "angle-reference-ignores-periodic", APY, "        else:\n            _angle(traj, triplets, periodic, out)\n            return out", "        else:\n            _angle(traj, triplets, False, out)\n            return out", "C07-R1")
V("C07", "dihedral-box-not-transposed", DHPY, "                box.transpose(0, 2, 1).copy(),", "                box.copy(),", "C07-R1", "compute_dihedrals")
V("C07", "angle-kernel-vertex-first-atom", AKH, "int pairs[4] = {triplets[3*i+1], triplets[3*i], triplets[3*i+1], triplets[3*i+2]};", "int pairs[4] = {triplets[3*i], triplets[3*i+1], triplets[3*i+1], triplets[3*i+2]};", "C07-R2")
V("C07", "dihedral-kernel-skips-middle", DHKH, "quartets[4*i+1], quartets[4*i+2], quartets[4*i+2], quartets[4*i+3]};", "quartets[4*i+1], quartets[4*i+2], quartets[4*i+1], quartets[4*i+3]};", "C07-R2")
V("C07", "angle-reference-columns", APY, "    ix01 = angle_indices[:, [1, 0]]", "    ix01 = angle_indices[:, [0, 1]]", "C07-R3", "_angle")
V("C07", "angle-reference-result-not-into-out", APY, "    return np.arccos(np.clip((u * v).sum(-1), -1.0, 1.0), out=out)", "    return np.arccos(np.clip((u * v).sum(-1), -1.0, 1.0))", "C07-R3", "_angle")
V("C07", "angle-reference-periodic-dropped", APY, "    v_prime = distance.compute_displacements(traj, ix21, periodic=periodic, opt=False)", "    v_prime = distance.compute_displacements(traj, ix21, opt=False)", "C07-R2", "_angle")
V("C07", "dihedral-reference-atan2-swapped", "mdtraj/geometry/dihedral.py", "    return np.arctan2(p1, p2, out)", "    return np.arctan2(p2, p1, out)", "C07-R3", "_dihedral")
V("C07", "twin-dihedral-reference-b3-from-13", "mdtraj/geometry/dihedral.py", "    ix32 = indices[:, [2, 3]]", "    ix32 = indices[:, [1, 3]]", None)   # b2 x (b2 + b3) = b2 x b3: the same value
V("C07", "dihedral-reference-b3-reversed", "mdtraj/geometry/dihedral.py", "    ix32 = indices[:, [2, 3]]", "    ix32 = indices[:, [3, 2]]", "C07-R3", "_dihedral")
V("C07", "twin-dihedral-reference-comprehension", "mdtraj/geometry/dihedral.py", "    ix10 = indices[:, [0, 1]]\n    ix21 = indices[:, [1, 2]]\n    ix32 = indices[:, [2, 3]]\n", "    ix10, ix21, ix32 = [indices[:, [k, k + 1]] for k in range(3)]\n", None)
V("C07", "twin-angle-reference-dot-then-normalise", APY, "    return np.arccos(np.clip((u * v).sum(-1), -1.0, 1.0), out=out)", "    cosine = (u_prime * v_prime).sum(-1) / (u_norm * v_norm)\n    return np.arccos(np.clip(cosine, -1.0, 1.0), out=out)", None)
V("C07", "angle-upper-clamp-dropped", AKH, "            if (cosine > 1.0f) {\n               cosine = 1.0f;\n            }\n", "", "C07-R3")
V("C07", "angle-clamp-after-acos", AKH, "            if (cosine < -1.0f) {\n                cosine = -1.0f;\n            }\n            if (cosine > 1.0f) {\n               cosine = 1.0f;\n            }\n            float angle = (float) acos(cosine);",
  "            float angle = (float) acos(cosine);\n            if (cosine < -1.0f) {\n                cosine = -1.0f;\n            }\n            if (cosine > 1.0f) {\n               cosine = 1.0f;\n            }", "C07-R3")
V("C07", "reference-clip-dropped", APY, "np.arccos(np.clip((u * v).sum(-1), -1.0, 1.0), out=out)", "np.arccos((u * v).sum(-1), out=out)", "C07-R3")
V("C07", "dihedral-atan2-args-swapped", DHKH, "atan2f(p1, p2);", "atan2f(p2, p1);", "C07-R3")
V("C07", "dihedral-missing-b2-norm", DHKH, "float p1 = dot3(v1, c1)*distances[3*j+1];", "float p1 = dot3(v1, c1);", "C07-R3")
V("C07", "dihedral-reference-cross-order", DHPY, "    c2 = np.cross(b1, b2)", "    c2 = np.cross(b2, b1)", "C07-R3")
V("C07", "phi-uses-next-C", DHPY, 'PHI_ATOMS = ["-C", "N", "CA", "C"]', 'PHI_ATOMS = ["C", "N", "CA", "+C"]', "C07-R4")
V("C07", "omega-missing-offset", DHPY, 'OMEGA_ATOMS = ["CA", "C", "+N", "+CA"]', 'OMEGA_ATOMS = ["CA", "C", "+N", "CA"]', "C07-R4")
V("C07", "chi2-ile-uses-CG2", DHPY, '    ["CA", "CB", "CG1", "CD1"],', '    ["CA", "CB", "CG2", "CD1"],', "C07-R4")
V("C07", "chi3-row-shifted", DHPY, '    ["CB", "CG", "SD", "CE"],\n]', '    ["CA", "CG", "SD", "CE"],\n]', "C07-R4")
V("C07", "parse-offset-plus-is-minus", DHPY, "        elif atom[0] == \"+\":\n            offsets.append(+1)", "        elif atom[0] == \"+\":\n            offsets.append(-1)", "C07-R4")
V("C07", "indices_psi-uses-phi-table", DHPY, "    return _atom_sequence(top, PSI_ATOMS)[1]", "    return _atom_sequence(top, PHI_ATOMS)[1]", "C07-R4")
V("C07", "compute_chi2-drops-periodic", DHPY, "    indices = indices_chi2(traj.topology)\n    if len(indices) == 0:\n        return indices, np.empty(shape=(len(traj), 0), dtype=np.float32)\n    all_chi = compute_dihedrals(traj, indices, periodic=periodic, opt=opt)", "    indices = indices_chi2(traj.topology)\n    if len(indices) == 0:\n        return indices, np.empty(shape=(len(traj), 0), dtype=np.float32)\n    all_chi = compute_dihedrals(traj, indices, opt=opt)", "C07-R4")
V("C07", "atom-lookup-ignores-offset", DHPY, "[atom_dict[cid][rid + offset][atom] for atom, offset in atoms_and_offsets],", "[atom_dict[cid][rid][atom] for atom, offset in atoms_and_offsets],", "C07-R4")
V("C07", "twin-chi-row-order", DHPY, '    ["N", "CA", "CB", "CG"],\n    ["N", "CA", "CB", "CG1"],', '    ["N", "CA", "CB", "CG1"],\n    ["N", "CA", "CB", "CG"],', None)
V("C07", "twin-clamp-order", AKH, "            if (cosine < -1.0f) {\n                cosine = -1.0f;\n            }\n            if (cosine > 1.0f) {\n               cosine = 1.0f;\n            }", "            if (cosine > 1.0f) {\n               cosine = 1.0f;\n            }\n            if (cosine < -1.0f) {\n                cosine = -1.0f;\n            }", None)

# ---------------------------------------------------------------- C06
RPYX = "mdtraj/rmsd/_rmsd.pyx"
THC = "mdtraj/rmsd/src/theobald_rmsd.cpp"
THS = "mdtraj/rmsd/src/theobald_rmsd_sse.h"
ROTS = "mdtraj/rmsd/src/rotation_sse.h"
CENS = "mdtraj/rmsd/src/center_sse.h"
TRJ = "mdtraj/core/trajectory.py"
V("C06", "serial-branch-no-sqrt", RPYX, """    else:
        for i in range(target_n_frames):
            msd = msd_atom_major(n_atoms, n_atoms, &target_xyz[i, 0, 0], &ref_xyz_frame[0, 0], target_g[i], ref_g, 0, NULL)
            distances[i] = sqrtf(msd)""", """    else:
        for i in range(target_n_frames):
            msd = msd_atom_major(n_atoms, n_atoms, &target_xyz[i, 0, 0], &ref_xyz_frame[0, 0], target_g[i], ref_g, 0, NULL)
            distances[i] = msd""", "C06-R1", "rmsd")
V("C06", "rmsf-serial-average-misses-z", RPYX, """        for i in range(target_n_frames):
            for j in range(n_atoms):
                avg_xyz_frame[j, 0] += target_displaced_xyz[i, j, 0] / target_n_frames
                avg_xyz_frame[j, 1] += target_displaced_xyz[i, j, 1] / target_n_frames
                avg_xyz_frame[j, 2] += target_displaced_xyz[i, j, 2] / target_n_frames""", """        for i in range(target_n_frames):
            for j in range(n_atoms):
                avg_xyz_frame[j, 0] += target_displaced_xyz[i, j, 0] / target_n_frames
                avg_xyz_frame[j, 1] += target_displaced_xyz[i, j, 1] / target_n_frames
                avg_xyz_frame[j, 2] += target_displaced_xyz[i, j, 1] / target_n_frames""", "C06-R1", "rmsf")
V("C06", "superpose-displaced-not-centred", TRJ, """        if self_align_xyz.ctypes.data != self_displace_xyz.ctypes.data:
            # when atom_indices is None, these two arrays alias the same memory
            # so we only need to do the centering once
            self_displace_xyz -= offset
""", "", "C06-R2")
V("C06", "superpose-ref-offset-not-restored", TRJ, "        self_displace_xyz += ref_offset\n", "", "C06-R2")
V("C06", "superpose-float32-offset", TRJ, "offset = np.mean(self_align_xyz, axis=1, dtype=np.float64).reshape(", "offset = np.mean(self_align_xyz, axis=1).reshape(", "C06-R2")
V("C06", "superpose-traces-before-centring", TRJ, None, None, "C06-R2", edits=[("""        self_align_xyz -= offset
        if self_align_xyz.ctypes.data != self_displace_xyz.ctypes.data:""", """        self_g = np.einsum("ijk,ijk->i", self_align_xyz, self_align_xyz)
        self_align_xyz -= offset
        if self_align_xyz.ctypes.data != self_displace_xyz.ctypes.data:"""), ("""        self_g = np.einsum("ijk,ijk->i", self_align_xyz, self_align_xyz)
        ref_g =""", """        ref_g =""")])
V("C06", "twin-superpose-dead-early-trace", TRJ, """        self_align_xyz -= offset
        if self_align_xyz.ctypes.data != self_displace_xyz.ctypes.data:""", """        self_g = np.einsum("ijk,ijk->i", self_align_xyz, self_align_xyz)
        self_align_xyz -= offset
        if self_align_xyz.ctypes.data != self_displace_xyz.ctypes.data:""", None)
V("C06", "traces-used-with-atom-selection", RPYX, "    if precentered and (reference._rmsd_traces is not None) and (target._rmsd_traces is not None) and atom_indices_is_none:\n        target_g = np.asarray(target._rmsd_traces, order='C', dtype=np.float32)\n        ref_g = reference._rmsd_traces[frame]\n    else:\n        if precentered:\n            warnings.warn(\n                'in rmsd(), precentered is ignored when atom_indices != None',\n                RuntimeWarning)\n        target_g = np.empty(target_n_frames, dtype=np.float32)\n        inplace_center_and_trace_atom_major(&target_xyz[0,0,0], &target_g[0], target_n_frames, n_atoms)\n        inplace_center_and_trace_atom_major(&ref_xyz_frame[0, 0], &ref_g, 1, n_atoms)\n\n    # t1 = time.time()\n\n    cdef float[:] distances",
  "    if precentered and (reference._rmsd_traces is not None) and (target._rmsd_traces is not None):\n        target_g = np.asarray(target._rmsd_traces, order='C', dtype=np.float32)\n        ref_g = reference._rmsd_traces[frame]\n    else:\n        if precentered:\n            warnings.warn(\n                'in rmsd(), precentered is ignored when atom_indices != None',\n                RuntimeWarning)\n        target_g = np.empty(target_n_frames, dtype=np.float32)\n        inplace_center_and_trace_atom_major(&target_xyz[0,0,0], &target_g[0], target_n_frames, n_atoms)\n        inplace_center_and_trace_atom_major(&ref_xyz_frame[0, 0], &ref_g, 1, n_atoms)\n\n    # t1 = time.time()\n\n    cdef float[:] distances", "C06-R3", "rmsd")
V("C06", "K-entry-sign", THC, "    float k01 =  M[1+2*m ] - M[2+1*m];", "    float k01 =  M[2+1*m ] - M[1+2*m];", "C06-R4")
V("C06", "C1-sign", THC, "    C_1 = -8.0f * detM;", "    C_1 = 8.0f * detM;", "C06-R4")
V("C06", "msd-forgets-factor-two", THC, "    rmsd2 = (G_x + G_y - 2.0f * lambda) / numAtoms;", "    rmsd2 = (G_x + G_y - lambda) / numAtoms;", "C06-R4")
V("C06", "rotation-transposed", THC, "            rot[3] = 2 * (xy + az);\n            rot[6] = 2 * (zx - ay);\n            rot[1] = 2 * (xy - az);", "            rot[3] = 2 * (xy - az);\n            rot[6] = 2 * (zx - ay);\n            rot[1] = 2 * (xy + az);", "C06-R4")
V("C06", "rotation-entry-sign", THC, "            rot[8] = a2 - x2 - y2 + z2;", "            rot[8] = a2 - x2 + y2 - z2;", "C06-R4")
V("C06", "eigenvalue-skips-fourth-root", THC, "    result=max(result,r4);\n", "", "C06-R4", "DirectSolve")
V("C06", "cofactor-wrong-minor", THC, "        q1 = -k01*k2233_2323 + k12*k0233_0323 - k13*k0223_0322;", "        q1 = -k01*k2233_2323 + k12*k0233_0323 - k13*k0213_0312;", "C06-R4")
V("C06", "clamp-removed", THC, "    if (rmsd2 > 0.0f) ls_rmsd2 = rmsd2;", "    ls_rmsd2 = rmsd2;", "C06-R4")
V("C06", "sse-mask-row-two", THS, """    static const int masks[4][4] = {
        {1, 1, 1, 1},
        {1, 0, 0, 0},
        {1, 1, 0, 0},
        {1, 1, 1, 0}
    };
    int const *mask;
#endif
    /* Will have 3 garbage elements at the end */
    _ALIGNED(16) float M[12];
    __m128 xx,xy,xz,yx,yy,yz,zx,zy,zz;
    __m128 ax,ay,az,bx,by,bz;""", """    static const int masks[4][4] = {
        {1, 1, 1, 1},
        {1, 0, 0, 0},
        {1, 0, 0, 0},
        {1, 1, 1, 0}
    };
    int const *mask;
#endif
    /* Will have 3 garbage elements at the end */
    _ALIGNED(16) float M[12];
    __m128 xx,xy,xz,yx,yy,yz,zx,zy,zz;
    __m128 ax,ay,az,bx,by,bz;""", "C06-R5", "msd_atom_major")
V("C06", "sse-product-wrong-component", THS, """        t0 = _mm_mul_ps(t0,ax);
        t1 = _mm_mul_ps(t1,ax);
        t2 = _mm_mul_ps(t2,ax);
        xx = _mm_add_ps(xx,t0);
        xy = _mm_add_ps(xy,t1);
        xz = _mm_add_ps(xz,t2);

        t0 = bx;
        t1 = by;
        t2 = bz;
        t0 = _mm_mul_ps(t0,ay);
        t1 = _mm_mul_ps(t1,ay);
        t2 = _mm_mul_ps(t2,ay);
        yx = _mm_add_ps(yx,t0);
        yy = _mm_add_ps(yy,t1);
        yz = _mm_add_ps(yz,t2);

        bx = _mm_mul_ps(bx,az);
        by = _mm_mul_ps(by,az);
        bz = _mm_mul_ps(bz,az);
        zx = _mm_add_ps(zx,bx);
        zy = _mm_add_ps(zy,by);
        zz = _mm_add_ps(zz,bz);

        a += 12;
        b += 12;""", """        t0 = _mm_mul_ps(t0,ax);
        t1 = _mm_mul_ps(t1,ax);
        t2 = _mm_mul_ps(t2,ax);
        xx = _mm_add_ps(xx,t0);
        xy = _mm_add_ps(xy,t1);
        xz = _mm_add_ps(xz,t2);

        t0 = bx;
        t1 = by;
        t2 = bz;
        t0 = _mm_mul_ps(t0,ay);
        t1 = _mm_mul_ps(t1,ay);
        t2 = _mm_mul_ps(t2,ay);
        yx = _mm_add_ps(yx,t0);
        yy = _mm_add_ps(yy,t2);
        yz = _mm_add_ps(yz,t1);

        bx = _mm_mul_ps(bx,az);
        by = _mm_mul_ps(by,az);
        bz = _mm_mul_ps(bz,az);
        zx = _mm_add_ps(zx,bx);
        zy = _mm_add_ps(zy,by);
        zz = _mm_add_ps(zz,bz);

        a += 12;
        b += 12;""", "C06-R5", "msd_atom_major")
V("C06", "rotation-tail-wrong-column", ROTS, "        a[3*k + 1] = x*rot[1] + y*rot[4] + z*rot[7];", "        a[3*k + 1] = x*rot[3] + y*rot[4] + z*rot[5];", "C06-R5", "rot_atom_major")
V("C06", "rotation-vector-transposed", ROTS, """        tx = _mm_add3_ps(_mm_mul_ps(ax, rXX), _mm_mul_ps(ay, rYX), _mm_mul_ps(az, rZX));
        ty = _mm_add3_ps(_mm_mul_ps(ax, rXY), _mm_mul_ps(ay, rYY), _mm_mul_ps(az, rZY));
        tz = _mm_add3_ps(_mm_mul_ps(ax, rXZ), _mm_mul_ps(ay, rYZ), _mm_mul_ps(az, rZZ));

#ifdef ALIGNED
        aos_interleaved_store(a, tx, ty, tz);""", """        tx = _mm_add3_ps(_mm_mul_ps(ax, rXX), _mm_mul_ps(ay, rXY), _mm_mul_ps(az, rXZ));
        ty = _mm_add3_ps(_mm_mul_ps(ax, rYX), _mm_mul_ps(ay, rYY), _mm_mul_ps(az, rYZ));
        tz = _mm_add3_ps(_mm_mul_ps(ax, rZX), _mm_mul_ps(ay, rZY), _mm_mul_ps(az, rZZ));

#ifdef ALIGNED
        aos_interleaved_store(a, tx, ty, tz);""", "C06-R5", "rot_atom_major")
V("C06", "centre-tail-wrong-mean", CENS, "            confp[i*3 + 2] -= szf;", "            confp[i*3 + 2] -= syf;", "C06-R5")
V("C06", "centre-mean-over-vector-blocks-only", CENS, "        sx[0] /= n_atoms;", "        sx[0] /= (n_atoms/4)*4;", "C06-R5")
V("C06", "rmsf-rotation-of-frame-zero", RPYX, """            for i in prange(target_n_frames, nogil=True):
                msd_atom_major(n_atoms, n_atoms, &target_xyz[i, 0, 0], &ref_xyz_frame[0, 0], ref_g, target_g[i], 1, &rot[i, 0, 0])
                rot_atom_major(n_atoms, &target_displaced_xyz[i, 0, 0], &rot[i, 0, 0])
        else:
            for i in range(target_n_frames):
                msd_atom_major(n_atoms, n_atoms, &target_xyz[i, 0, 0], &ref_xyz_frame[0, 0], ref_g, target_g[i], 1, &rot[i, 0, 0])
                rot_atom_major(n_atoms, &target_displaced_xyz[i, 0, 0], &rot[i, 0, 0])""", """            for i in prange(target_n_frames, nogil=True):
                msd_atom_major(n_atoms, n_atoms, &target_xyz[i, 0, 0], &ref_xyz_frame[0, 0], ref_g, target_g[i], 1, &rot[i, 0, 0])
                rot_atom_major(n_atoms, &target_displaced_xyz[i, 0, 0], &rot[0, 0, 0])
        else:
            for i in range(target_n_frames):
                msd_atom_major(n_atoms, n_atoms, &target_xyz[i, 0, 0], &ref_xyz_frame[0, 0], ref_g, target_g[i], 1, &rot[i, 0, 0])
                rot_atom_major(n_atoms, &target_displaced_xyz[i, 0, 0], &rot[0, 0, 0])""", "C06-R6", "rmsf")
V("C06", "superpose-kernel-rotates-target", RPYX, """    if parallel == True:
        for i in prange(n_frames, nogil=True):
            msd_atom_major(n_atoms_align, n_atoms_align, &xyz_align_mobile[i, 0, 0],
                           &xyz_align_target[target_frame, 0, 0],
                           g_target[target_frame], g_mobile[i], 1, &rot[i, 0, 0])
            rot_atom_major(n_atoms_displace, &xyz_displace_mobile[i, 0, 0], &rot[i, 0, 0])
    else:
        for i in range(n_frames):
            msd_atom_major(n_atoms_align, n_atoms_align, &xyz_align_mobile[i, 0, 0],
                           &xyz_align_target[target_frame, 0, 0],
                           g_target[target_frame], g_mobile[i], 1, &rot[i, 0, 0])""", """    if parallel == True:
        for i in prange(n_frames, nogil=True):
            msd_atom_major(n_atoms_align, n_atoms_align, &xyz_align_target[target_frame, 0, 0],
                           &xyz_align_mobile[i, 0, 0],
                           g_target[target_frame], g_mobile[i], 1, &rot[i, 0, 0])
            rot_atom_major(n_atoms_displace, &xyz_displace_mobile[i, 0, 0], &rot[i, 0, 0])
    else:
        for i in range(n_frames):
            msd_atom_major(n_atoms_align, n_atoms_align, &xyz_align_target[target_frame, 0, 0],
                           &xyz_align_mobile[i, 0, 0],
                           g_target[target_frame], g_mobile[i], 1, &rot[i, 0, 0])""", "C06-R6", "superpose_atom_major")
V("C06", "twin-msd-formula-reordered", THC, "    rmsd2 = (G_x + G_y - 2.0f * lambda) / numAtoms;", "    rmsd2 = (G_y - lambda * 2.0f + G_x) / numAtoms;", None)
V("C06", "twin-cofactor-terms-reordered", THC, "        q0 =  k11*k2233_2323 - k12*k1233_1323 + k13*k1223_1322;", "        q0 =  k13*k1223_1322 + k11*k2233_2323 - k1233_1323*k12;", None)
V("C06", "twin-detM-sarrus", THC, """    detM = M[0] * (M[4] * M[8] - M[5] * M[7])
           + M[3] * (M[7] * M[2] - M[8] * M[1])
           + M[6] * (M[1] * M[5] - M[2] * M[4]);""", """    detM = M[0]*M[4]*M[8] + M[3]*M[7]*M[2] + M[6]*M[1]*M[5]
           - M[6]*M[4]*M[2] - M[3]*M[1]*M[8] - M[0]*M[7]*M[5];""", None)
V("C06", "twin-superpose-trace-order", TRJ, """        self_g = np.einsum("ijk,ijk->i", self_align_xyz, self_align_xyz)
        ref_g = np.einsum("ijk,ijk->i", ref_align_xyz, ref_align_xyz)""", """        ref_g = np.einsum("ijk,ijk->i", ref_align_xyz, ref_align_xyz)
        self_g = np.einsum("ijk,ijk->i", self_align_xyz, self_align_xyz)""", None)

# ---------------------------------------------------------------- C10
NBC = "mdtraj/geometry/src/neighbors.cpp"
NLC = "mdtraj/geometry/src/neighborlist.cpp"
NBPYX = "mdtraj/geometry/neighbors.pyx"
NLPYX = "mdtraj/geometry/neighborlist.pyx"
V("C10", "neighbors-no-break", NBC, "                result.push_back(i);\n                break;", "                result.push_back(i);", "C10-R1")
V("C10", "neighbors-self-not-skipped", NBC, "            if (i == j)\n                continue;\n", "", "C10-R1")
V("C10", "neighbors-cutoff-not-squared", NBC, "    float cutoff2 = cutoff*cutoff;", "    float cutoff2 = cutoff;", "C10-R1")
V("C10", "neighbors-nonstrict", NBC, "            if (dist2 < cutoff2) {", "            if (dist2 <= cutoff2) {", "C10-R1")
V("C10", "neighbors-records-query-atom", NBC, "                result.push_back(i);", "                result.push_back(j);", "C10-R1")
V("C10", "neighbors-loops-swapped", NBC, "    for (hit = haystack_indices.begin(); hit != haystack_indices.end(); ++hit) {", "    for (hit = query_indices.begin(); hit != query_indices.end(); ++hit) {", "C10-R1")
V("C10", "neighbors-wrap-on-position", NBC, "            fvec4 delta = pos1-pos2;\n            if (triclinic) {", "            fvec4 delta = pos1;\n            if (triclinic) {", "C10-R1")
V("C10", "neighbors-triclinic-ignores-entry", NBC, "box_matrix[3] != 0 || box_matrix[5] != 0", "box_matrix[5] != 0", "C10-R1")
V("C10", "neighborlist-collects-both-directions", NLC, "                        if (index >= atomIndex)\n                            continue;\n", "                        if (index == atomIndex)\n                            continue;\n", "C10-R2")
V("C10", "neighborlist-no-completion", NLC, "            neighbors[neighbors[i][j]].push_back(i);", "            neighbors[i].push_back(neighbors[i][j]);", "C10-R2")
V("C10", "neighborlist-cutoff-linear", NLC, "        float maxDistanceSquared = maxDistance * maxDistance;", "        float maxDistanceSquared = maxDistance;", "C10-R2")
V("C10", "neighborlist-wrap-removed", NLC, "        atomLocations = &wrappedLocations[0];\n", "", "C10-R3")
V("C10", "neighborlist-wrap-x-only", NLC, "            for (int k = 2; k >= 0; k--) {", "            for (int k = 0; k >= 0; k--) {", "C10-R3")
V("C10", "neighborlist-wrap-by-round", NLC, "                float scale = floorf(pos[k]/periodicBoxVectors[k][k]);", "                float scale = roundf(pos[k]/periodicBoxVectors[k][k]);", "C10-R3")
V("C10", "neighbors-pyx-box-of-frame-zero", NBPYX, "            box_matrix_pointer = &box_matrix[i,0,0]", "            box_matrix_pointer = &box_matrix[0,0,0]", "C10-R4")
V("C10", "neighbors-pyx-query-haystack-swapped", NBPYX, "            &xyz[i,0,0], traj.xyz.shape[1], cutoff, query_indices_,\n            haystack_indices_, box_matrix_pointer)", "            &xyz[i,0,0], traj.xyz.shape[1], cutoff, haystack_indices_,\n            query_indices_, box_matrix_pointer)", "C10-R4")
V("C10", "neighbors-pyx-periodic-ignored", NBPYX, "    cdef int is_periodic = periodic and (traj.unitcell_vectors is not None)", "    cdef int is_periodic = (traj.unitcell_vectors is not None)", "C10-R4", "compute_neighbors")
V("C10", "neighborlist-pyx-box-of-frame-zero", NLPYX, "        unitcell_vectors = ensure_type(traj.unitcell_vectors[frame],", "        unitcell_vectors = ensure_type(traj.unitcell_vectors[0],", "C10-R4")
V("C10", "twin-neighbors-postincrement", NBC, "        for (qit = query_indices.begin(); qit != query_indices.end(); ++qit) {", "        for (qit = query_indices.begin(); qit != query_indices.end(); qit++) {", None)

# ---------------------------------------------------------------- C09
V("C09", "rg-not-centred", "mdtraj/geometry/rg.py", "    centered = (xyz.transpose((1, 0, 2)) - mu).transpose((1, 0, 2))", "    centered = xyz", "C09-R2", "_compute_rg_xyz")
V("C09", "gyration-tensor-not-centred", "mdtraj/geometry/shape.py", "    xyz = traj.xyz - center_of_geom\n    return np.einsum", "    xyz = traj.xyz\n    return np.einsum", "C09-R2", "compute_gyration_tensor")
V("C09", "reference-distance-of-positions", DPY, "    delta = np.diff(xyz[:, pairs], axis=2)[:, :, 0]\n    return (delta**2.0).sum(-1) ** 0.5", "    delta = xyz[:, pairs[:, 1]]\n    return (delta**2.0).sum(-1) ** 0.5", "C09-R2", "_distance")
V("C09", "reference-wrap-on-position", DPY, "            r12 = xyz[i, b, :] - xyz[i, a, :]\n            r12 -= bv3 * round(r12[2] / bv3[2])\n            r12 -= bv2 * round(r12[1] / bv2[1])\n            r12 -= bv1 * round(r12[0] / bv1[0])\n            dist = np.linalg.norm(r12)",
  "            pb = xyz[i, b, :] - bv3 * round(xyz[i, b, 2] / bv3[2])\n            r12 = pb - xyz[i, a, :]\n            r12 -= bv2 * round(r12[1] / bv2[1])\n            r12 -= bv1 * round(r12[0] / bv1[0])\n            dist = np.linalg.norm(r12)", "C09-R2", "_distance_mic")
V("C09", "kernel-wrap-on-position", DKH, "            fvec4 r12 = pos2-pos1;\n#ifdef COMPILE_WITH_PERIODIC_BOUNDARY_CONDITIONS\n            r12 -= round(r12*inv_box_size)*box_size;",
  "#ifdef COMPILE_WITH_PERIODIC_BOUNDARY_CONDITIONS\n            pos2 -= round(pos2*inv_box_size)*box_size;\n#endif\n            fvec4 r12 = pos2-pos1;\n#ifdef COMPILE_WITH_PERIODIC_BOUNDARY_CONDITIONS\n            r12 -= round(r12*inv_box_size)*box_size;", "C09-R1", count=2)
V("C09", "drid-distance-from-origin", "mdtraj/geometry/src/dridkernels.cpp", "        fvec4 r = x-y;", "        fvec4 r = y;", "C09-R1", "drid_moments")
V("C09", "bend-angle-from-positions", DCP, "            fvec4 v_prime = this_ca-next_ca;", "            fvec4 v_prime = next_ca;", "C09-R1", "calculate_bends")
V("C09", "sasa-blocker-distance-from-origin", SA, "            fvec4 r_ij = r_i-r_j;", "            fvec4 r_ij = r_j;", "C09-R1", "asa_frame")
V("C09", "sasa-point-test-absolute", SA, "                fvec4 r_jk = r_j-fvec4(frame[3*index], frame[3*index+1], frame[3*index+2], 0);", "                fvec4 r_jk = r_j;", "C09-R1", "asa_frame")
V("C09", "neighbors-absolute-cutoff-test", NBC, "            fvec4 delta = pos1-pos2;\n            if (triclinic) {", "            fvec4 delta = pos1-pos2;\n            if (pos1[0] > cutoff) continue;\n            if (triclinic) {", "C09-R1", "_compute_neighbors")
V("C09", "ks-energy-uses-position", GEOC, "    fvec4 r_ho = r_h-r_o;", "    fvec4 r_ho = r_h;", "C09-R1", "ks_donor_acceptor")
V("C09", "closest-contact-absolute", GEOC, "            fvec4 delta = pos1-pos2;", "            fvec4 delta = pos1;", "C09-R1", "find_closest_contact")
V("C09", "twin-rg-centre-by-broadcast", "mdtraj/geometry/rg.py", "    centered = (xyz.transpose((1, 0, 2)) - mu).transpose((1, 0, 2))", "    centered = xyz - mu[:, None, :]", None)
V("C09", "twin-drid-difference-reversed", "mdtraj/geometry/src/dridkernels.cpp", "        fvec4 r = x-y;", "        fvec4 r = y-x;", None)

# ---------------------------------------------------------------- rules added after the sub-agent changes
SELF = "mdtraj/core/selection.py"
V("C12", "chain-check-first-two-operands", SELF, "            if any(isinstance(c, Literal) for c in self.comparators):", "            if any(isinstance(c, Literal) for c in self.comparators[:2]):", "C12-R8")
V("C12", "literal-by-slicing", SELF, '        return ast.parse(self.token, mode="eval").body', '        return ast.Constant(value=self.token[1:-1]) if self.token[0] in "\'\\"" else ast.parse(self.token, mode="eval").body', "C12-R8")
V("C12", "twin-literal-parse-positional", SELF, '        return ast.parse(self.token, mode="eval").body', '        return ast.parse(self.token, "<string>", "eval").body', None)
V("C13", "sphere-azimuth-off-by-one", SA, "    phi = i * inc;", "    phi = (i + 1) * inc;", "C13-R5")
V("C13", "sphere-ring-radius", SA, "    r = sqrt(1.0 - y*y);", "    r = sqrt(1.0 - y);", "C13-R5")
V("C13", "twin-sphere-level-refactored", SA, "    y = i * offset - 1.0 + (offset / 2.0);", "    y = (2 * i + 1) * (offset / 2.0) - 1.0;", None)
V("C14", "twin-fallback-guard-operands-swapped", GEOC, "            if (pc_index < 0 || po_index < 0) {", "            if (po_index < 0 || pc_index < 0) {", None)
V("C14", "fallback-guard-only-carbon", GEOC, "            if (pc_index < 0 || po_index < 0) {", "            if (pc_index < 0) {", "C14-R3")
V("C15", "parallel-bulge-threshold", DCP, "bulge = (jbj > jbi) && ((jbj - jei < 6 && ibj - iei < 3) || (jbj - jei < 3));", "bulge = (jbj > jbi) && ((jbj - jei < 5 && ibj - iei < 3) || (jbj - jei < 3));", "C15-R4")
V("C11", "twin-adjacency-order", "mdtraj/core/topology.py", "            atom_bonds[atom1.index].append(atom2.index)\n            atom_bonds[atom2.index].append(atom1.index)", "            atom_bonds[atom2.index].append(atom1.index)\n            atom_bonds[atom1.index].append(atom2.index)", None)
V("C11", "adjacency-one-direction", "mdtraj/core/topology.py", "            atom_bonds[atom1.index].append(atom2.index)\n            atom_bonds[atom2.index].append(atom1.index)", "            atom_bonds[atom1.index].append(atom2.index)", "C11-R5")
LMPF = "mdtraj/formats/lammpstrj.py"
V("C01", "lammps-reader-drops-yz", LMPF, "            ylo = box[1, 0] - np.min([0.0, yz])", "            ylo = box[1, 0]", "C01-R7")
V("C01", "twin-lammps-offset-order", LMPF, "            xlo_bound = xlo + np.min([0.0, xy, xz, xy + xz])", "            xlo_bound = xlo + np.min([0.0, xz, xy + xz, xy])", None)
V("C17", "lammps-writer-max-without-sum", LMPF, "            xhi_bound = xhi + np.max([0.0, xy, xz, xy + xz])", "            xhi_bound = xhi + np.max([0.0, xy, xz])", "C17-R6")
V("C01", "gro-time-two-decimals", "mdtraj/formats/gro.py", '            comment += ", t= %s" % time', '            comment += ", t= %.2f" % time', "C01-R7")
V("C01", "twin-gro-time-format-call", "mdtraj/formats/gro.py", '            comment += ", t= %s" % time', '            comment += ", t= {}".format(time)', None)
V("C08", "hydrogen-store-only-when-oriented", GEOC, "                r_n.store(hcoords);\n            } else {", "            } else {", "C08-R4")
V("C05", "contacts-ignore-periodic", "mdtraj/geometry/contact.py", "periodic=periodic", "periodic=True", "C05-R6", count=2)
UCF = "mdtraj/utils/unitcell.py"
V("C17", "cy-without-sin-gamma", UCF, "    cy = c_length * (np.cos(alpha) - np.cos(beta) * np.cos(gamma)) / np.sin(gamma)", "    cy = c_length * (np.cos(alpha) - np.cos(beta) * np.cos(gamma))", "C17-R7")
V("C17", "cz-forgets-cy", UCF, "    cz = np.sqrt(c_length * c_length - cx * cx - cy * cy)", "    cz = np.sqrt(c_length * c_length - cx * cx)", "C17-R7")
V("C17", "inverse-beta-wrong-norm", UCF, 'beta = np.arccos(np.einsum("...i, ...i", c, a) / (c_length * a_length), casting=\'safe\')', 'beta = np.arccos(np.einsum("...i, ...i", c, a) / (c_length * b_length), casting=\'safe\')', "C17-R7")
V("C17", "tilt-yz-sign", UCF, "    yz = (b_length * c_length * np.cos(np.deg2rad(alpha)) - xy * xz) / ly", "    yz = (b_length * c_length * np.cos(np.deg2rad(alpha)) + xy * xz) / ly", "C17-R7")
V("C17", "lammps-reader-alpha-sign", LMPF, "            alpha = np.arccos((xy * xz + ly * yz) / (b * c))", "            alpha = np.arccos((xy * xz - ly * yz) / (b * c))", "C17-R7")
V("C17", "lammps-writer-ly-from-c", LMPF, "            ly = np.sqrt(b**2 - xy**2)", "            ly = np.sqrt(b**2 - xz**2)", "C17-R7")
V("C17", "twin-cz-powers", UCF, "    cz = np.sqrt(c_length * c_length - cx * cx - cy * cy)", "    cz = np.sqrt(c_length**2 - cx**2 - cy**2)", None)
V("C17", "twin-cy-factored", UCF, "    cy = c_length * (np.cos(alpha) - np.cos(beta) * np.cos(gamma)) / np.sin(gamma)", "    cy = (c_length * np.cos(alpha) - cx * np.cos(gamma)) / np.sin(gamma)", None)
V("C07", "twin-atom-dict-comprehension", DHPY, "            local_dict = {}\n            for atom in residue.atoms:\n                local_dict[atom.name] = atom.index\n            residue_dict[residue.index] = local_dict", "            residue_dict[residue.index] = {atom.name: atom.index for atom in residue.atoms}", None)
V("C07", "atom-dict-shared-residue-level", DHPY, "        for residue in chain.residues:\n            local_dict = {}", "        local_dict = {}\n        for residue in chain.residues:", "C07-R4")
V("C07", "dihedral-orthogonal-from-last-frame", DHPY, "            orthogonal = np.allclose(traj.unitcell_angles, 90)", "            orthogonal = np.allclose(traj.unitcell_angles[-1], 90)", "C07-R1")

# ---------------------------------------------------------------- C16
MOMC = "mdtraj/geometry/src/moments.cpp"
DRC = "mdtraj/geometry/src/dridkernels.cpp"
SHP = "mdtraj/geometry/shape.py"
CTC = "mdtraj/geometry/contact.py"
RDFP = "mdtraj/geometry/rdf.py"
THP = "mdtraj/geometry/thermodynamic_properties.py"
NMRP = "mdtraj/nmr/scalar_couplings.py"
V("C16", "third-moment-update-coefficient", MOMC, "    self->_M3 += term1 * delta_n * (self->_n - 2) - 3 * delta_n * self->_M2;", "    self->_M3 += term1 * delta_n * (self->_n - 1) - 3 * delta_n * self->_M2;", "C16-R1")
V("C16", "second-moment-updated-before-third", MOMC, "    self->_M3 += term1 * delta_n * (self->_n - 2) - 3 * delta_n * self->_M2;\n    self->_M2 += term1;", "    self->_M2 += term1;\n    self->_M3 += term1 * delta_n * (self->_n - 2) - 3 * delta_n * self->_M2;", "C16-R1")
V("C16", "variance-bessel", MOMC, "    return self->_M2 / self->_n;", "    return self->_M2 / (self->_n - 1);", "C16-R1")
V("C16", "twin-mean-update-spelled-out", MOMC, "    self->_u += delta_n;", "    self->_u = self->_u + delta / self->_n;", None)
V("C16", "drid-pushes-distance", DRC, "        moments_push(&onlinemoments, 1.0/sqrt((double) d));", "        moments_push(&onlinemoments, sqrt((double) d));", "C16-R2")
V("C16", "drid-third-without-root", DRC, "    moments[2] = cbrt(moments_third(&onlinemoments));", "    moments[2] = moments_third(&onlinemoments);", "C16-R2")
V("C16", "drid-partners-keep-self", "mdtraj/geometry/drid.pyx", "        partners_l.append(set_atom_indices - bonds[i] - set([j]))", "        partners_l.append(set_atom_indices - bonds[i])", "C16-R2")
V("C16", "asphericity-two-thirds", SHP, "    b = pm[:, 2] - (pm[:, 0] + pm[:, 1]) / 2.0", "    b = pm[:, 2] - (pm[:, 0] + pm[:, 1]) / 3.0", "C16-R3")
V("C16", "acylindricity-wrong-pair", SHP, "    c = pm[:, 1] - pm[:, 0]", "    c = pm[:, 2] - pm[:, 1]", "C16-R3")
V("C16", "anisotropy-square-of-sum", SHP, "    kappa2 = 1.5 * np.square(pm).sum(axis=1) / np.square(pm.sum(axis=1)) - 0.5", "    kappa2 = 1.5 * np.square(pm).sum(axis=1) / np.square(pm).sum(axis=1) - 0.5", "C16-R3")
V("C16", "gyration-tensor-divides-by-frames", SHP, 'return np.einsum("...ji,...jk->...ik", xyz, xyz) / traj.n_atoms', 'return np.einsum("...ji,...jk->...ik", xyz, xyz) / traj.n_frames', "C16-R3")
V("C16", "twin-asphericity-rearranged", SHP, "    b = pm[:, 2] - (pm[:, 0] + pm[:, 1]) / 2.0", "    b = pm[:, 2] - 0.5 * pm[:, 1] - 0.5 * pm[:, 0]", None)
V("C16", "com-not-normalised-with-selection", "mdtraj/geometry/distance.py", "        masses = np.array([traj.top.atom(i).element.mass for i in atoms_of_interest])\n        masses /= masses.sum()", "        masses = np.array([traj.top.atom(i).element.mass for i in atoms_of_interest])", "C16-R4")
V("C16", "contacts-count-uses-first-residue-twice", CTC, "                residue_lens[pair[0]] * residue_lens[pair[1]],", "                residue_lens[pair[0]] * residue_lens[pair[0]],", "C16-R5")
V("C16", "contacts-offset-inclusive", CTC, "            index = int(np.sum(n_atom_pairs_per_residue_pair[:i]))", "            index = int(np.sum(n_atom_pairs_per_residue_pair[: i + 1]))", "C16-R5")
V("C16", "contacts-heavy-keeps-hydrogens", CTC, "                [atom.index for atom in residue.atoms if not (atom.element == element.hydrogen)]\n                for residue in traj.topology.residues", "                [atom.index for atom in residue.atoms if not (atom.element == element.helium)]\n                for residue in traj.topology.residues", "C16-R5")
V("C16", "contacts-softmin-sign", CTC, "                distances[:, i] = soft_min_beta / np.log(", "                distances[:, i] = -soft_min_beta / np.log(", "C16-R5")
V("C16", "density-conversion-constant", THP, "    conversion = 1.6605387823355087", "    conversion = 1.6605387823355087e-3", "C16-R6")
V("C16", "rdf-shell-area-not-volume", RDFP, "    V = (4 / 3) * np.pi * (np.power(edges[1:], 3) - np.power(edges[:-1], 3))\n    norm = len(pairs) * np.sum(1.0 / traj.unitcell_volumes) * V", "    V = 4 * np.pi * (np.power(edges[1:], 2) - np.power(edges[:-1], 2))\n    norm = len(pairs) * np.sum(1.0 / traj.unitcell_volumes) * V", "C16-R7")
V("C16", "rdf-norm-mean-volume", RDFP, "    norm = len(pairs) * np.sum(1.0 / traj.unitcell_volumes) * V\n    g_r = g_r.astype(np.float64) / norm  # From int64.", "    norm = len(pairs) * len(traj) / np.mean(traj.unitcell_volumes) * V\n    g_r = g_r.astype(np.float64) / norm  # From int64.", "C16-R7")
V("C16", "karplus-cos-not-squared", NMRP, "    return A * np.cos(phi + phi0) ** 2.0 + B * np.cos(phi + phi0) + C", "    return A * np.cos(phi + phi0) + B * np.cos(phi + phi0) + C", "C16-R8")
V("C16", "karplus-wrong-table", NMRP, "    J = _J3_function(phi, **J3_HN_C_coefficients[model])", "    J = _J3_function(phi, **J3_HN_CB_coefficients[model])", "C16-R8")
V("C16", "twin-karplus-horner", NMRP, "    return A * np.cos(phi + phi0) ** 2.0 + B * np.cos(phi + phi0) + C", "    return (A * np.cos(phi + phi0) + B) * np.cos(phi + phi0) + C", None)
V("C06", "superpose-reference-copied-late", TRJ, """        ref_align_xyz = np.array(
            reference.xyz[frame, ref_atom_indices, :],
            copy=True,
            order="c",
        ).reshape(1, -1, 3)

        offset = np.mean(self_align_xyz, axis=1, dtype=np.float64).reshape(
            n_frames,
            1,
            3,
        )
        self_align_xyz -= offset
        if self_align_xyz.ctypes.data != self_displace_xyz.ctypes.data:
            # when atom_indices is None, these two arrays alias the same memory
            # so we only need to do the centering once
            self_displace_xyz -= offset
""", """        offset = np.mean(self_align_xyz, axis=1, dtype=np.float64).reshape(
            n_frames,
            1,
            3,
        )
        self_align_xyz -= offset
        if self_align_xyz.ctypes.data != self_displace_xyz.ctypes.data:
            # when atom_indices is None, these two arrays alias the same memory
            # so we only need to do the centering once
            self_displace_xyz -= offset
        ref_align_xyz = np.array(
            reference.xyz[frame, ref_atom_indices, :],
            copy=True,
            order="c",
        ).reshape(1, -1, 3)
""", "C06-R2")
V("C07", "twin-angle-clamp-min-max", AKH, "            if (cosine < -1.0f) {\n                cosine = -1.0f;\n            }\n            if (cosine > 1.0f) {\n               cosine = 1.0f;\n            }", "            if (cosine > 1.0f) {\n               cosine = 1.0f;\n            } else if (cosine < -1.0f) {\n                cosine = -1.0f;\n            }", None)
V("C07", "twin-dihedral-locals-renamed", DHKH, "            fvec4 c1 = cross(v2, v3);\n            fvec4 c2 = cross(v1, v2);\n            float p1 = dot3(v1, c1)*distances[3*j+1];\n            float p2 = dot3(c1, c2);\n            out[n_quartets*j + i] = atan2f(p1, p2);", "            fvec4 n23 = cross(v2, v3);\n            fvec4 n12 = cross(v1, v2);\n            float yv = distances[3*j+1]*dot3(n23, v1);\n            float xv = dot3(n12, n23);\n            out[n_quartets*j + i] = atan2f(yv, xv);", None)
V("C07", "dihedral-cross-operands-swapped", DHKH, "            fvec4 c2 = cross(v1, v2);", "            fvec4 c2 = cross(v2, v1);", "C07-R3")
V("C07", "twin-reference-dihedral-norm", DHPY, "    p1 *= (b2 * b2).sum(-1) ** 0.5", "    p1 = p1 * np.sqrt((b2 * b2).sum(-1))", None)
V("C14", "ks-energy-swapped-distances", GEOC, "    fvec4 d2_honchcno(dot3(r_ho, r_ho), dot3(r_nc, r_nc), dot3(r_hc, r_hc), dot3(r_no, r_no));", "    fvec4 d2_honchcno(dot3(r_ho, r_ho), dot3(r_hc, r_hc), dot3(r_nc, r_nc), dot3(r_no, r_no));", "C14-R3")
V("C14", "ks-coupling-signs-permuted", GEOC, "    fvec4 coupling(-2.7888f, -2.7888f, 2.7888f, 2.7888f); // 332 (kcal*A/mol) * 0.42 * 0.2 * (1nm / 10 A)", "    fvec4 coupling(-2.7888f, 2.7888f, -2.7888f, 2.7888f); // 332 (kcal*A/mol) * 0.42 * 0.2 * (1nm / 10 A)", "C14-R3")
V("C14", "twin-ks-terms-permuted-consistently", GEOC, '    fvec4 coupling(-2.7888f, -2.7888f, 2.7888f, 2.7888f); // 332 (kcal*A/mol) * 0.42 * 0.2 * (1nm / 10 A)\n    fvec4 r_n(xyz[3*nco_indices[3*donor]], xyz[3*nco_indices[3*donor]+1], xyz[3*nco_indices[3*donor]+2], 0);\n    fvec4 r_h(hcoords[4*donor], hcoords[4*donor+1], hcoords[4*donor+2], 0);\n    fvec4 r_c(xyz[3*nco_indices[3*acceptor+1]], xyz[3*nco_indices[3*acceptor+1]+1], xyz[3*nco_indices[3*acceptor+1]+2], 0);\n    fvec4 r_o(xyz[3*nco_indices[3*acceptor+2]], xyz[3*nco_indices[3*acceptor+2]+1], xyz[3*nco_indices[3*acceptor+2]+2], 0);\n    fvec4 r_ho = r_h-r_o;\n    fvec4 r_hc = r_h-r_c;\n    fvec4 r_nc = r_n-r_c;\n    fvec4 r_no = r_n-r_o;\n\n    // Compute all four dot products (each of the squared distances) and pack them into a single fvec4.\n\n    fvec4 d2_honchcno(dot3(r_ho, r_ho), dot3(r_nc, r_nc), dot3(r_hc, r_hc), dot3(r_no, r_no));\n', '    fvec4 coupling(-2.7888f, 2.7888f, -2.7888f, 2.7888f); // 332 (kcal*A/mol) * 0.42 * 0.2 * (1nm / 10 A)\n    fvec4 r_n(xyz[3*nco_indices[3*donor]], xyz[3*nco_indices[3*donor]+1], xyz[3*nco_indices[3*donor]+2], 0);\n    fvec4 r_h(hcoords[4*donor], hcoords[4*donor+1], hcoords[4*donor+2], 0);\n    fvec4 r_c(xyz[3*nco_indices[3*acceptor+1]], xyz[3*nco_indices[3*acceptor+1]+1], xyz[3*nco_indices[3*acceptor+1]+2], 0);\n    fvec4 r_o(xyz[3*nco_indices[3*acceptor+2]], xyz[3*nco_indices[3*acceptor+2]+1], xyz[3*nco_indices[3*acceptor+2]+2], 0);\n    fvec4 r_ho = r_h-r_o;\n    fvec4 r_hc = r_h-r_c;\n    fvec4 r_nc = r_n-r_c;\n    fvec4 r_no = r_n-r_o;\n\n    // Compute all four dot products (each of the squared distances) and pack them into a single fvec4.\n\n    fvec4 d2_honchcno(dot3(r_ho, r_ho), dot3(r_hc, r_hc), dot3(r_nc, r_nc), dot3(r_no, r_no));\n', None)
V("C14", "hydrogen-along-C-to-O", GEOC, "                fvec4 r_co = pc-po;", "                fvec4 r_co = po-pc;", "C14-R3")
V("C14", "hydrogen-not-normalised", GEOC, "                fvec4 norm_r_co = r_co/sqrt(dot3(r_co, r_co));", "                fvec4 norm_r_co = r_co;", "C14-R3")
V("C14", "twin-hydrogen-locals-renamed", GEOC, "                fvec4 r_co = pc-po;\n                fvec4 norm_r_co = r_co/sqrt(dot3(r_co, r_co));\n                fvec4 r_h = r_n+norm_r_co*0.1f;\n                r_h.store(hcoords);", "                fvec4 oc = pc-po;\n                fvec4 unit = oc/sqrt(dot3(oc, oc));\n                fvec4 hpos = unit*0.1f+r_n;\n                hpos.store(hcoords);", None)
V("C05", "twin-triclinic-locals-renamed", GEOC, '            fvec4 r12 = pos2-pos1;\n            r12 -= box_vec3*round(r12[2]*recip_box_size[2]);\n            r12 -= box_vec2*round(r12[1]*recip_box_size[1]);\n            r12 -= box_vec1*round(r12[0]*recip_box_size[0]);\n\n            // We need to consider 27 possible periodic copies.\n\n            float min_dist2 = FLT_MAX;\n            fvec4 min_r = r12;\n            for (int x = -1; x < 2; x++) {\n                fvec4 ra = r12 + box_vec1*x;\n                for (int y = -1; y < 2; y++) {\n                    fvec4 rb = ra + box_vec2*y;\n                    for (int z = -1; z < 2; z++) {\n                        fvec4 rc = rb + box_vec3*z;\n                        float dist2 = dot3(rc, rc);\n                        if (dist2 <= min_dist2) {\n                            min_dist2 = dist2;\n                            min_r = rc;\n                        }\n                    }\n                }\n            }\n\n            // Store results.\n\n            if (store_displacement) {\n                float temp[4];\n                min_r.store(temp);\n                *displacement_out = temp[0];\n                displacement_out++;\n                *displacement_out = temp[1];\n                displacement_out++;\n                *displacement_out = temp[2];\n                displacement_out++;\n            }\n            if (store_distance) {\n                *distance_out = sqrtf(min_dist2);\n                distance_out++;\n            }\n        }\n\n        // Advance to the next frame.\n\n        xyz += n_atoms*3;\n        box_matrix += 9;', '            fvec4 dr = pos2-pos1;\n            dr -= box_vec3*round(dr[2]*recip_box_size[2]);\n            dr -= box_vec2*round(dr[1]*recip_box_size[1]);\n            dr -= box_vec1*round(dr[0]*recip_box_size[0]);\n\n            // We need to consider 27 possible periodic copies.\n\n            float best2 = FLT_MAX;\n            fvec4 best = dr;\n            for (int x = -1; x < 2; x++) {\n                for (int y = -1; y < 2; y++) {\n                    for (int z = -1; z < 2; z++) {\n                        fvec4 rc = dr + box_vec3*z + box_vec2*y + box_vec1*x;\n                        float len2 = dot3(rc, rc);\n                        if (len2 <= best2) {\n                            best = rc;\n                            best2 = len2;\n                        }\n                    }\n                }\n            }\n\n            // Store results.\n\n            if (store_displacement) {\n                float temp[4];\n                best.store(temp);\n                *displacement_out = temp[0];\n                displacement_out++;\n                *displacement_out = temp[1];\n                displacement_out++;\n                *displacement_out = temp[2];\n                displacement_out++;\n            }\n            if (store_distance) {\n                *distance_out = sqrtf(best2);\n                distance_out++;\n            }\n        }\n\n        // Advance to the next frame.\n\n        xyz += n_atoms*3;\n        box_matrix += 9;', None)

# ---------------------------------------------------------------- rules added after the second independent sample
_MDCRD_SKIP = '    def _skip(self):\n        "Advance over a single frame without converting its numbers"\n        n_lines = %s\n        for i in range(n_lines):\n            if self._fh.readline() == b"":\n                raise _EOF()\n        self._line_counter += n_lines\n        if self._has_box is not False:\n            here = self._fh.tell()\n            if len(self._fh.readline().split()) != 3:\n                if self._has_box is True:\n                    raise OSError("Box information not found in file.")\n                self._fh.seek(here)\n        self._frame_index += 1\n\n    def write(self, xyz, cell_lengths=None):'
_MDCRD_E1 = ('                # throw away these frames\n                try:\n                    self._read()\n                except _EOF:\n                    break', '                # throw away these frames\n                try:\n                    self._skip()\n                except _EOF:\n                    break')
V("C02", "twin-mdcrd-skip-by-line-count", "mdtraj/formats/mdcrd.py", None, None, None, edits=[_MDCRD_E1, ("    def write(self, xyz, cell_lengths=None):", _MDCRD_SKIP % "(self._n_atoms * 3 + 9) // 10")])
V("C02", "mdcrd-skip-line-count-off-by-one", "mdtraj/formats/mdcrd.py", None, None, "C02-R8", edits=[_MDCRD_E1, ("    def write(self, xyz, cell_lengths=None):", _MDCRD_SKIP % "self._n_atoms * 3 // 10 + 1")])
V("C02", "lammps-selection-inside-parser", LMPF, "                frame_coords, frame_lengths, frame_angles = self._read()", "                frame_coords, frame_lengths, frame_angles = self._read(atom_indices)", "C02-R5")
V("C03", "remove-solvent-returns-self", TRJ, "        return self.atom_slice(atom_indices, inplace=inplace)\n\n    def smooth(", "        if len(atom_indices) == self.n_atoms:\n            return self\n        return self.atom_slice(atom_indices, inplace=inplace)\n\n    def smooth(", "C03-R6")
V("C03", "twin-remove-solvent-early-copy", TRJ, "        return self.atom_slice(atom_indices, inplace=inplace)\n\n    def smooth(", "        if inplace and len(atom_indices) == self.n_atoms:\n            return self\n        return self.atom_slice(atom_indices, inplace=inplace)\n\n    def smooth(", None)
TOPF = "mdtraj/core/topology.py"
V("C04", "subset-identity-fast-path", TOPF, "        return _topology_from_subset(self, atom_indices)", "        if len(atom_indices) == self.n_atoms:\n            return self\n        return _topology_from_subset(self, atom_indices)", "C04-R8")
V("C04", "chains-renumbered-before-removal", TOPF, "    # Delete empty chains\n    newTopology._chains = [c for c in newTopology._chains if len(c._residues) > 0]", "    for i, chain in enumerate(newTopology._chains):\n        chain.index = i\n    newTopology._chains = [c for c in newTopology._chains if len(c._residues) > 0]", "C04-R8")
V("C04", "twin-renumber-loop-variable", TOPF, "    for i, chain in enumerate(newTopology.chains):\n        chain.index = i", "    for k, ch in enumerate(newTopology.chains):\n        ch.index = k", None)
V("C05", "orth-reciprocal-hoisted", DKH, "    for (int i = 0; i < n_frames; i++) {\n        // Load the periodic box vectors.\n\n#ifdef COMPILE_WITH_PERIODIC_BOUNDARY_CONDITIONS\n        fvec4 box_size(box_matrix[0], box_matrix[4], box_matrix[8], 0);\n        fvec4 inv_box_size(1.0f/box_matrix[0], 1.0f/box_matrix[4], 1.0f/box_matrix[8], 0);\n#endif",
  "#ifdef COMPILE_WITH_PERIODIC_BOUNDARY_CONDITIONS\n    fvec4 inv_box_size(1.0f/box_matrix[0], 1.0f/box_matrix[4], 1.0f/box_matrix[8], 0);\n#endif\n    for (int i = 0; i < n_frames; i++) {\n        // Load the periodic box vectors.\n\n#ifdef COMPILE_WITH_PERIODIC_BOUNDARY_CONDITIONS\n        fvec4 box_size(box_matrix[0], box_matrix[4], box_matrix[8], 0);\n#endif", "C05-R4")
V("C10", "voxel-size-unguarded", NLC, "            if (maxy > miny)\n                voxelSizeY = (maxy-miny)/ny;", "            voxelSizeY = (maxy-miny)/ny;", "C10-R5")
V("C10", "voxel-clamp-before-offset", NLC, "                starty -= (int) ceil(yoffset/voxelSizeY);\n                endy -= (int) floor(yoffset/voxelSizeY);\n                endy = min(endy, starty+ny-1);", "                endy = min(endy, starty+ny-1);\n                starty -= (int) ceil(yoffset/voxelSizeY);\n                endy -= (int) floor(yoffset/voxelSizeY);", "C10-R5")
V("C10", "twin-voxel-offset-order", NLC, "                starty -= (int) ceil(yoffset/voxelSizeY);\n                endy -= (int) floor(yoffset/voxelSizeY);\n                endy = min(endy, starty+ny-1);", "                endy -= (int) floor(yoffset/voxelSizeY);\n                starty -= (int) ceil(yoffset/voxelSizeY);\n                endy = min(endy, starty+ny-1);", None)
NCF = "mdtraj/formats/netcdf.py"
H5F = "mdtraj/formats/hdf5.py"
V("C18", "netcdf-len-from-dimension", NCF, "            raise ValueError(\"I/O operation on closed file\")\n        return self.n_frames", "            raise ValueError(\"I/O operation on closed file\")\n        return self._handle.dimensions[\"frame\"]", "C18-R6")
V("C19", "h5-flush-only-in-w-mode", H5F, "        if self._open:\n            self._handle.flush()", "        if self._open and self.mode == \"w\":\n            self._handle.flush()", "C19-R6")
V("C19", "twin-h5-flush-write-modes", H5F, "        if self._open:\n            self._handle.flush()", "        if self._open and self.mode in (\"w\", \"a\"):\n            self._handle.flush()", None)
V("C19", "gro-default-time-per-call", "mdtraj/formats/gro.py", "        for i in range(coordinates.shape[0]):\n            frame_time = None if time is None else time[i]", "        if time is None:\n            time = np.arange(len(coordinates))\n        for i in range(coordinates.shape[0]):\n            frame_time = None if time is None else time[i]", "C19-R3")
V("C19", "lammps-box-style-per-call", LMPF, "        for i in range(xyz.shape[0]):\n            # --- begin header ---", "        first_angles = cell_angles[0]\n        for i in range(xyz.shape[0]):\n            cell_angles[i] = first_angles if np.allclose(first_angles, 90) else cell_angles[i]\n            # --- begin header ---", "C19-R7")
V("C19", "twin-lammps-frame-count-hoisted", LMPF, "        for i in range(xyz.shape[0]):\n            # --- begin header ---", "        n_frames = xyz.shape[0]\n        for i in range(n_frames):\n            # --- begin header ---", None)
V("C20", "save-pops-force-overwrite", TRJ, "        # run the saver, and return whatever output it gives\n        return saver(filename, **kwargs)", "        force_overwrite = kwargs.pop(\"force_overwrite\", True)\n        if not force_overwrite and os.path.exists(filename):\n            raise OSError('\"%s\" already exists' % filename)\n        return saver(filename, **kwargs)", "C20-R2")
V("C20", "twin-save-reads-force-overwrite", TRJ, "        # run the saver, and return whatever output it gives\n        return saver(filename, **kwargs)", "        if not kwargs.get(\"force_overwrite\", True) and os.path.exists(filename):\n            raise OSError('\"%s\" already exists' % filename)\n        return saver(filename, **kwargs)", None)
V("C04", "hash-bonds-in-list-order", TOPF, "        hash_value ^= hash(tuple(sorted(self._bonds)))", "        hash_value ^= hash(tuple(self._bonds))", "C04-R3")
V("C04", "twin-hash-bonds-frozenset", TOPF, "        hash_value ^= hash(tuple(sorted(self._bonds)))", "        hash_value ^= hash(frozenset(self._bonds))", None)
V("C19", "netcdf-atom-count-unchecked", NCF, "        if n_atoms != self.n_atoms:\n            raise ValueError(\n                \"coordinates has %d atoms, but the file holds %d atoms per frame\" % (n_atoms, self.n_atoms),\n            )\n", "", "C19-R2")
V("C02", "pdb-frame-and-atoms-one-subscript", "mdtraj/formats/pdb/pdbfile.py", "            coords = f.positions[[frame]][:, atom_slice, :]", "            coords = f.positions[[frame], atom_slice, :]", "C02-R5")
V("C02", "twin-pdb-frame-slice", "mdtraj/formats/pdb/pdbfile.py", "            coords = f.positions[[frame]][:, atom_slice, :]", "            coords = f.positions[frame : frame + 1][:, atom_slice, :] if frame >= 0 else f.positions[[frame]][:, atom_slice, :]", None)
V("C01", "mdcrd-overflow-truncated", "mdtraj/formats/mdcrd.py", "                if len(out) > 8:\n                    raise ValueError(\"Overflow error\")", "                if len(out) > 8:\n                    out = out[:8]", "C01-R4")
V("C01", "mdcrd-lookahead-unguarded", "mdtraj/formats/mdcrd.py", "                try:\n                    peek = [float(elem) for elem in line.strip().split()]\n                except ValueError:\n                    # fixed-width coordinate fields that touch (\"0.000-125.000\"):\n                    # the first line of the next frame, not a box line\n                    peek = []", "                peek = [float(elem) for elem in line.strip().split()]", "C01-R4")
V("C01", "save-hdf5-time-by-flag", TRJ, "                time=self.time,\n                cell_lengths=in_units_of(\n                    self.unitcell_lengths,\n                    Trajectory._distance_unit,\n                    f.distance_unit,\n                ),\n                cell_angles=self.unitcell_angles,\n            )\n            f.topology = self.topology", "                time=None if self._time_default_to_arange else self.time,\n                cell_lengths=in_units_of(\n                    self.unitcell_lengths,\n                    Trajectory._distance_unit,\n                    f.distance_unit,\n                ),\n                cell_angles=self.unitcell_angles,\n            )\n            f.topology = self.topology", "C01-R2")
V("C11", "make_whole-identity-test", TRJ, "        if make_whole and sorted_bonds is None:", "        if make_whole is True and sorted_bonds is None:", "C11-R1", "Trajectory.image_molecules")
V("C11", "twin-make_whole-bool-call", TRJ, "        if make_whole and sorted_bonds is None:", "        if bool(make_whole) and sorted_bonds is None:", None)
V("C08", "triclinic-box-reloaded-only-on-change", GEOC,
  "    for (int i = 0; i < n_frames; i++) {\n        // Load the periodic box vectors and make sure they're in reduced form.\n\n        fvec4 box_vec1(box_matrix[0], box_matrix[3], box_matrix[6], 0);",
  "    fvec4 box_vec1;\n    for (int i = 0; i < n_frames; i++) {\n        // Load the periodic box vectors and make sure they're in reduced form.\n\n        if (i == 0 || box_matrix[0] != box_matrix[-9]) box_vec1 = fvec4(box_matrix[0], box_matrix[3], box_matrix[6], 0);",
  "C08-R4", "dist_mic_triclinic")
V("C08", "twin-triclinic-box-declared-outside-assigned-first", GEOC,
  "    for (int i = 0; i < n_frames; i++) {\n        // Load the periodic box vectors and make sure they're in reduced form.\n\n        fvec4 box_vec1(box_matrix[0], box_matrix[3], box_matrix[6], 0);",
  "    fvec4 box_vec1;\n    for (int i = 0; i < n_frames; i++) {\n        // Load the periodic box vectors and make sure they're in reduced form.\n\n        box_vec1 = fvec4(box_matrix[0], box_matrix[3], box_matrix[6], 0);",
  None)
V("C08", "wernet-nilsson-default-frequency-filter", HBP, "    angle_indices,\n    freq=0.0,\n    periodic=True,\n):", "    angle_indices,\n    freq=0.1,\n    periodic=True,\n):", "C08-R4", "wernet_nilsson")
V("C14", "wernet-nilsson-default-frequency-filter", HBP, "    angle_indices,\n    freq=0.0,\n    periodic=True,\n):", "    angle_indices,\n    freq=0.1,\n    periodic=True,\n):", "C14-R1", "wernet_nilsson")
V("C14", "twin-wernet-nilsson-explicit-zero", HBP, "        [0, 2],\n        [2, 0, 1],\n        periodic=periodic,\n    )", "        [0, 2],\n        [2, 0, 1],\n        freq=0.0,\n        periodic=periodic,\n    )", None)
V("C17", "twin-getter-aliases-lengths", TRJ, "        v1, v2, v3 = lengths_and_angles_to_box_vectors(\n            self._unitcell_lengths[:, 0],  # a\n            self._unitcell_lengths[:, 1],  # b\n            self._unitcell_lengths[:, 2],  # c",
  "        lengths = self._unitcell_lengths\n        v1, v2, v3 = lengths_and_angles_to_box_vectors(\n            lengths[:, 0],  # a\n            lengths[:, 1],  # b\n            lengths[:, 2],  # c", None)
V("C17", "getter-first-frame-when-lengths-constant", TRJ, "        v1, v2, v3 = lengths_and_angles_to_box_vectors(\n            self._unitcell_lengths[:, 0],  # a", "        v1, v2, v3 = lengths_and_angles_to_box_vectors(\n            self._unitcell_lengths[:1, 0],  # a", "C17-R3", "Trajectory.unitcell_vectors.getter")
PDBF = "mdtraj/formats/pdb/pdbfile.py"
_EL_OLD = """                        element = atom.element
                        if element is None:
                            element = PDBTrajectoryFile._guess_element(
                                atomName,
                                residue.name,
                                len(residue),
                            )
"""
V("C04", "twin-pdb-element-conditional-expression", PDBF, _EL_OLD, """                        element = atom.element if atom.element is not None else PDBTrajectoryFile._guess_element(
                            atomName,
                            residue.name,
                            len(residue),
                        )
""", None)
V("C04", "pdb-element-falsy-virtual-site-reguessed", PDBF, _EL_OLD, """                        element = atom.element or PDBTrajectoryFile._guess_element(
                            atomName,
                            residue.name,
                            len(residue),
                        )
""", "C04-R6", "PDBTrajectoryFile._read_models")
# ---------------------------------------------------------------- after the sixth sample
V("C15", "g-helix-scan-one-short", DCP, "            for (int j = i; empty && j <= i + 2; ++j)\n                empty = (secondary[j] == SS_LOOP || secondary[j] == SS_HELIX_3);", "            for (int j = i; empty && j < i + 2; ++j)\n                empty = (secondary[j] == SS_LOOP || secondary[j] == SS_HELIX_3);", "C15-R5", "calculate_alpha_helices")
V("C15", "twin-g-helix-scan-strict-bound", DCP, "            for (int j = i; empty && j <= i + 2; ++j)\n                empty = (secondary[j] == SS_LOOP || secondary[j] == SS_HELIX_3);", "            for (int j = i; empty && j < i + 3; ++j)\n                empty = (secondary[j] == SS_LOOP || secondary[j] == SS_HELIX_3);", None)
V("C15", "pi-helix-written-one-long", DCP, "                for (int j = i; j <= i + 4; ++j)\n                    secondary[j] = SS_HELIX_5;", "                for (int j = i; j <= i + 5; ++j)\n                    secondary[j] = SS_HELIX_5;", "C15-R5", "calculate_alpha_helices")
V("C15", "pi-helix-may-not-overwrite-alpha", DCP, "empty = (secondary[j] == SS_LOOP || secondary[j] == SS_HELIX_5 || secondary[j] == SS_ALPHAHELIX);", "empty = (secondary[j] == SS_LOOP || secondary[j] == SS_HELIX_5);", "C15-R5", "calculate_alpha_helices")
V("C07", "atom-dict-memoised-on-topology", DHPY, "    atom_dict = _construct_atom_dict(top)\n", "    atom_dict = getattr(top, \"_dihedral_atom_dict\", None)\n    if atom_dict is None:\n        atom_dict = top._dihedral_atom_dict = _construct_atom_dict(top)\n", "C07-R4", "_atom_sequence")
V("C07", "twin-atom-dict-local-alias", DHPY, "    atom_dict = _construct_atom_dict(top)\n", "    lookup = _construct_atom_dict(top)\n    atom_dict = lookup\n", None)
V("C01", "pdb-cryst1-skipped-without-metadata", PDBF, "        if write_metadata:\n            print(\n                f\"REMARK   1 CREATED WITH MDTraj {mdtraj.__version__}, {str(date.today())}\",\n                file=self._file,\n            )\n",
  "        if not write_metadata:\n            return\n        print(\n            f\"REMARK   1 CREATED WITH MDTraj {mdtraj.__version__}, {str(date.today())}\",\n            file=self._file,\n        )\n", "C01-R4", "PDBTrajectoryFile._write_header")
V("C17", "stack-lengths-from-other", TRJ, "            unitcell_angles=self.unitcell_angles,\n            unitcell_lengths=self.unitcell_lengths,\n            time=self.time,\n        )\n\n    def __getitem__", "            unitcell_angles=self.unitcell_angles,\n            unitcell_lengths=other.unitcell_lengths,\n            time=self.time,\n        )\n\n    def __getitem__", "C17-R8", "Trajectory.stack")
V("C17", "twin-stack-cell-through-locals", TRJ, "        return self.__class__(\n            xyz=xyz,\n            topology=topology,\n            unitcell_angles=self.unitcell_angles,\n            unitcell_lengths=self.unitcell_lengths,\n            time=self.time,\n        )\n\n    def __getitem__",
  "        cell_l, cell_a = self.unitcell_lengths, self.unitcell_angles\n        return self.__class__(\n            xyz=xyz,\n            topology=topology,\n            unitcell_angles=cell_a,\n            unitcell_lengths=cell_l,\n            time=self.time,\n        )\n\n    def __getitem__", None)
V("C06", "cubic-repeated-root-through-acos", THC, "    } else if (delta < 0.0) {\n        double theta", "    } else if (delta <= 0.0) {\n        double theta", "C06-R7", "solve_cubic_equation")
V("C06", "quartic-divides-by-unchecked-R", THC, "    if (R != 0.0) {\n        foo1 = 0.75*a3*a3 - R2 - 2.0*a2;", "    if (R2 != 0.0) {\n        foo1 = 0.75*a3*a3 - R2 - 2.0*a2;", "C06-R7", "quartic_equation_solve_exact")
V("C06", "quartic-sqrt-of-unchecked-D2", THC, "    if (D2 >= 0.0) {\n        D = sqrt(D2);", "    if (E2 >= 0.0) {\n        D = sqrt(D2);", "C06-R7", "quartic_equation_solve_exact")
V("C16", "inertia-diagonal-on-wrong-axis", "mdtraj/geometry/order.py", 'A = np.einsum("i, kij->k", masses, xyz**2)', 'A = np.einsum("j, kij->k", np.ones(3), xyz**2)', "C16-R9", "compute_inertia_tensor")
V("C16", "inertia-about-centre-of-geometry", "mdtraj/geometry/order.py", "    center_of_mass = np.expand_dims(compute_center_of_mass(traj), axis=1)\n    xyz = traj.xyz - center_of_mass\n    masses = np.array([atom.element.mass for atom in traj.top.atoms])\n\n    eyes",
  "    center_of_mass = np.expand_dims(compute_center_of_geometry(traj), axis=1)\n    xyz = traj.xyz - center_of_mass\n    masses = np.array([atom.element.mass for atom in traj.top.atoms])\n\n    eyes", "C16-R9", "compute_inertia_tensor")
V("C16", "twin-inertia-einsum-respelled", "mdtraj/geometry/order.py", 'A = np.einsum("i, kij->k", masses, xyz**2)', 'A = (masses[np.newaxis, :, np.newaxis] * xyz * xyz).sum(axis=(1, 2))', None)
V("C16", "q-tensor-normalised-by-frames", "mdtraj/geometry/order.py", "    Q_ab /= 2.0 * all_directors.shape[1]", "    Q_ab /= 2.0 * all_directors.shape[0]", "C16-R9", "_compute_Q_tensor")
V("C16", "q-tensor-offdiagonal-slip", "mdtraj/geometry/order.py", "            Q_ab[n, 1, 2] += 3.0 * vector[1] * vector[2]", "            Q_ab[n, 1, 2] += 3.0 * vector[1] * vector[1]", "C16-R9", "_compute_Q_tensor")
V("C16", "nematic-order-smallest-eigenvalue", "mdtraj/geometry/order.py", "    S2 = w.max(axis=1)", "    S2 = w.min(axis=1)", "C16-R9", "compute_nematic_order")
V("C16", "gyration-tensor-transposed-contraction", "mdtraj/geometry/shape.py", '"...ji,...jk->...ik"', '"...ij,...jk->...ik"', "C16-R3", "compute_gyration_tensor")
V("C16", "twin-gyration-tensor-matmul", "mdtraj/geometry/shape.py", '    return np.einsum("...ji,...jk->...ik", xyz, xyz) / traj.n_atoms', '    return np.einsum("fji,fjk->fik", xyz, xyz) / traj.n_atoms', None)
V("C16", "com-mass-mean-over-frames", "mdtraj/geometry/distance.py", "        com[i, :] = x.astype(\"float64\").T.dot(masses)", "        com[i, :] = x.astype(\"float64\").mean(0) * masses.sum()", "C16-R4", "compute_center_of_mass")
V("C16", "dipole-sign-legs-reversed", "mdtraj/geometry/thermodynamic_properties.py", "[(a.residue.atom(0).index, a.index) for a in traj.top.atoms]", "[(a.index, a.residue.atom(0).index) for a in traj.top.atoms]", "C16-R6", "dipole_moments")
V("C16", "density-divides-by-first-volume", "mdtraj/geometry/thermodynamic_properties.py", "    densities = mass / volume_trace\n", "    densities = mass / volume_trace[0] * np.ones_like(volume_trace)\n", "C16-R6", "density")
V("C16", "twin-density-one-expression", "mdtraj/geometry/thermodynamic_properties.py", "    densities = mass / volume_trace\n", "    densities = (1.0 / volume_trace) * mass\n", None)
V("C06", "cubic-trig-root-wrong-shift", THC, "        *x1 = 2.0*sq*costh - a2/3.0;", "        *x1 = 2.0*sq*costh - a2/2.0;", "C06-R8", "solve_cubic_equation")
V("C06", "cubic-trig-second-root-sign", THC, "        *x2 = -sq*costh - a2/3.0 - sqrt(3.) * sq * sinth;", "        *x2 = sq*costh - a2/3.0 - sqrt(3.) * sq * sinth;", "C06-R8", "solve_cubic_equation")
V("C06", "cubic-q-invariant-slip", THC, "    double q = a1/3.0 - a2*a2/9.0;", "    double q = a1/3.0 - a2*a2/6.0;", "C06-R8", "solve_cubic_equation")
V("C06", "cubic-double-root-single-s", THC, "        *x1 = 2.0*s - a2/3.0;", "        *x1 = s - a2/3.0;", "C06-R8", "solve_cubic_equation")
V("C06", "cubic-cardano-minus", THC, "        *x1 = (s1+s2) - a2/3.0;", "        *x1 = (s1-s2) - a2/3.0;", "C06-R8", "solve_cubic_equation")
V("C06", "twin-cubic-trig-root-reordered", THC, "        *x1 = 2.0*sq*costh - a2/3.0;", "        *x1 = -a2/3.0 + costh*sq*2.0;", None)
V("C06", "quartic-foo1-coefficient", THC, "        foo1 = 0.75*a3*a3 - R2 - 2.0*a2;", "        foo1 = 0.5*a3*a3 - R2 - 2.0*a2;", "C06-R8", "quartic_equation_solve_exact")
V("C06", "twin-quartic-foo1-through-u1", THC, "        foo1 = 0.75*a3*a3 - R2 - 2.0*a2;", "        foo1 = 0.5*a3*a3 - u1 - a2;", None)
V("C06", "quartic-resolvent-coefficient", THC, "    au1 = (a1*a3 - 4.0*a0) ;", "    au1 = (a1*a3 - 2.0*a0) ;", "C06-R8", "quartic_equation_solve_exact")
V("C06", "quartic-r3-sign-of-R", THC, "        *r3 = -0.25*a3 - 0.5*R - 0.5*E;", "        *r3 = -0.25*a3 + 0.5*R - 0.5*E;", "C06-R8", "quartic_equation_solve_exact")
V("C06", "quartic-R-zero-branch-factor", THC, "        foo2 = 2.0 * sqrt(u1*u1 - 4.0*a0);", "        foo2 = sqrt(u1*u1 - 4.0*a0);", "C06-R8", "quartic_equation_solve_exact")
V("C06", "quartic-takes-middle-resolvent-root", THC, "    else u1 = (x1>x3) ? x1 : x3;", "    else u1 = (x1>x3) ? x1 : 0.5*(x1 + x3);", "C06-R8", "quartic_equation_solve_exact")
V("C06", "twin-quartic-resolvent-root-x2", THC, "    else u1 = (x1>x3) ? x1 : x3;", "    else u1 = (x1>x3) ? x1 : x3;  /* any real root of the resolvent works */", None)
THP = "mdtraj/geometry/thermodynamic_properties.py"
_VOL_OLD = "    volume_trace = traj.unitcell_volumes\n    densities = mass / volume_trace\n"
_VOL_NEW = ("    lengths = traj.unitcell_lengths.astype(np.float64)\n    cosines = np.cos(np.radians(traj.unitcell_angles.astype(np.float64)))\n"
            "    volume_trace = lengths.prod(axis=1) * np.sqrt(1.0 - (cosines**2).sum(axis=1) + %s cosines.prod(axis=1))\n    densities = mass / volume_trace\n")
V("C16", "density-volume-formula-misses-factor-two", THP, _VOL_OLD, _VOL_NEW % "", "C16-R6", "density")
V("C16", "twin-density-volume-from-lengths-and-angles", THP, _VOL_OLD, _VOL_NEW % "2.0 *", None)
V("C10", "face-test-uses-other-axis-length", NLC, "centerAtomPos[2] > periodicBoxSize[2]-maxDistance", "centerAtomPos[2] > periodicBoxSize[1]-maxDistance", "C10-R5", "Voxels::getNeighbors")
V("C10", "triclinic-flag-misses-cy", NBC, "box_matrix[3] != 0 || box_matrix[5] != 0 || box_matrix[6] != 0 || box_matrix[7] != 0);", "box_matrix[3] != 0 || box_matrix[5] != 0 || box_matrix[6] != 0);", "C10-R1", "_compute_neighbors")
V("C10", "twin-triclinic-flag-by-loop", NBC, "    bool triclinic = periodic && (box_matrix[1] != 0 || box_matrix[2] != 0 ||\n            box_matrix[3] != 0 || box_matrix[5] != 0 || box_matrix[6] != 0 || box_matrix[7] != 0);",
  "    bool triclinic = false;\n    for (int k = 1; periodic && k < 8; k++)\n        if (k != 4 && box_matrix[k] != 0)\n            triclinic = true;", None)
V("C16", "contacts-ca-drops-periodic", "mdtraj/geometry/contact.py", "        distances = md.compute_distances(traj, atom_pairs, periodic=periodic)\n", "        distances = md.compute_distances(traj, atom_pairs)\n", "C16-R5", "compute_contacts", count="all")
RDFP = "mdtraj/geometry/rdf.py"
V("C16", "twin-rdf-norm-reordered", RDFP, "    norm = len(pairs) * np.sum(1.0 / traj.unitcell_volumes) * V\n", "    inv_vol = (1.0 / traj.unitcell_volumes).sum()\n    norm = V * inv_vol * len(pairs)\n", None)
V("C16", "rdf-norm-mean-volume", RDFP, "    norm = len(pairs) * np.sum(1.0 / traj.unitcell_volumes) * V\n", "    norm = len(pairs) * traj.n_frames / np.mean(traj.unitcell_volumes) * V\n", "C16-R7", "compute_rdf")
V("C16", "rdf-t-weights-precomputed-zero-on-exact-multiple", RDFP, "    weights = np.zeros(n_small_chunks)\n", "    weights = np.ones(n_small_chunks)\n    weights[-1] = (len(pairs) % n_concurrent_pairs) / n_concurrent_pairs\n", "C16-R7", "compute_rdf_t",
  edits=[("    weights = np.zeros(n_small_chunks)\n", "    weights = np.ones(n_small_chunks)\n    weights[-1] = (len(pairs) % n_concurrent_pairs) / n_concurrent_pairs\n"), ("        weights[i] = len(pairs_set) / n_concurrent_pairs\n", "")])
V("C16", "twin-rdf-t-weights-precomputed-right", RDFP, "    weights = np.zeros(n_small_chunks)\n", "x", None,
  edits=[("    weights = np.zeros(n_small_chunks)\n", "    weights = np.ones(n_small_chunks)\n    weights[-1] = (len(pairs) - (n_small_chunks - 1) * n_concurrent_pairs) / n_concurrent_pairs\n"), ("        weights[i] = len(pairs_set) / n_concurrent_pairs\n", "")])
V("C16", "rdf-t-unweighted-chunk-average", RDFP, "    g_r_t_final = np.average(g_r_t, axis=0, weights=weights)", "    g_r_t_final = np.mean(g_r_t, axis=0)", "C16-R7", "compute_rdf_t")
V("C16", "rdf-t-chunk-stride-off-by-one", RDFP, "        pairs_set = pairs[i * n_concurrent_pairs : (i + 1) * n_concurrent_pairs]", "        pairs_set = pairs[i * n_concurrent_pairs : (i + 1) * n_concurrent_pairs - 1]", "C16-R7", "compute_rdf_t")
CTP = "mdtraj/geometry/contact.py"
V("C16", "twin-contacts-running-offset", CTP, "        for i in range(n_residue_pairs):\n            index = int(np.sum(n_atom_pairs_per_residue_pair[:i]))\n            n = n_atom_pairs_per_residue_pair[i]\n",
  "        offset = 0\n        for i in range(n_residue_pairs):\n            index = offset\n            n = n_atom_pairs_per_residue_pair[i]\n            offset = offset + n\n", None)
V("C16", "contacts-running-offset-advanced-too-early", CTP, "        for i in range(n_residue_pairs):\n            index = int(np.sum(n_atom_pairs_per_residue_pair[:i]))\n            n = n_atom_pairs_per_residue_pair[i]\n",
  "        offset = 0\n        for i in range(n_residue_pairs):\n            n = n_atom_pairs_per_residue_pair[i]\n            offset = offset + n\n            index = offset\n", "C16-R5", "compute_contacts")
V("C16", "twin-contacts-membership-helper-loop", CTP, "            residue_membership = [[atom.index for atom in residue.atoms] for residue in traj.topology.residues]\n",
  "            residue_membership = []\n            for residue in traj.topology.residues:\n                residue_membership.append([atom.index for atom in residue.atoms])\n", None)
V("C16", "contacts-all-starts-at-i-plus-2", CTP, "            for j in range(i + 3, traj.n_residues):", "            for j in range(i + 2, traj.n_residues):", "C16-R5", "compute_contacts")
V("C16", "contacts-all-ignores-chain", CTP, "                if residue_i.chain == residue_j.chain:\n                    residue_pairs.append((i, j))", "                residue_pairs.append((i, j))", "C16-R5", "compute_contacts")
V("C16", "contacts-count-uses-first-residue-twice", CTP, "                residue_lens[pair[0]] * residue_lens[pair[1]],", "                residue_lens[pair[0]] * residue_lens[pair[0]],", "C16-R5", "compute_contacts")
V("C16", "squareform-one-triangle-only", CTP, "    contact_maps[:, residue_pairs[:, 1], residue_pairs[:, 0]] = distances\n", "", "C16-R5", "squareform")
V("C16", "squareform-size-from-pair-count", CTP, "    n_residues = np.max(residue_pairs) + 1", "    n_residues = len(residue_pairs) + 1", "C16-R5", "squareform")
V("C03", "join-angles-from-lengths", TRJ, "            angles = np.concatenate([t.unitcell_angles for t in trajectories])", "            angles = np.concatenate([t.unitcell_lengths for t in trajectories])", "C03-R7", "Trajectory.join")
V("C03", "join-time-of-self-tiled", TRJ, "        time = np.concatenate([t.time for t in trajectories])", "        time = np.concatenate([self.time for t in trajectories])", "C03-R7", "Trajectory.join")
V("C03", "twin-join-concatenate-axis-zero", TRJ, "        time = np.concatenate([t.time for t in trajectories])", "        time = np.concatenate([t.time for t in trajectories], axis=0)", None)
V("C03", "stack-vstack-instead-of-hstack", TRJ, "        xyz = np.hstack((self.xyz, other.xyz))", "        xyz = np.concatenate((self.xyz, other.xyz), axis=0)", "C03-R7", "Trajectory.stack")
V("C03", "twin-stack-concatenate-axis-one", TRJ, "        xyz = np.hstack((self.xyz, other.xyz))", "        xyz = np.concatenate((self.xyz, other.xyz), axis=1)", None)
V("C03", "slice-time-not-sliced", TRJ, "        time = self.time[key]\n        unitcell_lengths, unitcell_angles = None, None", "        time = self.time\n        unitcell_lengths, unitcell_angles = None, None", "C03-R7", "Trajectory.slice")
V("C10", "y-range-single-copy-offset-in-triclinic-cells", NLC, "            if (usePeriodic && triclinic) {\n                // A voxel", "            if (usePeriodic && triclinic && false) {\n                // A voxel", "C10-R5", "Voxels::getNeighbors")

# ---------------------------------------------------------------- C02-R7 reader buffers
V("C02", "xtc-skip-buffer-sized-for-selection", "mdtraj/formats/xtc/xtc.pyx", "            xyz_stride = np.empty((1, self.n_atoms, 3), dtype=np.float32)",
  "            xyz_stride = np.empty((1, n_atoms_to_read, 3), dtype=np.float32)", "C02-R7", "XTCTrajectoryFile._read")
V("C02", "twin-xtc-skip-buffer-renamed", "mdtraj/formats/xtc/xtc.pyx", None, None, None, edits=[("xyz_stride", "skipped_frame")], count="all")
V("C12", "keywords-caseless", "mdtraj/core/selection.py", "            return MatchFirst([Keyword(kw) for kw in kws])", "            return MatchFirst([CaselessKeyword(kw) for kw in kws])", "C12-R7")
V("C12", "twin-keywords-explicitly-case-sensitive", "mdtraj/core/selection.py", "            return MatchFirst([Keyword(kw) for kw in kws])", "            return MatchFirst([Keyword(kw, caseless=False) for kw in kws])", None)

# ---------------------------------------------------------------- C04-R9 rebuilders on a model topology
TOPF_ = "mdtraj/core/topology.py"
V("C04", "copy-drops-bond-order", TOPF_, "            out.add_bond(atom_mapping[a1], atom_mapping[a2], type=bond.type, order=bond.order)\n\n        return out\n\n    def __copy__",
  "            out.add_bond(atom_mapping[a1], atom_mapping[a2], type=bond.type)\n\n        return out\n\n    def __copy__", "C04-R9", "Topology.copy")
V("C04", "join-resseq-continues-one-late", TOPF_, "                    out_resSeq += 1\n                r = out.add_residue(residue.name, c, out_resSeq, residue.segment_id)",
  "                    out_resSeq += 1\n                r = out.add_residue(residue.name, c, out_resSeq + 1, residue.segment_id)", "C04-R9", "Topology.join")
V("C04", "subset-keeps-empty-chains", TOPF_, "    newTopology._chains = [c for c in newTopology._chains if len(c._residues) > 0]", "    newTopology._chains = list(newTopology._chains)", "C04-R9", "Topology.subset")
V("C04", "twin-copy-mapping-renamed", TOPF_, None, None, None, edits=[("                    atom_mapping[atom] = out.add_atom(atom.name, atom.element, r, serial=atom.serial)\n\n        for bond in self.bonds:\n            a1, a2 = bond\n            out.add_bond(atom_mapping[a1], atom_mapping[a2], type=bond.type, order=bond.order)",
  "                    new_atom = out.add_atom(atom.name, atom.element, r, serial=atom.serial)\n                    old_to_new[atom] = new_atom\n\n        for first, second in self.bonds:\n            pass\n        for bond in self.bonds:\n            out.add_bond(old_to_new[bond[0]], old_to_new[bond[1]], order=bond.order, type=bond.type)"),
  ("        out = Topology()\n        atom_mapping = {}\n        for chain in self.chains:\n            c = out.add_chain(chain.chain_id)", "        out = Topology()\n        old_to_new = {}\n        for chain in self.chains:\n            c = out.add_chain(chain.chain_id)")])

# ---- twin round 12: parse_selection.__call__ decided by evaluation on a model parser (c12._call_by_evaluation)
V("C12", "source-unparsed-from-the-untransformed-node", "mdtraj/core/selection.py", "        source = unparse(astnode)", "        source = unparse(parse_result[0].ast())", "C12-R5")
V("C12", "integer-literal-exempt-from-the-single-literal-check", "mdtraj/core/selection.py", "astnode.value not in {True, False, None}:",
  "astnode.value not in {True, False, None} and not isinstance(astnode.value, int):", "C12-R6")
V("C12", "single-literal-check-dropped", "mdtraj/core/selection.py", "        if isinstance(astnode, ast.Constant) and astnode.value not in {True, False, None}:", "        if False:", "C12-R6")
V("C12", "twin-parsed-node-transformed-without-copy", "mdtraj/core/selection.py", "self.transformer.visit(deepcopy(parse_result[0].ast()))", "self.transformer.visit(parse_result[0].ast())", None)
V("C12", "twin-source-before-the-lambda", "mdtraj/core/selection.py", "        func = ast.Expression(body=ast.Lambda(signature, astnode))\n        source = unparse(astnode)",
  "        source = unparse(astnode)\n        func = ast.Expression(body=ast.Lambda(signature, astnode))", None)
# ---- C04-R8 defers to C04-R9 when the removal of the empty ones is not in the body: the order is still decided (by value)
V("C04", "chains-never-renumbered-after-subset", "mdtraj/core/topology.py", "    for i, chain in enumerate(newTopology.chains):\n        chain.index = i", "    for i, chain in enumerate(newTopology.chains):\n        pass", "C04-R8")
