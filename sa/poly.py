"""Polynomial normal forms over the rationals (sparse, multivariate) and rational functions.

Used for algebraic value numbering: every scalar an analysed function computes is
expanded, through its reaching definitions, into a canonical polynomial (or quotient
of polynomials) over chosen input symbols; two expressions denote the same value for
all inputs in exact arithmetic iff their normal forms coincide.  No search, no solver.
"""
from __future__ import annotations

from fractions import Fraction


class Poly:
    __slots__ = ("t",)

    def __init__(self, terms=None):
        # terms: {monomial: coeff}; monomial = tuple(sorted((var, exp), ...))
        self.t = {m: c for m, c in (terms or {}).items() if c != 0}

    # ---- constructors
    @staticmethod
    def const(c):
        return Poly({(): Fraction(c)})

    @staticmethod
    def var(name):
        return Poly({((name, 1),): Fraction(1)})

    # ---- arithmetic
    def __add__(self, o):
        o = _p(o)
        t = dict(self.t)
        for m, c in o.t.items():
            t[m] = t.get(m, 0) + c
        return Poly(t)

    __radd__ = __add__

    def __neg__(self):
        return Poly({m: -c for m, c in self.t.items()})

    def __sub__(self, o):
        return self + (-_p(o))

    def __rsub__(self, o):
        return _p(o) - self

    def __mul__(self, o):
        o = _p(o)
        t = {}
        for m1, c1 in self.t.items():
            for m2, c2 in o.t.items():
                m = _mmul(m1, m2)
                t[m] = t.get(m, 0) + c1 * c2
        return Poly(t)

    __rmul__ = __mul__

    def __pow__(self, n):
        r = Poly.const(1)
        for _ in range(n):
            r = r * self
        return r

    def __eq__(self, o):
        return self.t == _p(o).t

    def __hash__(self):
        return hash(frozenset(self.t.items()))

    def is_zero(self):
        return not self.t

    def is_const(self):
        return all(m == () for m in self.t)

    def const_value(self):
        return self.t.get((), Fraction(0)) if self.is_const() else None

    def vars(self):
        return {v for m in self.t for v, _ in m}

    def degree(self):
        return max((sum(e for _, e in m) for m in self.t), default=0)

    def subs(self, mapping):
        """mapping: var -> Poly"""
        r = Poly()
        for m, c in self.t.items():
            term = Poly.const(c)
            for v, e in m:
                term = term * ((mapping[v] if v in mapping else Poly.var(v)) ** e)
            r = r + term
        return r

    def coeff_of(self, var, power):
        """coefficient polynomial of var**power"""
        t = {}
        for m, c in self.t.items():
            e = dict(m).get(var, 0)
            if e == power:
                t[tuple((v, x) for v, x in m if v != var)] = c
        return Poly(t)

    def __repr__(self):
        if not self.t:
            return "0"
        out = []
        for m, c in sorted(self.t.items(), key=lambda kv: (sum(e for _, e in kv[0]), kv[0])):
            mono = "*".join(v if e == 1 else "%s^%d" % (v, e) for v, e in m)
            if not mono:
                out.append(str(c))
            elif c == 1:
                out.append(mono)
            elif c == -1:
                out.append("-" + mono)
            else:
                out.append("%s*%s" % (c, mono))
        return " + ".join(out).replace("+ -", "- ")


def _mmul(m1, m2):
    if not m1:
        return m2
    if not m2:
        return m1
    d = dict(m1)
    for v, e in m2:
        d[v] = d.get(v, 0) + e
    return tuple(sorted(d.items()))


def _p(x):
    if isinstance(x, Poly):
        return x
    return Poly.const(x)


class Rat:
    """num/den with polynomial numerator and denominator (not reduced); equality by cross-multiplication."""
    __slots__ = ("n", "d")

    def __init__(self, n, d=None):
        self.n = _p(n)
        self.d = _p(1) if d is None else _p(d)

    def __add__(self, o):
        o = _r(o)
        if self.d == o.d:
            return Rat(self.n + o.n, self.d)
        return Rat(self.n * o.d + o.n * self.d, self.d * o.d)

    __radd__ = __add__

    def __neg__(self):
        return Rat(-self.n, self.d)

    def __sub__(self, o):
        return self + (-_r(o))

    def __rsub__(self, o):
        return _r(o) - self

    def __mul__(self, o):
        o = _r(o)
        return Rat(self.n * o.n, self.d * o.d)

    __rmul__ = __mul__

    def __truediv__(self, o):
        o = _r(o)
        if o.n.is_zero():
            raise ZeroDivisionError("symbolic division by zero")
        return Rat(self.n * o.d, self.d * o.n)

    def __rtruediv__(self, o):
        return _r(o) / self

    def __eq__(self, o):
        o = _r(o)
        return self.n * o.d == o.n * self.d

    def __hash__(self):
        return 0

    def is_poly(self):
        return self.d.is_const() and not self.d.is_zero()

    def poly(self):
        c = self.d.const_value()
        if c is None or c == 0:
            return None
        return self.n * Poly.const(Fraction(1) / c)

    def const_value(self):
        p = self.poly()
        return p.const_value() if p is not None else None

    def vars(self):
        return self.n.vars() | self.d.vars()

    def __repr__(self):
        p = self.poly()
        if p is not None:
            return repr(p)
        return "(%r) / (%r)" % (self.n, self.d)


def _r(x):
    if isinstance(x, Rat):
        return x
    return Rat(_p(x))


def det(matrix):
    """determinant of a square matrix of Poly / Rat entries by cofactor expansion along row 0"""
    n = len(matrix)
    if n == 1:
        return matrix[0][0]
    if n == 2:
        return matrix[0][0] * matrix[1][1] - matrix[0][1] * matrix[1][0]
    tot = None
    for j in range(n):
        minor = [[matrix[r][c] for c in range(n) if c != j] for r in range(1, n)]
        term = matrix[0][j] * det(minor)
        if j % 2:
            term = -term
        tot = term if tot is None else tot + term
    return tot


def cofactor(matrix, i, j):
    n = len(matrix)
    minor = [[matrix[r][c] for c in range(n) if c != j] for r in range(n) if r != i]
    d = det(minor)
    return -d if (i + j) % 2 else d


def rewrite_power(x, sym, k, repl):
    """Rat `x` with every power sym^(k*j + i) replaced by repl^j * sym^i (i < k), in numerator and denominator: the normal form of x
    modulo the relation sym^k = repl.  `repl` must not contain `sym`."""
    x, repl = _r(x), _r(repl)

    def one(p):
        maxe = max((dict(m).get(sym, 0) for m in p.t), default=0)
        if maxe < k:
            return Rat(p)
        acc = Rat(Poly.const(0))
        pw = {0: Rat(Poly.const(1))}
        for e in range(maxe + 1):
            ck = p.coeff_of(sym, e)
            if ck.is_zero():
                continue
            j, i = divmod(e, k)
            if j not in pw:
                for jj in range(1, j + 1):
                    if jj not in pw:
                        pw[jj] = pw[jj - 1] * repl
            term = Rat(ck) * pw[j]
            if i:
                term = term * Rat(Poly({((sym, i),): Fraction(1)}))
            acc = acc + term
        return acc
    n, d = one(x.n), one(x.d)
    return n / d
