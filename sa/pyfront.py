"""Python / Cython source front-end: modules, classes, functions by qualified name."""
from __future__ import annotations

import ast
import os

from .core import AnalysisError
from . import pyxfront


import weakref

MODULE_OF = weakref.WeakValueDictionary()      # id(function node) -> module; entries vanish with the module (scratch copies are parsed by the thousand in the self-test)


class Mod:
    def __init__(self, repo, rel):
        self.rel = rel
        self.path = os.path.join(repo, rel)
        if not os.path.exists(self.path):
            raise AnalysisError("anchor file vanished: %s" % rel)
        with open(self.path, encoding="utf-8", errors="replace") as f:
            self.src = f.read()
        self.pyx = None
        if rel.endswith((".pyx", ".pxi")):
            self.pyx = pyxfront.PyxModule(rel, self.src)
            self.tree = self.pyx.tree
        else:
            try:
                self.tree = ast.parse(self.src, filename=rel)
            except SyntaxError as e:
                raise AnalysisError("cannot parse %s: %s" % (rel, e))
        self.functions = {}   # qualname -> FunctionDef
        self.classes = {}     # name -> ClassDef
        self.parents = {}
        self._index(self.tree, "")
        for f_ in self.functions.values():
            MODULE_OF[id(f_)] = self        # which module a function node belongs to (the evaluators inline private helpers of the same module)
        canonical_locals(self)
        for n in ast.walk(self.tree):
            for c in ast.iter_child_nodes(n):
                self.parents[c] = n

    def _index(self, node, prefix):
        for ch in ast.iter_child_nodes(node):
            if isinstance(ch, (ast.FunctionDef, ast.AsyncFunctionDef)):
                q = prefix + ch.name
                # property setters share the name: keep both
                if q in self.functions:
                    kind = _prop_kind(ch)
                    q2 = q + "." + kind if kind else q + "#2"
                    self.functions[q2] = ch
                    k0 = _prop_kind(self.functions[q])
                    if k0:
                        self.functions[q + "." + k0] = self.functions[q]
                else:
                    self.functions[q] = ch
                    kind = _prop_kind(ch)
                    if kind:
                        self.functions[q + "." + kind] = ch
                self._index(ch, q + ".")
            elif isinstance(ch, ast.ClassDef):
                self.classes[prefix + ch.name] = ch
                self._index(ch, prefix + ch.name + ".")
            elif isinstance(ch, (ast.If, ast.Try, ast.With, ast.For, ast.While)):
                self._index(ch, prefix)

    def func(self, qual):
        f = self.functions.get(qual)
        if f is None:
            raise AnalysisError("anchor function vanished: %s:%s" % (self.rel, qual))
        return f

    def cls(self, name):
        c = self.classes.get(name)
        if c is None:
            raise AnalysisError("anchor class vanished: %s:%s" % (self.rel, name))
        return c

    def methods(self, clsname):
        pre = clsname + "."
        return {q[len(pre):]: f for q, f in self.functions.items()
                if q.startswith(pre) and "." not in q[len(pre):].replace(".getter", "").replace(".setter", "")}

    def module_assign(self, name):
        """Value node of a module-level ``name = ...`` assignment (last one)."""
        val = None
        for st in self.tree.body:
            if isinstance(st, ast.Assign):
                for t in st.targets:
                    if isinstance(t, ast.Name) and t.id == name:
                        val = st.value
            elif isinstance(st, ast.AnnAssign) and isinstance(st.target, ast.Name) and st.target.id == name:
                val = st.value
        return val

    def class_assign(self, clsname, name):
        c = self.cls(clsname)
        val = None
        for st in c.body:
            if isinstance(st, ast.Assign):
                for t in st.targets:
                    if isinstance(t, ast.Name) and t.id == name:
                        val = st.value
        return val


# ---------------------------------------------------------------------------------------------------
# tolerance for renamed locals (the Python twin of cfront._canonical_locals)
# ---------------------------------------------------------------------------------------------------
# Many rules name local variables.  When a function differs from the one the rules were written for *only* in the names of
# its locals (same AST once local names are masked), the recorded names are written back before any rule looks at it.
_PYFIXTURE = None


def local_names(fn):
    """local variable names of fn (bound by assignment, for, with, comprehension, except) in order of first occurrence; parameters and global/nonlocal names excluded"""
    params_ = {a.arg for a in fn.args.args + fn.args.kwonlyargs + getattr(fn.args, "posonlyargs", [])}
    if fn.args.vararg:
        params_.add(fn.args.vararg.arg)
    if fn.args.kwarg:
        params_.add(fn.args.kwarg.arg)
    skip = set(params_)
    for n in ast.walk(fn):
        if isinstance(n, (ast.Global, ast.Nonlocal)):
            skip |= set(n.names)
        if n is not fn and isinstance(n, (ast.FunctionDef, ast.AsyncFunctionDef, ast.Lambda)):
            a = n.args
            skip |= {x.arg for x in a.args + a.kwonlyargs + getattr(a, "posonlyargs", [])}
    order = []
    for n in _doc_walk(fn):
        if isinstance(n, ast.Name) and isinstance(n.ctx, (ast.Store, ast.Del)) and n.id not in skip and n.id not in order:
            order.append(n.id)
        if isinstance(n, ast.ExceptHandler) and n.name and n.name not in skip and n.name not in order:
            order.append(n.name)
    return order


def _doc_walk(node):
    yield node
    for c in ast.iter_child_nodes(node):
        yield from _doc_walk(c)


def masked_digest(fn, names):
    """digest of the function with every local name replaced by its position in `names`"""
    import hashlib
    idx = {n: "L%d" % i for i, n in enumerate(names)}

    def mask(node):
        if isinstance(node, ast.Name):
            return "N(%s)" % idx.get(node.id, node.id)
        if isinstance(node, ast.ExceptHandler):
            return "EH(%s,%s,%s)" % (mask(node.type) if node.type else "", idx.get(node.name, node.name), [mask(b) for b in node.body])
        if isinstance(node, ast.AST):
            parts = []
            for f, v in ast.iter_fields(node):
                if f in ("ctx", "type_comment"):
                    continue
                parts.append("%s=%s" % (f, mask(v)))
            return "%s(%s)" % (type(node).__name__, ",".join(parts))
        if isinstance(node, list):
            return "[" + ",".join(mask(x) for x in node) + "]"
        return repr(node)
    return hashlib.sha1(mask(fn).encode()).hexdigest()


def canonical_locals(mod):
    global _PYFIXTURE
    if _PYFIXTURE is None:
        import json
        try:
            with open(os.path.join(os.path.dirname(os.path.abspath(__file__)), "pylocals_fixture.json")) as f:
                _PYFIXTURE = json.load(f)
        except Exception:
            _PYFIXTURE = {}
        import sys
        if _PYFIXTURE.get("__python__") != "%d.%d" % sys.version_info[:2]:
            _PYFIXTURE = {}         # the digests depend on the ast module of the interpreter that recorded them
    done = set()
    for q, fn in mod.functions.items():
        if id(fn) in done:
            continue
        done.add(id(fn))
        ent = _PYFIXTURE.get("%s:%s" % (mod.rel, q))
        if not ent:
            continue
        cur = local_names(fn)
        want = ent["names"]
        if cur == want or len(cur) != len(want) or len(set(want)) != len(want):
            continue
        if masked_digest(fn, cur) != ent["digest"]:
            continue
        m = dict(zip(cur, want))
        for n in ast.walk(fn):
            if isinstance(n, ast.Name) and n.id in m:
                n.id = m[n.id]
            elif isinstance(n, ast.ExceptHandler) and n.name in m:
                n.name = m[n.name]


def _prop_kind(fn):
    for d in fn.decorator_list:
        if isinstance(d, ast.Name) and d.id == "property":
            return "getter"
        if isinstance(d, ast.Attribute) and d.attr in ("setter", "getter", "deleter"):
            return d.attr
    return None


class Repo:
    def __init__(self, root, ctx=None):
        self.root = root
        self.ctx = ctx
        self._mods = {}

    def mod(self, rel):
        m = self._mods.get(rel)
        if m is None:
            m = Mod(self.root, rel)
            self._mods[rel] = m
            if self.ctx is not None:
                self.ctx.analysed_files.add(rel)
        return m

    def func(self, rel, qual):
        f = self.mod(rel).func(qual)
        if self.ctx is not None:
            self.ctx.analysed_functions.add(rel + ":" + qual)
        return f

    def exists(self, rel):
        return os.path.exists(os.path.join(self.root, rel))

    def all_py(self, sub="mdtraj"):
        res = []
        for dp, dn, fn in os.walk(os.path.join(self.root, sub)):
            dn[:] = [d for d in dn if d not in ("__pycache__", "tests")]
            for f in fn:
                if f.endswith((".py", ".pyx", ".pxi")):
                    res.append(os.path.relpath(os.path.join(dp, f), self.root))
        return sorted(res)


# ---------------------------------------------------------------------------
# small AST helpers shared by the rules
# ---------------------------------------------------------------------------

def dotted(node):
    """'a.b.c' for Name/Attribute chains, else None."""
    parts = []
    while isinstance(node, ast.Attribute):
        parts.append(node.attr)
        node = node.value
    if isinstance(node, ast.Name):
        parts.append(node.id)
        return ".".join(reversed(parts))
    return None


def call_name(call):
    return dotted(call.func) if isinstance(call, ast.Call) else None


def calls(node, name=None):
    """All Call nodes under node (optionally whose dotted name ends with name)."""
    res = []
    for n in ast.walk(node):
        if isinstance(n, ast.Call):
            d = dotted(n.func)
            if name is None or (d is not None and (d == name or d.endswith("." + name))):
                res.append(n)
    return res


def kwarg(call, name, pos=None):
    for k in call.keywords:
        if k.arg == name:
            return k.value
    if pos is not None and len(call.args) > pos and not any(isinstance(a, ast.Starred) for a in call.args[:pos + 1]):
        return call.args[pos]
    return None


def names_in(node):
    return {n.id for n in ast.walk(node) if isinstance(n, ast.Name)}


def attrs_in(node):
    """dotted names of all attribute chains / names in node."""
    res = set()
    for n in ast.walk(node):
        if isinstance(n, (ast.Attribute, ast.Name)):
            d = dotted(n)
            if d:
                res.add(d)
    return res


def src(node):
    try:
        return ast.unparse(node)
    except Exception:
        return "<%s>" % type(node).__name__


def const(node):
    """Python constant value of a literal node (numbers, strings, tuples/lists of them)."""
    try:
        return ast.literal_eval(node)
    except Exception:
        return None


def params(fn):
    a = fn.args
    return [x.arg for x in a.posonlyargs + a.args + a.kwonlyargs]


def param_default(fn, name):
    a = fn.args
    pos = a.posonlyargs + a.args
    d = a.defaults
    off = len(pos) - len(d)
    for i, p in enumerate(pos):
        if p.arg == name:
            return d[i - off] if i >= off else None
    for p, dv in zip(a.kwonlyargs, a.kw_defaults):
        if p.arg == name:
            return dv
    return None


def walk_no_nested(node):
    """Walk statements/expressions of a function body without entering nested defs/classes."""
    # pre-order, document order
    stack = list(reversed(list(ast.iter_child_nodes(node))))
    while stack:
        n = stack.pop()
        yield n
        if isinstance(n, (ast.FunctionDef, ast.AsyncFunctionDef, ast.ClassDef, ast.Lambda)):
            continue
        stack.extend(reversed(list(ast.iter_child_nodes(n))))


def local_defs(fn):
    """{local name: [defining expression or None when the value is not a plain expression (unpacking from a call, loop variable, augmented)]}"""
    defs = {}
    for n in walk_no_nested(fn):
        if isinstance(n, ast.Assign):
            for t in n.targets:
                if isinstance(t, ast.Name):
                    defs.setdefault(t.id, []).append(n.value)
                elif isinstance(t, (ast.Tuple, ast.List)):
                    for k, e in enumerate(t.elts):
                        if isinstance(e, ast.Name):
                            v = n.value.elts[k] if isinstance(n.value, (ast.Tuple, ast.List)) and len(n.value.elts) == len(t.elts) else None
                            defs.setdefault(e.id, []).append(v)
        elif isinstance(n, (ast.AugAssign, ast.AnnAssign)) and isinstance(n.target, ast.Name):
            defs.setdefault(n.target.id, []).append(None)
        elif isinstance(n, (ast.For, ast.comprehension)):
            for e in ast.walk(n.target):
                if isinstance(e, ast.Name):
                    defs.setdefault(e.id, []).append(None)
    return defs


def inline_locals(fn, expr, depth=6):
    """Source text of `expr` with every local that has exactly one plain definition `name = <expr>` in `fn` replaced by that expression
    (recursively). A local with several definitions is rendered as name{def1 | def2}, so a comparison against the expected text fails and the
    message shows which alternative values reach the use."""
    def _fresh(e):
        return ast.parse(src(e), mode="eval").body
    defs = local_defs(fn)
    pnames = set(params(fn))

    class T(ast.NodeTransformer):
        def __init__(self, d):
            self.d = d

        def visit_Name(self, node):
            if not isinstance(node.ctx, ast.Load) or node.id in pnames or node.id not in defs:
                return node
            ds = defs[node.id]
            if len(ds) == 1 and ds[0] is not None and self.d > 0:
                return T(self.d - 1).visit(_fresh(ds[0]))
            if len(ds) > 1:
                alts = " | ".join(src(x) if x is not None else "?" for x in ds)
                return ast.Name(id="%s{%s}" % (node.id, alts), ctx=ast.Load())
            return node
    return src(T(depth).visit(_fresh(expr)))


def fold_str(fn, expr, depth=6, env=None):
    """A string-valued expression folded to one template string, or None: constants, `+`, `* <int>`, single-definition locals, f-strings
    (`{expr:spec}` pieces kept as text), `"outer %%d" % (a, b)` with the conversions of the outer string replaced by `{a}` `{b}`,
    and `"".join([<f-string> for <vars> in <constant list>])` expanded element by element."""
    env = env or {}
    if depth < 0 or expr is None:
        return None
    if isinstance(expr, ast.Constant):
        return expr.value if isinstance(expr.value, str) else None
    if isinstance(expr, ast.Name):
        if expr.id in env:
            return None
        ds = local_defs(fn).get(expr.id, [])
        return fold_str(fn, ds[0], depth - 1, env) if len(ds) == 1 and ds[0] is not None else None
    if isinstance(expr, ast.JoinedStr):
        out = ""
        for v in expr.values:
            if isinstance(v, ast.Constant):
                out += str(v.value)
            elif isinstance(v, ast.FormattedValue):
                e = v.value
                if env:
                    class _Sub(ast.NodeTransformer):
                        def visit_Name(self, node):
                            return ast.Constant(value=env[node.id]) if node.id in env else node
                    e = _Sub().visit(ast.parse(src(e), mode="eval").body)
                spec = fold_str(fn, v.format_spec, depth - 1, env) if v.format_spec is not None else None
                out += "{" + src(e) + ((":" + spec) if spec else "") + "}"
        return out
    if isinstance(expr, ast.BinOp):
        if isinstance(expr.op, ast.Add):
            a, b = fold_str(fn, expr.left, depth - 1, env), fold_str(fn, expr.right, depth - 1, env)
            return a + b if a is not None and b is not None else None
        if isinstance(expr.op, ast.Mult):
            for s_, k_ in ((expr.left, expr.right), (expr.right, expr.left)):
                if isinstance(k_, ast.Constant) and isinstance(k_.value, int):
                    a = fold_str(fn, s_, depth - 1, env)
                    return a * k_.value if a is not None else None
            return None
        if isinstance(expr.op, ast.Mod):
            outer = fold_str(fn, expr.left, depth - 1, env)
            if outer is None:
                return None
            args = [src(e) for e in expr.right.elts] if isinstance(expr.right, ast.Tuple) else [src(expr.right)]
            it = iter(args)
            import re as _re
            marked = outer.replace("%%", "\\x00")
            marked = _re.sub(r"%[-0-9.]*[dsfgrei]", lambda m: "{" + next(it, "?") + "}", marked)
            return marked.replace("\\x00", "%")
    if isinstance(expr, ast.Call) and isinstance(expr.func, ast.Attribute) and expr.func.attr == "join" and isinstance(expr.func.value, ast.Constant) and expr.args:
        sep = expr.func.value.value
        a = expr.args[0]
        if isinstance(a, (ast.ListComp, ast.GeneratorExp)) and len(a.generators) == 1 and not a.generators[0].ifs:
            g = a.generators[0]
            it = g.iter
            if isinstance(it, ast.Name):
                ds = local_defs(fn).get(it.id, [])
                it = ds[0] if len(ds) == 1 else None
            items = const(it) if it is not None else None
            if items is None:
                return None
            parts = []
            for item in items:
                tv = g.target
                names = [tv.id] if isinstance(tv, ast.Name) else [e.id for e in tv.elts if isinstance(e, ast.Name)] if isinstance(tv, ast.Tuple) else None
                if names is None:
                    return None
                vals = [item] if isinstance(tv, ast.Name) else list(item)
                p_ = fold_str(fn, a.elt, depth - 1, dict(env, **dict(zip(names, vals))))
                if p_ is None:
                    return None
                parts.append(p_)
            return sep.join(parts)
        if isinstance(a, (ast.List, ast.Tuple)):
            parts = [fold_str(fn, e, depth - 1, env) for e in a.elts]
            return sep.join(parts) if all(p_ is not None for p_ in parts) else None
    return None
