"""Algebraic value numbering for straight-line numeric Python (numpy) code.

The Python-side twin of sa/symval.py: assignments of a function body are evaluated in
order into rational normal forms (sa.poly.Rat) over the parameters; np.cos / np.sin /
np.sqrt / np.arccos ... become opaque function symbols of their canonical arguments;
small vectors (np.array([x, y, z]), tuples) are carried component-wise; np.sum(v*w),
np.einsum("...i, ...i", v, w) and np.dot are dot products; degree/radian conversions
are multiplications by the symbol `pi`.  `if` statements whose bodies only warn or raise
are skipped; any other control flow or an unknown construct raises Unsupported
(the caller turns it into UNDECIDED).

Relations between opaque symbols (sqrt(u)^2 = u, sin(x)^2 = 1 - cos(x)^2) are applied
by `reduce()` before two values are compared.
"""
from __future__ import annotations

import ast
from fractions import Fraction

from .poly import Poly, Rat, _r
from .pyfront import dotted, call_name, src


class Unsupported(Exception):
    pass


class Vec(tuple):
    pass


PI = Rat(Poly.var("pi"))


class PySym:
    def __init__(self, env=None, positive=()):
        self.env = dict(env or {})
        self.positive = set(positive)   # symbols assumed > 0: sqrt(x^2) = x
        self.opaque = {}    # symbol -> (fname, [args])
        self.returned = None

    # ------------------------------------------------------------------ opaque functions
    def fn(self, name, *args):
        args = [_r(a) for a in args]
        if name == "sqrt" and self.positive:
            red = self.reduce(args[0])
            p = red.poly()
            if p is not None and len(p.t) == 1:
                (m, c), = p.t.items()
                if c == 1 and m and all(e % 2 == 0 and v in self.positive for v, e in m):
                    r = Rat(Poly.const(1))
                    for v, e in m:
                        for _ in range(e // 2):
                            r = r * Rat(Poly.var(v))
                    return r
        for sym, (f, a) in self.opaque.items():
            if f == name and len(a) == len(args) and all(x == y for x, y in zip(a, args)):
                return Rat(Poly.var(sym))
        sym = "%s(%s)" % (name, ",".join(repr(self.reduce(a)) for a in args))
        self.opaque[sym] = (name, args)
        return Rat(Poly.var(sym))

    def reduce(self, v):
        """apply sqrt(u)^2 -> u and sin(x)^2 -> 1 - cos(x)^2 to numerator and denominator"""
        if isinstance(v, Vec):
            return Vec(self.reduce(x) for x in v)
        v = _r(v)
        n, d = v.n, v.d
        for _ in range(6):
            changed = False
            for sym, (f, a) in list(self.opaque.items()):
                if f == "sqrt":
                    repl = a[0]
                elif f == "sin":
                    repl = Rat(Poly.const(1)) - self.fn("cos", a[0]) * self.fn("cos", a[0])
                else:
                    continue
                for which in ("n", "d"):
                    p = n if which == "n" else d
                    if not any(dict(m).get(sym, 0) >= 2 for m in p.t):
                        continue
                    # p = sum_k c_k * sym^k  ->  replace sym^(2j) by repl^j
                    acc = Rat(Poly.const(0))
                    maxe = max(dict(m).get(sym, 0) for m in p.t)
                    for e in range(maxe + 1):
                        ck = p.coeff_of(sym, e)
                        if ck.is_zero():
                            continue
                        term = Rat(ck)
                        for _j in range(e // 2):
                            term = term * repl
                        if e % 2:
                            term = term * Rat(Poly.var(sym))
                        acc = acc + term
                    changed = True
                    if which == "n":
                        n, d = acc.n, d * acc.d
                    else:
                        # 1/p with p -> acc.n/acc.d
                        n, d = n * acc.d, acc.n
            if not changed:
                break
        return Rat(n, d)

    def equal(self, a, b):
        if isinstance(a, Vec) or isinstance(b, Vec):
            return isinstance(a, Vec) and isinstance(b, Vec) and len(a) == len(b) and all(self.equal(x, y) for x, y in zip(a, b))
        d = _r(a) - _r(b)
        if d.n.is_zero():
            return True         # identical already as rational functions of the opaque symbols
        return self.reduce(d).n.is_zero()

    # ------------------------------------------------------------------ expressions
    def ex(self, n):
        if isinstance(n, ast.Constant):
            if isinstance(n.value, bool):
                return Rat(Poly.const(int(n.value)))
            if isinstance(n.value, (int, float)):
                return Rat(Poly.const(Fraction(str(n.value))))
            raise Unsupported("constant %r" % (n.value,))
        if isinstance(n, ast.Name):
            if n.id in self.env:
                return self.env[n.id]
            v = Rat(Poly.var(n.id))
            self.env[n.id] = v
            return v
        if isinstance(n, ast.Attribute):
            d = dotted(n)
            if d in ("np.pi", "math.pi", "numpy.pi"):
                return PI
            if n.attr == "T":
                return self.ex(n.value)
            if n.attr in ("ndim", "shape", "size", "dtype"):
                return Rat(Poly.var(src(n)))
            raise Unsupported("attribute %s" % src(n))
        if isinstance(n, ast.UnaryOp):
            v = self.ex(n.operand)
            if isinstance(n.op, ast.USub):
                return self.neg(v)
            if isinstance(n.op, ast.UAdd):
                return v
            raise Unsupported("unary %s" % src(n))
        if isinstance(n, ast.BinOp):
            return self.binop(n.op, self.ex(n.left), self.ex(n.right), n)
        if isinstance(n, (ast.Tuple, ast.List)):
            return Vec(self.ex(e) for e in n.elts)
        if isinstance(n, ast.Subscript):
            base = self.ex(n.value)
            idx = n.slice
            if isinstance(base, Vec):
                if isinstance(idx, ast.Constant) and isinstance(idx.value, int):
                    return base[idx.value]
                if isinstance(idx, ast.Tuple) and len(idx.elts) == 2 and isinstance(idx.elts[0], ast.Slice) and isinstance(idx.elts[1], ast.Constant):
                    return base[idx.elts[1].value]       # column k of a per-frame table carried as one symbolic row
                if isinstance(idx, ast.Tuple) and all(isinstance(e, ast.Constant) for e in idx.elts):
                    v = base
                    for e in idx.elts:
                        v = v[e.value]
                    return v
            if isinstance(idx, ast.Constant) and isinstance(idx.value, int) and isinstance(n.value, ast.Name):
                key = "%s[%d]" % (n.value.id, idx.value)
                return self.env.setdefault(key, Rat(Poly.var(key)))
            if isinstance(idx, ast.Tuple) and all(isinstance(e, ast.Constant) for e in idx.elts) and isinstance(n.value, ast.Name):
                key = "%s[%s]" % (n.value.id, ",".join(str(e.value) for e in idx.elts))
                return self.env.setdefault(key, Rat(Poly.var(key)))
            raise Unsupported("subscript %s" % src(n))
        if isinstance(n, ast.Call):
            return self.call(n)
        raise Unsupported("expression %s" % type(n).__name__)

    def neg(self, v):
        return Vec(self.neg(x) for x in v) if isinstance(v, Vec) else -v

    def binop(self, op, a, b, n=None):
        if isinstance(a, Vec) or isinstance(b, Vec):
            if isinstance(a, Vec) and isinstance(b, Vec):
                if len(a) != len(b):
                    raise Unsupported("vector length mismatch")
                return Vec(self.binop(op, x, y) for x, y in zip(a, b))
            if isinstance(a, Vec):
                return Vec(self.binop(op, x, b) for x in a)
            return Vec(self.binop(op, a, y) for y in b)
        if isinstance(op, ast.Add):
            return a + b
        if isinstance(op, ast.Sub):
            return a - b
        if isinstance(op, ast.Mult):
            return a * b
        if isinstance(op, ast.Div):
            return a / b
        if isinstance(op, ast.Pow):
            e = b.const_value()
            if e is not None and e.denominator == 1 and 0 <= e <= 8:
                r = Rat(Poly.const(1))
                for _ in range(int(e)):
                    r = r * a
                return r
            if e == Fraction(1, 2):
                return self.fn("sqrt", a)
            raise Unsupported("power %s" % (src(n) if n is not None else "?"))
        raise Unsupported("operator %s" % type(op).__name__)

    def call(self, n):
        cn = call_name(n) or ""
        lf = getattr(self, "localfuncs", {})
        if cn in lf:
            # a helper defined inside the analysed function: evaluated in place on the argument values (closure over the current environment)
            fn = lf[cn]
            ps = [p.arg for p in fn.args.posonlyargs + fn.args.args]
            if len(n.args) + len(n.keywords) != len(ps) or fn.args.defaults:
                raise Unsupported("call of local function %s with defaults / wrong arity" % cn)
            sub = PySym(dict(self.env), self.positive)
            sub.opaque = self.opaque
            sub.localfuncs = lf
            for p_, a in zip(ps, n.args):
                sub.env[p_] = self.ex(a)
            for k in n.keywords:
                sub.env[k.arg] = self.ex(k.value)
            sub.run(fn.body)
            return sub.returned
        if isinstance(n.func, ast.Attribute) and n.func.attr in ("sum", "astype", "copy") and not cn.startswith(("np.", "math.")):
            recv = self.ex(n.func.value)
            if n.func.attr == "sum":
                if isinstance(recv, Vec):
                    tot = Rat(Poly.const(0))
                    for x in recv:
                        tot = tot + x
                    return tot
                return recv
            return recv
        args = [None if (isinstance(a, ast.Constant) and isinstance(a.value, str)) else self.ex(a) for a in n.args]
        last = cn.split(".")[-1]
        if cn in ("np.cos", "np.sin", "np.sqrt", "np.arccos", "np.arcsin", "np.tan", "math.cos", "math.sin", "math.sqrt", "math.acos", "np.arctan2"):
            f = {"arccos": "acos", "acos": "acos", "arcsin": "asin"}.get(last, last)
            if isinstance(args[0], Vec):
                return Vec(self.fn(f, x) for x in args[0])
            return self.fn(f, *args)
        if cn in ("np.radians", "np.deg2rad", "math.radians"):
            return self.binop(ast.Div(), self.binop(ast.Mult(), args[0], PI), Rat(Poly.const(180)))
        if cn in ("np.degrees", "np.rad2deg", "math.degrees"):
            return self.binop(ast.Div(), self.binop(ast.Mult(), args[0], Rat(Poly.const(180))), PI)
        if cn in ("np.array", "np.asarray", "np.stack", "np.vstack", "np.column_stack", "tuple", "list", "np.ascontiguousarray"):
            return args[0]
        if cn in ("np.zeros_like",):
            return Rat(Poly.const(0)) if not isinstance(args[0], Vec) else Vec(Rat(Poly.const(0)) for _ in args[0])
        if cn in ("np.ones_like",):
            return Rat(Poly.const(1))
        if cn in ("np.sum",):
            v = args[0]
            if isinstance(v, Vec):
                tot = Rat(Poly.const(0))
                for x in v:
                    if isinstance(x, Vec):
                        raise Unsupported("np.sum over nested vector")
                    tot = tot + x
                return tot
            return v
        if cn in ("np.einsum",):
            spec = n.args[0].value.replace(" ", "") if isinstance(n.args[0], ast.Constant) else None
            if spec in ("...i,...i", "i,i", "ij,ij->i", "...i,...i->..."):
                a, b = args[1], args[2]
                return self.dot(a, b)
            raise Unsupported("einsum %r" % spec)
        if cn in ("np.dot", "np.inner"):
            return self.dot(args[0], args[1])
        if cn in ("np.cross",):
            a, b = args
            return Vec([a[1] * b[2] - a[2] * b[1], a[2] * b[0] - a[0] * b[2], a[0] * b[1] - a[1] * b[0]])
        if cn in ("np.linalg.norm",):
            return self.fn("sqrt", self.dot(args[0], args[0]))
        if cn in ("np.min", "np.max", "min", "max", "np.amin", "np.amax") and args and args[0] is not None:
            # smallest / largest of a few symbolic values: an opaque function of the *set* of its arguments
            items = list(args[0]) if isinstance(args[0], Vec) else [a for a in args if a is not None]
            if any(isinstance(x, Vec) for x in items):
                raise Unsupported("min/max over nested values")
            items = sorted({repr(self.reduce(x)): x for x in items}.items())
            return self.fn("min" if "min" in last else "max", *[x for _, x in items])
        if cn in ("np.square",):
            return self.binop(ast.Mult(), args[0], args[0])
        if cn in ("np.power",):
            return self.binop(ast.Pow(), args[0], args[1], n)
        if cn in ("np.log", "np.exp", "np.cbrt"):
            if isinstance(args[0], Vec):
                return Vec(self.fn(last, x) for x in args[0])
            return self.fn(last, args[0])
        if cn == "len" and isinstance(n.args[0], ast.Name):
            return Rat(Poly.var("len(%s)" % n.args[0].id))
        if cn in ("np.abs", "abs"):
            return self.fn("abs", args[0])
        if cn in ("float", "np.float64", "np.float32", "np.double"):
            return args[0]
        raise Unsupported("call %s" % cn)

    def dot(self, a, b):
        if not (isinstance(a, Vec) and isinstance(b, Vec)) or len(a) != len(b):
            raise Unsupported("dot of non-vectors")
        tot = Rat(Poly.const(0))
        for x, y in zip(a, b):
            tot = tot + x * y
        return tot

    # ------------------------------------------------------------------ statements
    def run(self, stmts, stop=None):
        for s in stmts:
            if stop is not None and s is stop:
                break
            self.st(s)
        return self

    def bind(self, target, v):
        if isinstance(target, ast.Name):
            self.env[target.id] = v
        elif isinstance(target, (ast.Tuple, ast.List)):
            if not isinstance(v, Vec) or len(v) != len(target.elts):
                raise Unsupported("unpacking %s" % src(target))
            for t, x in zip(target.elts, v):
                self.bind(t, x)
        elif isinstance(target, ast.Subscript):
            # a[mask] = 0.0 clean-ups of almost-zero components do not change exact values
            if not (isinstance(v, Rat) and v.const_value() == 0):
                raise Unsupported("subscript store %s" % src(target))
        else:
            raise Unsupported("assignment target %s" % src(target))

    def st(self, s):
        if isinstance(s, ast.Assign):
            v = self.ex(s.value)
            for t in s.targets:
                self.bind(t, v)
        elif isinstance(s, ast.AugAssign):
            cur = self.ex(s.target)
            self.bind(s.target, self.binop(s.op, cur, self.ex(s.value), s))
        elif isinstance(s, ast.Return):
            self.returned = self.ex(s.value) if s.value is not None else None
        elif isinstance(s, ast.Expr):
            if isinstance(s.value, ast.Constant):
                return          # docstring
            if isinstance(s.value, ast.Call) and (call_name(s.value) or "").split(".")[-1] in ("warn", "write", "print"):
                return
            raise Unsupported("expression statement %s" % src(s)[:40])
        elif isinstance(s, ast.If):
            # only validation branches (warn / raise) may be skipped
            for b in s.body + s.orelse:
                if not (isinstance(b, ast.Raise) or (isinstance(b, ast.Expr) and isinstance(b.value, ast.Call) and (call_name(b.value) or "").split(".")[-1] in ("warn",))):
                    raise Unsupported("conditional with effects: %s" % src(s.test)[:50])
        elif isinstance(s, (ast.Pass, ast.Raise, ast.Assert)):
            return
        elif isinstance(s, ast.FunctionDef):
            if not hasattr(self, "localfuncs"):
                self.localfuncs = {}
            self.localfuncs[s.name] = s
        else:
            raise Unsupported("statement %s" % type(s).__name__)
