"""Cython front-end: desugar .pyx/.pxi to plain Python with identical line numbering.

Cython is not installed in this sandbox, so this is a desugarer of our own that
understands exactly the idioms used by the repository and fails closed
(AnalysisError) on anything else: the result must parse with ``ast``.

Side tables recorded while desugaring:
  * ``cdecls``   : {(scope_line, name): ctype text} for ``cdef T name`` declarations
  * ``addr_of``  : set of (lineno, name-root) passed by address (out-parameters)
  * ``externs``  : {name: prototype text} from ``cdef extern from`` blocks
  * ``includes`` : list of included .pxi file names
  * ``cdef_classes``: names declared with ``cdef class``
  * ``readonly`` : {(class_line, name)} cdef readonly attributes
"""
from __future__ import annotations

import ast
import re

from .core import AnalysisError

_ID = r"[A-Za-z_][A-Za-z_0-9]*"

_CAST_RE = re.compile(
    r"<\s*(?:const\s+|unsigned\s+|signed\s+|struct\s+)*" + _ID + r"(?:\." + _ID + r")*"
    r"(?:\s+" + _ID + r")*\s*(?:\[[^\]<>]*\])?\s*[\*&]*\s*\??\s*>")


def _logical_lines(src):
    """Yield (start_idx, end_idx_exclusive, pieces) over physical line indices.

    pieces: list of (kind, text) with kind in {'code','str','comment'} covering the
    logical line (newlines inside the logical line kept in text)."""
    lines = src.split("\n")
    i = 0
    n = len(lines)
    while i < n:
        start = i
        depth = 0
        pieces = []
        buf = []
        in_str = None  # quote token
        cont = False
        while i < n:
            line = lines[i]
            j = 0
            L = len(line)
            cont = False
            while j < L:
                c = line[j]
                if in_str:
                    if c == "\\" and j + 1 < L:
                        buf.append(line[j:j + 2]); j += 2; continue
                    if line.startswith(in_str, j):
                        buf.append(in_str); j += len(in_str)
                        pieces.append(("str", "".join(buf))); buf = []
                        in_str = None
                        continue
                    buf.append(c); j += 1
                    continue
                if c == "#":
                    if buf:
                        pieces.append(("code", "".join(buf))); buf = []
                    pieces.append(("comment", line[j:]))
                    j = L
                    break
                if c in "\"'":
                    # string prefix letters stay in code piece; harmless
                    if buf:
                        pieces.append(("code", "".join(buf))); buf = []
                    q = line[j:j + 3] if line[j:j + 3] in ('"""', "'''") else c
                    in_str = q
                    buf.append(q); j += len(q)
                    continue
                if c in "([{":
                    depth += 1
                elif c in ")]}":
                    depth -= 1
                if c == "\\" and j == L - 1:
                    cont = True
                    j += 1
                    continue
                buf.append(c); j += 1
            i += 1
            if in_str:
                if len(in_str) == 3:
                    buf.append("\n")
                    continue
                # unterminated single-quote string: give up on this line
                pieces.append(("str", "".join(buf))); buf = []
                in_str = None
            if depth > 0 or cont:
                if buf:
                    pieces.append(("code", "".join(buf))); buf = []
                pieces.append(("nl", "\n"))
                continue
            break
        if buf:
            pieces.append(("code", "".join(buf)))
        yield start, i, pieces


def _mask(pieces):
    """Return (text, restore) where strings are replaced by placeholders."""
    strs = []
    out = []
    for kind, t in pieces:
        if kind == "code":
            out.append(t)
        elif kind == "str":
            strs.append(t)
            out.append("\x00%d\x00" % (len(strs) - 1))
        elif kind == "nl":
            out.append(" ")
        # comments dropped
    text = "".join(out)

    def restore(s):
        return re.sub(r"\x00(\d+)\x00", lambda m: strs[int(m.group(1))], s)
    return text, restore


def _split_top(s, sep=","):
    parts, depth, cur = [], 0, []
    for c in s:
        if c in "([{":
            depth += 1
        elif c in ")]}":
            depth -= 1
        if c == sep and depth == 0:
            parts.append("".join(cur)); cur = []
        else:
            cur.append(c)
    parts.append("".join(cur))
    return parts


def _find_top_eq(s):
    depth = 0
    for k, c in enumerate(s):
        if c in "([{":
            depth += 1
        elif c in ")]}":
            depth -= 1
        elif c == "=" and depth == 0:
            if s[k:k + 2] == "==" or (k > 0 and s[k - 1] in "!<>="):
                continue
            return k
    return -1


def _param_name(p):
    """Strip the C type from one parameter declaration."""
    p = p.strip()
    if not p:
        return p
    if p.startswith("*"):
        return p
    k = _find_top_eq(p)
    default = None
    if k >= 0:
        default = p[k + 1:].strip()
        p = p[:k].strip()
    p = re.sub(r"\s+(not|or)\s+None\s*$", "", p)
    # last identifier outside brackets
    depth = 0
    last = None
    for m in re.finditer(r"[\[\]\(\)]|" + _ID, p):
        t = m.group(0)
        if t in "[(":
            depth += 1
        elif t in "])":
            depth -= 1
        elif depth == 0:
            last = t
    if last is None:
        raise AnalysisError("pyx: cannot find parameter name in %r" % p)
    return last + ("=" + default if default is not None else "")


def _strip_params(sig):
    """'name(params)' -> 'name(untyped params)'."""
    k = sig.index("(")
    depth = 0
    for e in range(k, len(sig)):
        if sig[e] in "([{":
            depth += 1
        elif sig[e] in ")]}":
            depth -= 1
            if depth == 0:
                break
    inner = sig[k + 1:e]
    params = [_param_name(p) for p in _split_top(inner) if p.strip()]
    return sig[:k] + "(" + ", ".join(params) + ")", sig[e + 1:]


_TYPE_HEAD = re.compile(r"\s*(?:const\s+|unsigned\s+|signed\s+|struct\s+)*" + _ID + r"(?:\." + _ID + r")*(?:\s+" + _ID + r")*\s*")


def _cast_end(text, k):
    """text[k] == '<'.  Return index after the matching '>' if this is a cast, else -1."""
    m = _TYPE_HEAD.match(text, k + 1)
    if not m:
        return -1
    j = m.end()
    if j < len(text) and text[j] == "[":
        depth = 0
        while j < len(text):
            if text[j] == "[":
                depth += 1
            elif text[j] == "]":
                depth -= 1
                if depth == 0:
                    j += 1
                    break
            j += 1
        else:
            return -1
    while j < len(text) and text[j] in " *&?":
        j += 1
    if j < len(text) and text[j] == ">":
        return j + 1
    return -1


def _strip_casts(text):
    k = 0
    while True:
        k = text.find("<", k)
        if k < 0:
            return text
        e = _cast_end(text, k)
        if e < 0:
            k += 1
            continue
        pre = text[:k].rstrip()
        post = text[e:].lstrip()
        if pre and not (pre[-1] in "(,=[:+-*/%<>&|" or re.search(r"(^|\W)(return|and|or|not|in|if|else|print)$", pre)):
            k += 1
            continue
        if not post or not re.match(r"[A-Za-z_\x00&\(\-0-9\[]", post):
            k += 1
            continue
        text = text[:k] + text[e:]


def _expr_fix(text, lineno, rec):
    """Remove casts, address-of, 'new'."""
    text = _strip_casts(text)

    def amp_sub(m):
        rec["addr_of"].add((lineno, m.group(2)))
        return m.group(1) + m.group(2)
    text = re.sub(r"((?:^|[\(,=\[]|return)\s*)&\s*(" + _ID + ")", amp_sub, text)
    text = re.sub(r"(^|[=\(,\s])new\s+(" + _ID + r")", r"\1\2", text)
    return text


class PyxModule:
    def __init__(self, path, src):
        self.path = path
        self.orig = src
        self.rec = {"cdecls": {}, "addr_of": set(), "externs": {}, "includes": [],
                    "cdef_classes": set(), "readonly": set(), "cimports": []}
        self.py_src = self._desugar(src)
        try:
            self.tree = ast.parse(self.py_src, filename=path)
        except SyntaxError as e:
            bad = self.py_src.split("\n")[(e.lineno or 1) - 1]
            raise AnalysisError("pyx front-end cannot desugar %s:%s (%s): %r" % (path, e.lineno, e.msg, bad))

    # ------------------------------------------------------------------
    def _desugar(self, src):
        lines = src.split("\n")
        out = list(lines)
        rec = self.rec
        skip_block_indent = None   # inside a cdef extern / struct / enum block
        extern_block = False
        cdef_block_indent = None   # inside a 'cdef:' block

        for start, end, pieces in _logical_lines(src):
            has_code = any(k == "code" and t.strip() for k, t in pieces) or any(k == "str" for k, t in pieces)
            if not has_code:
                continue
            text, restore = _mask(pieces)
            indent = len(text) - len(text.lstrip())
            body = text.strip()
            ind = text[:indent]

            def emit(s):
                out[start] = ind + restore(s)
                for k in range(start + 1, end):
                    out[k] = ""

            if skip_block_indent is not None:
                if indent > skip_block_indent:
                    ind = " " * (skip_block_indent + 4)
                    if extern_block:
                        m = re.search(r"(" + _ID + r")\s*\(", body)
                        if m:
                            rec["externs"][m.group(1)] = restore(body)
                    emit("pass")
                    continue
                skip_block_indent = None
                extern_block = False
            if cdef_block_indent is not None:
                if indent > cdef_block_indent:
                    body = "cdef " + body
                else:
                    cdef_block_indent = None

            # --- statements that vanish -------------------------------------
            if re.match(r"(from\s+\S+\s+)?cimport\b", body):
                rec["cimports"].append(restore(body))
                emit("pass"); continue
            if body.startswith("ctypedef "):
                emit("pass"); continue
            if re.match(r"include\s+\x00", body):
                rec["includes"].append(restore(body.split(None, 1)[1]).strip("'\""))
                emit("pass"); continue
            m = re.match(r"DEF\s+(.*)$", body)
            if m:
                emit(m.group(1)); continue
            if re.match(r"cdef\s+extern\s+from\b.*:$", body):
                skip_block_indent = indent; extern_block = True
                emit("if 1:"); continue
            if re.match(r"cdef\s+(struct|enum|union)\b.*:$", body) or re.match(r"cdef\s+cppclass\b.*:$", body):
                skip_block_indent = indent
                emit("if 1:"); continue
            if re.match(r"cdef\s*:$", body):
                cdef_block_indent = indent
                emit("if 1:"); continue
            m = re.match(r"cdef\s+class\s+(" + _ID + r")(.*)$", body)
            if m:
                rec["cdef_classes"].add(m.group(1))
                emit("class " + m.group(1) + m.group(2)); continue
            if re.match(r"with\s+nogil\s*:$", body) or re.match(r"with\s+gil\s*:$", body):
                emit("if 1:"); continue
            m = re.match(r"with\s+nogil\s*,\s*(.*)$", body)
            if m:
                emit("with " + m.group(1)); continue

            # --- function definitions ---------------------------------------
            if re.match(r"(cdef|cpdef)\b", body) and body.endswith(":") and "(" in body and _find_top_eq(body[:body.index("(")]) < 0:
                head = re.sub(r"^(cdef|cpdef)\s+", "", body[:-1].rstrip())
                head = re.sub(r"^(inline|api|public)\s+", "", head)
                k = head.index("(")
                pre = head[:k].rstrip()
                name = re.findall(_ID, pre)[-1]
                sig, tail = _strip_params(name + head[k:])
                emit("def " + sig + ":"); continue
            if re.match(r"def\s", body) and body.rstrip().endswith(":"):
                head = body[4:].rstrip()[:-1].rstrip()
                sig, tail = _strip_params(head)
                emit("def " + sig + ":"); continue

            # --- cdef variable declarations ---------------------------------
            if re.match(r"(cdef|cpdef)\b", body):
                decl = re.sub(r"^(cdef|cpdef)\s+", "", body)
                ro = False
                mm = re.match(r"(readonly|public)\s+", decl)
                if mm:
                    ro = True
                    decl = decl[mm.end():]
                parts = _split_top(decl)
                stmts = []
                ctype = None
                for idx, p in enumerate(parts):
                    p = p.strip()
                    k = _find_top_eq(p)
                    init = None
                    if k >= 0:
                        init = p[k + 1:].strip()
                        p = p[:k].strip()
                    if idx == 0:
                        # type + name
                        depth = 0
                        last = None
                        for m2 in re.finditer(r"[\[\]\(\)]|" + _ID, p):
                            t = m2.group(0)
                            if t in "[(":
                                depth += 1
                            elif t in "])":
                                depth -= 1
                            elif depth == 0:
                                last = m2
                        if last is None:
                            raise AnalysisError("pyx: cannot parse cdef %r at %s:%d" % (body, self.path, start + 1))
                        name = last.group(0)
                        ctype = p[:last.start()].strip()
                        # array declarator 'float x[3]'
                    else:
                        name = re.findall(_ID, p)[0]
                    rec["cdecls"][(start + 1, name)] = ctype
                    if ro:
                        rec["readonly"].add(name)
                    if init is not None:
                        stmts.append("%s = %s" % (name, _expr_fix(init, start + 1, rec)))
                emit("; ".join(stmts) if stmts else "pass")
                continue

            # --- ordinary statement: expression-level fixes ------------------
            new = _expr_fix(body, start + 1, rec)
            # 'for i from a <= i < b:' legacy loops
            m = re.match(r"for\s+(" + _ID + r")\s+from\s+(.+?)\s*<=\s*\1\s*<\s*(.+):$", new)
            if m:
                new = "for %s in range(%s, %s):" % (m.group(1), m.group(2), m.group(3))
            if new != body or cdef_block_indent is not None:
                emit(new)
        return "\n".join(out)


def parse_pxd_externs(src):
    """Return {name: prototype text} for the extern declarations of a .pxd file."""
    res = {}
    for line in src.split("\n"):
        s = line.split("#")[0].strip()
        m = re.match(r"(?:[\w\.\*\s]+?)\b(" + _ID + r")\s*\((.*)\)\s*(nogil)?\s*$", s)
        if m and not s.startswith(("cdef extern", "ctypedef", "def ", "cdef class")):
            res[m.group(1)] = s
    return res
