"""C01  Save then load reproduces the trajectory (structural necessary conditions of a correct round trip).

R1 dispatch tables agree: saver / file-object class / loader per writable extension
R2 unit flow: lengths are converted nm -> native(F) on save and native(F) -> nm on load, exactly once; angles and times never
R3 native-unit oracle: each class's distance_unit is the unit its format specifies; self-describing unit strings agree
R4 fixed-width layout agreement between writers and readers (PDB ATOM / CRYST1, mdcrd, rst7, gro prefix)
R5 token / permutation tables (xyz, lammpstrj tokens; gro box permutation; dcd / dtr cell field mapping; nc / h5 variable names)
R6 per-frame indexing in the multi-file restart writers
"""
from __future__ import annotations

import ast
import itertools
import re

from ..core import AnalysisError
from ..cfg import CFG
from ..flow import Defs, deps
from ..pyfront import dotted, call_name, kwarg, params, src, walk_no_nested, const
from .. import formats as F
from .. import layout as L

EXPLANATION = (
    "Writer/reader agreement decided on the source: the three dispatch tables (Trajectory._savers, FormatRegistry loaders "
    "and file objects) are extracted and compared; a units-of-length flow check establishes that every length-carrying "
    "value crossing the file boundary passes exactly one in_units_of with (Trajectory unit, class unit) in the right order and "
    "that the class unit equals the unit the format's specification fixes (the static stand-in for an independent reader: a unit "
    "error that cancels in save-then-load is still reported); a fixed-width layout engine turns the writers' format strings into "
    "column spans and compares them with the readers' constant slices; token orders, the GRO box permutation, the DCD/DTR cell "
    "field mapping and the NetCDF/HDF5 variable names are compared as tables; per-frame indexing in the restart writers is a "
    "dependence check on the loop variable.")
NOT_DECIDED = ["equality of coordinates within the format's precision (numerical)", "XTC compression / 9-atom threshold (C code, numerical)",
               "value ranges against field widths (overflow)", "gro time regex vs the %s spelling of floats"]
ASSUMPTIONS = ["in_units_of(q, a, b) converts from a to b and is the only unit conversion used at the file boundary",
               "the format specifications fix: xtc/trr/gro/h5/lh5 nm; dcd/netcdf/rst7/ncrst/mdcrd/xyz/lammpstrj(real)/pdb/dtr/arc angstrom"]
FLOORS = {"C01-R9": 19, "C01-R8": 54, "C01-R1": 50, "C01-R2": 60, "C01-R3": 20, "C01-R4": 9, "C01-R5": 25, "C01-R6": 8, "C01-R7": 6}

TRAJ = "mdtraj/core/trajectory.py"
WRITABLE = [".h5", ".xtc", ".trr", ".dcd", ".nc", ".netcdf", ".ncdf", ".mdcrd", ".crd", ".xyz", ".xyz.gz", ".lammpstrj", ".gro",
            ".pdb", ".pdb.gz", ".dtr", ".rst7", ".ncrst"]
LENGTH_SRC = ("self.xyz", "self._xyz", "self.unitcell_lengths", "self._unitcell_lengths", "self.unitcell_vectors")
NONLENGTH_SRC = ("self.unitcell_angles", "self._unitcell_angles", "self.time", "self._time")
CLS2KEY = {v[1]: k for k, v in F.CLASSES.items()}


def _savers(ctx):
    fn = ctx.py.func(TRAJ, "Trajectory._savers")
    tab = {}
    for n in ast.walk(fn):
        if isinstance(n, ast.Dict):
            for k, v in zip(n.keys, n.values):
                d = dotted(v)
                if isinstance(const(k), str) and d and d.startswith("self."):
                    tab[const(k)] = d[5:]
    if len(tab) < 15:
        raise AnalysisError("_savers() table not recognised")
    return tab


def _class_unit(ctx, key):
    """distance_unit of a file class: class attribute or assignment in __cinit__/__init__."""
    rel, cls = F.rel_cls(key)
    m = ctx.py.mod(rel)
    v = m.class_assign(cls, "distance_unit")
    if v is not None and isinstance(const(v), str):
        return const(v), v
    for ctor in ("__cinit__", "__init__"):
        fn = m.functions.get("%s.%s" % (cls, ctor))
        if fn is None:
            continue
        for n in walk_no_nested(fn):
            if isinstance(n, ast.Assign) and dotted(n.targets[0]) == "self.distance_unit" and isinstance(const(n.value), str):
                return const(n.value), n
    return None, m.cls(cls)



def _write_args(w, fn, cfg):
    """(keyword or None, expression, flow node where it is evaluated) for every argument of a write call.  Options collected in a local dict
    and splatted (`opts = {}; opts["unitcell_lengths"] = ...; f.write(..., **opts)`, `opts = dict(k=v)`, `opts = {"k": v}`) are taken apart
    into the values stored under each key, each at its own statement."""
    out = [(None, a, cfg.node_containing(w)) for a in w.args]
    for k in w.keywords:
        if k.arg is not None or not isinstance(k.value, ast.Name):
            out.append((k.arg, k.value, cfg.node_containing(w)))
            continue
        d = k.value.id
        found = False
        for st in walk_no_nested(fn):
            if isinstance(st, ast.Assign) and len(st.targets) == 1:
                t = st.targets[0]
                if isinstance(t, ast.Subscript) and isinstance(t.value, ast.Name) and t.value.id == d and isinstance(t.slice, ast.Constant) and isinstance(t.slice.value, str):
                    out.append((t.slice.value, st.value, cfg.node_containing(st.value)))
                    found = True
                elif isinstance(t, ast.Name) and t.id == d:
                    if isinstance(st.value, ast.Dict) and all(isinstance(x, ast.Constant) for x in st.value.keys):
                        out += [(x.value, v, cfg.node_containing(v)) for x, v in zip(st.value.keys, st.value.values)]
                        found = True
                    elif isinstance(st.value, ast.Call) and call_name(st.value) == "dict" and not st.value.args:
                        out += [(x.arg, x.value, cfg.node_containing(x.value)) for x in st.value.keywords if x.arg]
                        found = True
        if not found:
            out.append((None, k.value, cfg.node_containing(w)))
    return out

def check(ctx):
    ctx.rule("C01-R1", "for every writable extension a saver exists, it instantiates the class registered as file object for the extension, and a loader is registered")
    ctx.rule("C01-R2", "every length-carrying argument of f.write in a saver is in_units_of(x, Trajectory._distance_unit, <class>.distance_unit) (or the class unit is nm); "
                       "every length read back is in_units_of(x, self.distance_unit, Trajectory._distance_unit); angles / times are never length-converted")
    ctx.rule("C01-R3", "distance_unit of each file class equals the unit fixed by the format specification; unit strings written into HDF5 / NetCDF files agree with it")
    ctx.rule("C01-R4", "every constant column slice of a fixed-width reader coincides with one writer field (plus blanks); widths / decimals equal the published tables")
    ctx.rule("C01-R5", "token orders, the GRO box permutation, DCD/DTR cell field mapping and NetCDF/HDF5 variable names agree between writer and reader")
    ctx.rule("C01-R7", "inverse pairs of the text formats: LAMMPS bounding-box offsets (writer adds what the reader subtracts); free-format time stamps are written with a round-trip conversion")
    from .c17 import lammps_bounds
    lammps_bounds(ctx, "C01-R7")
    r7_time_text(ctx)
    r4_overflow(ctx)
    r4_box_lookahead(ctx)
    r8_text_round_trip(ctx)
    r8_pdb(ctx)
    r9_end_to_end(ctx)
    r9_end_to_end_stores(ctx)
    r9_end_to_end_xdr(ctx)
    r9_end_to_end_dcd(ctx)
    r2_fields_unconditional(ctx)
    ctx.rule("C01-R9", "save then load end to end (saver, file class, text, file class, loader all evaluated; unit conversion symbolic): the loaded trajectory carries the coordinates, cell and time that were saved, in nm / ps / degrees")
    ctx.rule("C01-R8", "text formats (xyz, mdcrd, lammpstrj, gro): write() and read() of the file class both evaluated - what is read back from the text written is what went in (coordinates, cell, time), laid out as the format tables say")
    ctx.rule("C01-R6", "in `for i in range(self.n_frames)` loops of savers every per-frame argument of f.write is subscripted by the loop variable")
    reg = F.registry(ctx)
    savers = _savers(ctx)
    tmod = ctx.py.mod(TRAJ)

    # Trajectory._distance_unit
    du = tmod.class_assign("Trajectory", "_distance_unit")
    ctx.decide(du is not None and const(du) == "nanometers", "C01-R3", du or tmod.cls("Trajectory"), TRAJ, "Trajectory", "_distance_unit == nanometers", "",
               "Trajectory._distance_unit is %s" % (src(du) if du is not None else None))

    # ---------------- R1 + R2(save) + R6 ---------------------------------------------------------
    saver_class = {}
    for ext in WRITABLE:
        sname = savers.get(ext)
        ctx.decide(sname is not None, "C01-R1", tmod.cls("Trajectory"), TRAJ, "Trajectory._savers", "saver for %s" % ext, sname or "", "no saver for writable extension %s" % ext)
        if sname is None:
            continue
        fn = ctx.py.func(TRAJ, "Trajectory." + sname)
        classes = sorted({call_name(n) for n in walk_no_nested(fn) if isinstance(n, ast.Call) and call_name(n) in CLS2KEY})
        fo = reg["fileobjects"].get(ext)
        ok = fo is not None and classes == [fo[1]]
        ctx.decide(ok, "C01-R1", fn, TRAJ, "Trajectory." + sname, "%s: saver class == registered file object" % ext, "%s" % classes,
                   "save_%s writes with %s but md.open / iterload use %s for %s" % (sname[5:], classes, fo[1] if fo else None, ext))
        ctx.decide(ext in reg["loaders"], "C01-R1", fn, TRAJ, "Trajectory." + sname, "%s: loader registered" % ext, "", "no loader registered for %s" % ext)
        if classes:
            saver_class[sname] = classes[0]

    for sname, cls in sorted(saver_class.items()):
        key = CLS2KEY[cls]
        unit, _ = _class_unit(ctx, key)
        fn = ctx.py.func(TRAJ, "Trajectory." + sname)
        q = "Trajectory." + sname
        cfg = CFG(fn)
        defs = Defs(cfg)
        writes = [n for n in walk_no_nested(fn) if isinstance(n, ast.Call) and call_name(n) == "f.write"]
        if not writes:
            ctx.undecided("C01-R2", fn, TRAJ, q, "f.write", "no f.write call found")
            continue
        for w in writes:
            for (kwname, a, node) in _write_args(w, fn, cfg):
                label = kwname or src(a)[:25]
                ds = deps(a, node, defs)
                is_len = any(d.split("[")[0] in LENGTH_SRC for d in ds)
                is_non = any(d.split("[")[0] in NONLENGTH_SRC for d in ds)
                convs = _conversions(a, node, defs)
                if is_len:
                    if not convs:
                        ctx.decide(unit == "nanometers", "C01-R2", w, TRAJ, q, "%s: nm -> %s" % (label, unit),
                                   "passed unconverted; the class unit is nanometers",
                                   "`%s` (nanometres) is written unconverted but %s stores %s" % (src(a)[:60], cls, unit))
                    else:
                        for c in convs:
                            uin = src(c.args[1]) if len(c.args) > 1 else None
                            uout = src(c.args[2]) if len(c.args) > 2 else None
                            ok = uin == "Trajectory._distance_unit" and uout in ("f.distance_unit", cls + ".distance_unit")
                            ctx.decide(ok and len(convs) == 1, "C01-R2", c, TRAJ, q, "%s: nm -> %s" % (label, unit), "in_units_of(x, %s, %s)" % (uin, uout),
                                       "length `%s` is converted with in_units_of(x, %s, %s)%s; expected (Trajectory._distance_unit, %s.distance_unit) exactly once"
                                       % (label, uin, uout, " %d times" % len(convs) if len(convs) != 1 else "", cls))
                elif is_non:
                    ctx.decide(not convs, "C01-R2", w, TRAJ, q, "%s: no length conversion" % label, "",
                               "`%s` is an angle/time but is passed through a length conversion" % label)
        # ---- R6 per-frame indexing
        for lp in [n for n in walk_no_nested(fn) if isinstance(n, ast.For) and isinstance(n.iter, ast.Call) and call_name(n.iter) == "range"
                   and "n_frames" in src(n.iter) and isinstance(n.target, ast.Name)]:
            iv = lp.target.id
            for w in [n for n in ast.walk(lp) if isinstance(n, ast.Call) and call_name(n) == "f.write"]:
                for (kwname, a, node) in _write_args(w, fn, cfg):
                    ds = deps(a, node, defs)
                    perframe = [d for d in ds if d.split("[")[0] in LENGTH_SRC + NONLENGTH_SRC or d.split("[")[0] == "bfactors"]
                    if not perframe:
                        continue
                    label = kwname or src(a)[:25]
                    # subscripted by the loop variable somewhere along the slice
                    ok = _indexed_by(a, iv, node, defs)
                    ctx.decide(ok, "C01-R6", w, TRAJ, q, "%s indexed by %s" % (label, iv), "",
                               "`%s=%s` does not depend on the loop variable `%s`: every numbered file gets the same (first) value" % (label, src(a)[:40], iv))

    # ---------------- R2 (load side) -----------------------------------------------------------------
    for key in ["h5", "nc", "xtc", "trr", "dcd", "dtr", "mdcrd", "xyz", "lammpstrj", "gro", "rst7", "ncrst", "arc"]:
        rel, cls = F.rel_cls(key)
        fn = F.method(ctx, key, "read_as_traj")
        q = cls + ".read_as_traj"
        convs = [n for n in walk_no_nested(fn) if isinstance(n, ast.Call) and call_name(n) == "in_units_of"]
        seen_xyz = False
        for c in convs:
            what = src(c.args[0]) if c.args else "?"
            uin = src(c.args[1]) if len(c.args) > 1 else None
            uout = src(c.args[2]) if len(c.args) > 2 else None
            ok = uin == "self.distance_unit" and uout == "Trajectory._distance_unit"
            is_angle_or_time = any(w in what for w in ("angle", "ang", "time")) and "length" not in what
            if is_angle_or_time:
                ctx.violated("C01-R2", c, rel, q, "%s length-converted" % what, "`%s` is an angle/time but is passed through a length conversion" % what)
                continue
            ctx.decide(ok, "C01-R2", c, rel, q, "%s: native -> nm" % what, "", "`%s` is converted with in_units_of(x, %s, %s); expected (self.distance_unit, Trajectory._distance_unit)" % (what, uin, uout))
            ip = kwarg(c, "inplace", 3)
            parent = ctx.py.mod(rel).parents.get(c)
            assigned = isinstance(parent, ast.Assign)
            ctx.decide(assigned or (ip is not None and const(ip) is True), "C01-R2", c, rel, q, "%s: conversion takes effect" % what, "",
                       "the result of in_units_of(%s, ...) is neither assigned nor in place: the conversion is lost" % what)
            if "xyz" in what or "coord" in what:
                seen_xyz = True
        ctx.decide(seen_xyz, "C01-R2", fn, rel, q, "coordinates converted to nm", "", "read_as_traj never converts the coordinates from %s to nanometres" % cls)
        # every length variable handed to Trajectory(...) was converted
        tcalls = [n for n in walk_no_nested(fn) if isinstance(n, ast.Call) and call_name(n) == "Trajectory" and kwarg(n, "unitcell_lengths") is not None]
        for t in tcalls:
            v = kwarg(t, "unitcell_lengths")
            name = src(v)
            conv = any(c.args and src(c.args[0]) == name for c in convs)
            ctx.decide(conv, "C01-R2", t, rel, q, "unitcell_lengths=%s converted" % name, "", "`%s` is passed as unitcell_lengths without conversion to nanometres" % name)
        for a in [n for n in walk_no_nested(fn) if isinstance(n, ast.Assign) and dotted(n.targets[0]) and dotted(n.targets[0]).endswith((".unitcell_vectors", ".unitcell_lengths"))]:
            name = src(a.value)
            conv = any(c.args and src(c.args[0]) == name for c in convs)
            ctx.decide(conv, "C01-R2", a, rel, q, "%s = %s converted" % (dotted(a.targets[0]).split(".")[-1], name), "", "`%s` is assigned as cell without conversion to nanometres" % name)

    # ---------------- R3 -------------------------------------------------------------------------------
    for key, (rel, cls, _, spec) in sorted(F.CLASSES.items()):
        unit, node = _class_unit(ctx, key)
        ctx.decide(unit == spec, "C01-R3", node, rel, cls, "distance_unit == %s (format specification)" % spec, "",
                   "%s.distance_unit is %r but the %s format stores lengths in %s: files are written in the wrong unit although save-then-load still round-trips"
                   % (cls, unit, key, spec))
    _unit_strings(ctx)

    _r4(ctx)
    _r5(ctx)


def _conversions(expr, node, defs, depth=0):
    """in_units_of calls on the value path of expr (through subscripts and single local definitions)."""
    res = []
    if depth > 6 or expr is None:
        return res
    e = expr
    while isinstance(e, ast.Subscript):
        e = e.value
    if isinstance(e, ast.Call) and call_name(e) == "in_units_of":
        res.append(e)
        if e.args:
            res.extend(_conversions(e.args[0], node, defs, depth + 1))
        return res
    if isinstance(e, ast.Name):
        for df in defs.reaching(node, e.id):
            if df.kind == "assign" and df.value is not None:
                res.extend(_conversions(df.value, df.node, defs, depth + 1))
    return res


def _indexed_by(expr, iv, node, defs, depth=0):
    if depth > 6 or expr is None:
        return False
    for n in ast.walk(expr):
        if isinstance(n, ast.Subscript) and any(isinstance(x, ast.Name) and x.id == iv for x in ast.walk(n.slice)):
            return True
    e = expr
    while isinstance(e, ast.Subscript):
        e = e.value
    if isinstance(e, ast.Call) and call_name(e) == "in_units_of" and e.args:
        return _indexed_by(e.args[0], iv, node, defs, depth + 1)
    if isinstance(e, ast.Name):
        rd = [df for df in defs.reaching(node, e.id) if df.kind == "assign" and df.value is not None]
        return bool(rd) and all(_indexed_by(df.value, iv, df.node, defs, depth + 1) for df in rd)
    return False


def _unit_strings(ctx):
    # HDF5
    rel, cls = F.rel_cls("h5")
    fn = F.method(ctx, "h5", "_initialize_headers")
    want = {"coordinates": "nanometers", "cell_lengths": "nanometers", "cell_angles": "degrees", "time": "picoseconds"}
    got = {}
    for n in walk_no_nested(fn):
        if isinstance(n, ast.Assign) and isinstance(n.targets[0], ast.Subscript) and const(n.targets[0].slice) == "units":
            m = re.search(r"root\.(\w+)\.attrs", src(n.targets[0]))
            if m:
                got[m.group(1)] = const(n.value)
    for k, v in want.items():
        ctx.decide(got.get(k) == v, "C01-R3", fn, rel, cls + "._initialize_headers", "units attribute of %s == %s" % (k, v), "",
                   "HDF5 node %s is labelled %r; the MDTraj HDF5 format and the data written use %s" % (k, got.get(k), v))
    rd = F.method(ctx, "h5", "read")
    outs = {}
    for n in ast.walk(rd):
        if isinstance(n, ast.Call) and call_name(n) == "get_field" and n.args:
            outs[const(n.args[0])] = const(kwarg(n, "out_units", 2))
    for k, v in want.items():
        ctx.decide(outs.get(k) == v, "C01-R3", rd, rel, cls + ".read", "read converts %s to %s" % (k, v), "", "HDF5 read() returns %s in %r" % (k, outs.get(k)))
    _netcdf_layout(ctx)
    _tagged_input_units(ctx)


_NC_UNITS = {"coordinates": "angstroms", "time": "picoseconds", "cell_lengths": "angstroms", "cell_angles": "degrees"}       # AMBER convention, in the names in_units_of uses


def _tagged_input_units(ctx):
    """HDF5TrajectoryFile.write / NetCDFTrajectoryFile.write accept unit-tagged input (a simulation reporter hands over Quantity objects) and normalise
    it with in_units_of(x, None, U).  Evaluated with that conversion kept symbolic - x given in its own unit `g` becomes x * unit[g] / unit[U] - every
    array stored is the input expressed in the unit its node / variable is labelled with (the labels are held to the specification above)."""
    from .. import stores as S, h5model as H, e2e as E
    from ..tensym import TenSym, Ten, Raised
    from ..pysym import Unsupported as PUnsupported

    def tagged(ev, call):
        a = [ev.ex(x) for x in call.args]
        kw = {k.arg: ev.ex(k.value) for k in call.keywords}
        q = a[0] if a else kw.get("quantity")
        u1 = a[1] if len(a) > 1 else kw.get("units_in")
        u2 = a[2] if len(a) > 2 else kw.get("units_out")
        if q is None:
            return q
        f = E.unit("given" if u1 is None else u1) / E.unit(u2)
        if isinstance(q, Ten):
            return Ten(q.shape, [x * f for x in q.data])
        return ev.lift(q) * f
    for key, units in (("h5", {H.NODE_OF[f_]: H.UNITS[H.NODE_OF[f_]] for f_ in H.FIELDS}), ("nc", _NC_UNITS)):
        rel, cls = F.rel_cls(key)
        fn = F.method(ctx, key, "write")
        q = cls + ".write"
        try:
            if key == "h5":
                arr = H.arrays(2, 3, fields=tuple(H.FIELDS))
                me = H.h5_file(ctx, "w", n_atoms=3)
                _, exc = H.call(ctx, me, "write", extra_models={"in_units_of": tagged}, **arr)
                if exc:
                    raise Raised(exc, exc)
                stored = {n_: S.stored(nd) for n_, nd in me._nodes.items()}
                given = {H.NODE_OF[f_]: v_ for f_, v_ in arr.items()}
            else:
                arr = H.arrays(2, 3)
                me = S.netcdf_file(ctx, "w")
                S.run_method(ctx, key, me, "write", models={"in_units_of": tagged}, **arr)
                stored = {n_: S.stored(v_) for n_, v_ in me._handle.variables.items()}
                given = dict(arr)
        except Raised as e:
            ctx.undecided("C01-R2", fn, rel, q, "unit-tagged input is stored in the unit of its node", "refused: %s" % (e.exc or e))
            continue
        except PUnsupported as e:
            ctx.undecided("C01-R2", fn, rel, q, "unit-tagged input is stored in the unit of its node", "not evaluable: %s" % e)
            continue
        for name, u in sorted(units.items()):
            f = E.unit("given") / E.unit(u)
            got, inp = stored.get(name), given.get(name)
            ok = isinstance(got, Ten) and inp is not None and len(got.data) == len(inp.data) and all(a_ == b_ * f for a_, b_ in zip(got.data, inp.data))
            how = ""
            if not ok and isinstance(got, Ten) and got.data and inp is not None:
                how = "%s[0] given in unit g is stored as %s; the node is labelled %s" % (name, got.data[0], u)
            elif not ok:
                how = "nothing is stored under %s" % name
            ctx.decide(ok, "C01-R2", fn, rel, q, "unit-tagged %s is stored in %s (the unit of its node)" % (name, u), "", how)


# the AMBER NetCDF conventions (trajectory 1.0 rev. B, restart 1.0): variable -> (type, dimensions, units).  This is the format's "stated precision":
# a trajectory file holds single-precision coordinates and times, a restart file doubles.
_NC_SPEC = {
    "nc": ("AMBER", {"frame": None, "spatial": 3, "atom": "N"}, {"cell_spatial": 3, "cell_angular": 3, "label": 5}, {
        "coordinates": ("float", ("frame", "atom", "spatial"), "angstrom", "set_coordinates"), "time": ("float", ("frame",), "picosecond", "set_time"),
        "cell_lengths": ("double", ("frame", "cell_spatial"), "angstrom", "set_cell"), "cell_angles": ("double", ("frame", "cell_angular"), "degree", "set_cell"),
        "spatial": ("char", ("spatial",), None, "set_coordinates"), "cell_spatial": ("char", ("cell_spatial",), None, "set_cell"), "cell_angular": ("char", ("cell_angular", "label"), None, "set_cell")}),
    "ncrst": ("AMBERRESTART", {"spatial": 3, "atom": "N"}, {"cell_spatial": 3, "cell_angular": 3, "label": 5}, {
        "coordinates": ("double", ("atom", "spatial"), "angstrom", "set_coordinates"), "time": ("double", ("time",), "picosecond", "set_time"),
        "cell_lengths": ("double", ("cell_spatial",), "angstrom", "set_cell"), "cell_angles": ("double", ("cell_angular",), "degree", "set_cell"),
        "spatial": ("char", ("spatial",), None, "set_coordinates"), "cell_spatial": ("char", ("cell_spatial",), None, "set_cell"), "cell_angular": ("char", ("cell_angular", "label"), None, "set_cell")}),
}
_NC_TYPES = {"d": "double", "f8": "double", "double": "double", "float64": "double", "<f8": "double", ">f8": "double", "f": "float", "f4": "float", "float32": "float", "float": "float", "<f4": "float",
             ">f4": "float", "c": "char", "S1": "char", "char": "char", "i": "int", "i4": "int", "int32": "int"}


def _netcdf_layout(ctx):
    """_initialize_headers of NetCDFTrajectoryFile / AmberNetCDFRestartFile evaluated (sa/tensym.py) on a model handle that records createDimension /
    createVariable / attribute assignments, for every combination of the set_* flags: each variable the flags ask for is created with the type, the
    shape (by dimension length; `frame` unlimited, `atom` the caller's count) and the units attribute of the convention, and no other numeric one."""
    from ..tensym import TenSym, Obj, Raised
    from ..pysym import Unsupported as PUnsupported
    NA = 7
    for key in ("nc", "ncrst"):
        rel, cls = F.rel_cls(key)
        fn = F.method(ctx, key, "_initialize_headers")
        q = "%s._initialize_headers" % cls
        conv, dims_always, dims_cell, spec = _NC_SPEC[key]
        per_var = {}
        undec = None
        n_combo = 0
        for flags in itertools.product((True, False), repeat=2):
            kw = dict(set_coordinates=True, set_time=flags[0], set_cell=flags[1])
            n_combo += 1
            dims, made, vars_ = {}, {}, {}

            def create_dimension(name, n, _d=dims):
                _d[name] = n

            def create_variable(name, type_, dimensions=(), *a_, _m=made, _vs=vars_, **k_):
                v = Obj(tag="variable " + str(name), units=None, _lenient=True)
                v._setitem = lambda self_, k2, x2: None
                _m[name] = (type_, tuple(dimensions), v)
                _vs[name] = v
                return v
            handle = Obj(tag="netcdf handle", variables=None, _lenient=True)
            handle.createDimension, handle.createVariable = create_dimension, create_variable

            handle.variables = vars_
            me = Obj(tag=cls, _handle=handle, _lenient=True)
            me.flush = lambda: None
            ts = TenSym({}, models={"datetime.now": lambda ev, c: "NOW", "socket.gethostname": lambda ev, c: "HOST", "list": lambda ev, c: list(ev.pyval(ev.ex(c.args[0]))),
                                    "np.asarray": lambda ev, c: ev.ex(c.args[0])})
            ts.module_env = {"mdtraj": Obj(__version__="V", version=Obj(version="V", _lenient=True), _lenient=True), "__version__": "V"}
            try:
                ts.run_fn(fn, self=me, n_atoms=NA, **kw)
            except Raised as e:
                undec = "refused with %s: %s" % (kw, e.exc or e)
                continue
            except PUnsupported as e:
                undec = "not evaluable with %s: %s" % (kw, e)
                continue
            want_dims = dict(dims_always)
            if kw["set_cell"]:
                want_dims.update(dims_cell)
            if key == "ncrst" and kw["set_time"]:
                want_dims["time"] = 1
            size = lambda d_: (NA if want_dims.get(d_) == "N" else want_dims.get(d_, "?"))
            got_size = lambda d_: (None if dims.get(d_, "?") in (0, None) else dims.get(d_, "?"))
            for d_, n_ in want_dims.items():
                w_ = NA if n_ == "N" else n_
                if d_ not in dims:
                    per_var.setdefault("dimension " + d_, []).append("%s: the dimension is not created" % kw)
                elif got_size(d_) != w_:
                    per_var.setdefault("dimension " + d_, []).append("%s: created with length %s, the convention has %s" % (kw, dims[d_], "unlimited" if w_ is None else w_))
                else:
                    per_var.setdefault("dimension " + d_, [])
            for name, (typ, vdims, units, flag) in spec.items():
                probs = per_var.setdefault(name, [])
                if not kw[flag]:
                    if name in made and typ != "char":
                        probs.append("%s: created although %s is off" % (kw, flag))
                    continue
                if name not in made:
                    probs.append("%s: the variable is not created" % kw)
                    continue
                t_, d_, v_ = made[name]
                raw = getattr(t_, "__name__", None) or (ts.pyval(t_) if not isinstance(t_, str) else t_)
                key_ = str(raw)
                m_ = re.match(r"^(?:np|numpy)\.dtype\(['\"]?([\w<>]+)['\"]?\)$", key_)
                key_ = m_.group(1) if m_ else re.sub(r"^(?:np|numpy)\.", "", key_)
                tn = _NC_TYPES.get(key_, _NC_TYPES.get({"single": "f", "float_": "d"}.get(key_, key_), str(t_)))
                if tn != typ:
                    probs.append("created as %s, the convention stores %s as %s%s" % (tn, name, typ, " (values are narrowed on assignment)" if (tn, typ) == ("float", "double") else ""))
                if [got_size(x_) for x_ in d_] != [size(x_) for x_ in vdims]:
                    probs.append("%s: dimensions %s of lengths %s, the convention has %s" % (kw, d_, [dims.get(x_, "?") for x_ in d_], vdims))
                if units is not None and ts.pyval(getattr(v_, "units", None)) != units:
                    probs.append("units attribute %r, the convention has %r" % (getattr(v_, "units", None), units))
            extra = [n_ for n_ in made if n_ not in spec]
            if extra:
                per_var.setdefault("no other variable", []).append("%s: also creates %s" % (kw, extra))
            got_conv = ts.pyval(getattr(handle, "Conventions", None))
            per_var.setdefault("Conventions attribute", [])
            if got_conv != conv:
                per_var["Conventions attribute"].append("Conventions = %r, the convention has %r" % (got_conv, conv))
        if undec:
            ctx.undecided("C01-R3", fn, rel, q, "AMBER NetCDF layout", undec)
            continue
        for name, probs in sorted(per_var.items()):
            sp = spec.get(name)
            desc = ("%s: %s%s%s (AMBER convention; %d flag combinations)" % (name, sp[0], list(sp[1]), ", units " + sp[2] if sp[2] else "", n_combo)) if sp else "%s (AMBER convention)" % name
            uniq = list(dict.fromkeys(probs))
            ctx.decide(not probs, "C01-R3", fn, rel, q, desc, "", "; ".join(uniq[:2]))


# ---------------------------------------------------------------------------------------------------
def _match_slices(ctx, rule, rel, q, spans, slices, what, anchor):
    """Every reader slice must cover exactly one writer field and otherwise only blanks, or only literal text."""
    for (a, b, node) in slices:
        inside = [s for s in spans if s["start"] < b and s["end"] > a]
        fields = [s for s in inside if s["kind"] == "field"]
        desc = "%s[%d:%d]" % (what, a, b)
        if len(fields) == 1:
            f = fields[0]
            lits_ok = all(s["kind"] == "field" or not s["text"][max(a, s["start"]) - s["start"]: min(b, s["end"]) - s["start"]].strip() or True for s in inside)
            ok = f["start"] >= a and f["end"] <= b and all(
                (s is f) or (s["kind"] == "lit" and not s["text"][max(a, s["start"]) - s["start"]: min(b, s["end"]) - s["start"]].strip()) for s in inside)
            ctx.decide(ok, rule, node, rel, q, desc, "covers writer field %d at [%d:%d]" % (f["index"], f["start"], f["end"]),
                       "reader slice [%d:%d] does not coincide with the writer's field at [%d:%d]: digits are cut off or blanks are read" % (a, b, f["start"], f["end"]))
        elif len(fields) == 0:
            ctx.holds(rule, node, rel, q, desc, "literal text in the writer")
        else:
            ctx.violated(rule, node, rel, q, desc, "reader slice [%d:%d] straddles %d writer fields %s" % (a, b, len(fields), [(f["start"], f["end"]) for f in fields]))


def _r4(ctx):
    """fixed-width records.  The column layout of the PDB, mdcrd, gro and rst7 records and the way their readers cut them is decided by value in R8
    (writer and reader both evaluated); here: the CRYST1 record is written exactly when a complete cell is given."""
    rel = "mdtraj/formats/pdb/pdbfile.py"
    hfn = ctx.py.func(rel, "PDBTrajectoryFile._write_header")
    _cell_record_unconditional(ctx, rel, hfn)


def _r5(ctx):
    # ---- xyz tokens, lammpstrj columns, the gro box permutation: decided by value in R8 (writer and reader evaluated)
    # ---- dcd / dtr cell field mapping --------------------------------------------------------------------
    want = {"A": ("lengths", 0), "B": ("lengths", 1), "C": ("lengths", 2), "alpha": ("angles", 0), "beta": ("angles", 1), "gamma": ("angles", 2)}
    for key in ("dcd", "dtr"):
        rel, cls = F.rel_cls(key)
        for meth, direction in (("_write", "w"), ("read", "r")):
            fn = F.method(ctx, key, meth)
            got = {}
            for n in walk_no_nested(fn):
                if isinstance(n, ast.Assign):
                    t, v = n.targets[0], n.value
                    a, b = (t, v) if direction == "w" else (v, t)
                    da = dotted(a)
                    if da and da.startswith("self.timestep.") and isinstance(b, ast.Subscript):
                        m = re.match(r"cell_(lengths|angles)\[\w+, (\d)\]", src(b))
                        if m:
                            got[da.split(".")[-1]] = (m.group(1), int(m.group(2)))
            for fld, w_ in want.items():
                ctx.decide(got.get(fld) == w_, "C01-R5", fn, rel, "%s.%s" % (cls, meth), "timestep.%s <-> cell_%s[:, %d]" % (fld, w_[0], w_[1]), "",
                           "timestep.%s is mapped to %s" % (fld, got.get(fld)))
    # ---- NetCDF / HDF5 variable names ---------------------------------------------------------------------
    rel, cls = F.rel_cls("nc")
    w, r = F.method(ctx, "nc", "write"), F.method(ctx, "nc", "read")
    ncmod = ctx.py.mod(rel)

    def _names_used(fn, depth=2):
        """string constants a method works with, itself or through the class's own helper methods / nested functions"""
        out = {c.value for c in ast.walk(fn) if isinstance(c, ast.Constant) and isinstance(c.value, str) and c.value.isidentifier()}
        if depth:
            for c in ast.walk(fn):
                if isinstance(c, ast.Call) and (call_name(c) or "").startswith("self."):
                    h = ncmod.functions.get("%s.%s" % (cls, call_name(c)[5:]))
                    if h is not None and h is not fn:
                        out |= _names_used(h, depth - 1)
        return out
    wn, rn = _names_used(w), _names_used(r)
    for v in ("coordinates", "time", "cell_lengths", "cell_angles"):
        ctx.decide(v in wn and v in rn, "C01-R5", w, rel, cls, "variable %s written and read" % v, "", "NetCDF variable %s: written=%s read=%s" % (v, v in wn, v in rn))
    init = F.method(ctx, "nc", "_initialize_headers")
    created = set(re.findall(r"createVariable\('(\w+)'", src(init)))
    ctx.decide({"coordinates", "time", "cell_lengths", "cell_angles"} <= created, "C01-R5", init, rel, cls + "._initialize_headers", "variables created under the names used", "", "created: %s" % sorted(created))
    rel, cls = F.rel_cls("h5")
    w, r = F.method(ctx, "h5", "write"), F.method(ctx, "h5", "read")
    # writer side by evaluation (sa/h5model.py): every array handed to write() is appended, unchanged, to the node of its own name
    from .. import h5model as H
    from ..tensym import Ten
    from ..pysym import Unsupported as PUnsupported
    rnames = {const(n.args[0]) for n in ast.walk(r) if isinstance(n, ast.Call) and call_name(n) == "get_field" and n.args}
    try:
        arr = H.arrays()
        res = H.run_write(ctx, arr)
        app = {l_[1]: l_[2] for l_ in res["log"] if l_[0] == "append"}
        for v in ("coordinates", "time", "cell_lengths", "cell_angles"):
            got = app.get(H.NODE_OF[v])
            okw = res["raised"] is None and isinstance(got, Ten) and got.shape == arr[v].shape and all((a_ - b_).n.is_zero() for a_, b_ in zip(got.data, arr[v].data))
            ctx.decide(okw and v in rnames, "C01-R5", w, rel, cls, "node %s written and read" % v, "",
                       "HDF5 node %s: written=%s read=%s" % (v, ("refused: %s" % res["raised"][:60]) if res["raised"] else ("the array given" if okw else "another array" if got is not None else None), v in rnames))
    except PUnsupported as e:
        ctx.undecided("C01-R5", w, rel, cls, "nodes written", "write() not evaluable: %s" % e)


def r7_time_text(ctx):
    """Free-format time stamps (GRO title line) are read back with float(); the writer must use a conversion that reproduces the value."""
    GROF = "mdtraj/formats/gro.py"
    fn = ctx.py.func(GROF, "GroTrajectoryFile._write_frame")
    sites = []
    for n in walk_no_nested(fn):
        if isinstance(n, ast.BinOp) and isinstance(n.op, ast.Mod) and isinstance(n.left, ast.Constant) and isinstance(n.left.value, str) and "t=" in n.left.value:
            specs = re.findall(r"%[-+ #0]*\d*(?:\.\d+)?[sdrfgeEG]", n.left.value)
            sites.append((n, specs[0] if specs else None, src(n.right)))
        if isinstance(n, ast.JoinedStr) and any(isinstance(v, ast.Constant) and "t=" in str(v.value) for v in n.values):
            fv = [v for v in n.values if isinstance(v, ast.FormattedValue)]
            spec = src(fv[0].format_spec) if fv and fv[0].format_spec is not None else ""
            sites.append((n, "{%s}" % spec.strip("f'\""), src(fv[0].value) if fv else ""))
        if isinstance(n, ast.Call) and isinstance(n.func, ast.Attribute) and n.func.attr == "format" and isinstance(n.func.value, ast.Constant) and "t=" in str(n.func.value.value):
            specs = re.findall(r"\{[^}]*\}", n.func.value.value)
            sites.append((n, specs[0] if specs else None, src(n.args[0]) if n.args else ""))
    if not sites:
        raise AnalysisError("GroTrajectoryFile._write_frame: the `t=` time stamp is not written by a recognised formatting construct")
    for node, spec, arg in sites:
        if spec in ("%s", "%r", "{}", "{!r}", "{!s}", "{:}"):
            ctx.holds("C01-R7", node, GROF, "GroTrajectoryFile._write_frame", "time stamp written with %s (shortest text that reads back to the same value)" % spec, "argument `%s`" % arg)
        elif spec is not None and re.search(r"\.(\d+)[fFeEgG]", spec) and int(re.search(r"\.(\d+)[fFeEgG]", spec).group(1)) < 9:
            ctx.violated("C01-R7", node, GROF, "GroTrajectoryFile._write_frame", "time stamp written with a round-trip conversion",
                         "the time stamp is written with `%s`: times that need more digits (sub-femtosecond spacing, large values) are rounded in the file and read back different" % spec)
        else:
            ctx.undecided("C01-R7", node, GROF, "GroTrajectoryFile._write_frame", "time stamp conversion", "unrecognised conversion `%s`" % spec)
    rd = ctx.py.func(GROF, "GroTrajectoryFile._read_frame")
    ok = any(isinstance(n, ast.Assign) and dotted(n.targets[0]) == "time" and isinstance(n.value, ast.Call) and call_name(n.value) == "float" for n in walk_no_nested(rd))
    ctx.decide(ok, "C01-R7", rd, GROF, "GroTrajectoryFile._read_frame", "time read back with float()", "", "the time stamp is no longer parsed with float()")


def r4_overflow(ctx):
    """mdcrd fields are read back by fixed columns: a value that does not fit its %8.3f field must be refused, never shortened."""
    MD = "mdtraj/formats/mdcrd.py"
    fn = ctx.py.func(MD, "MDCRDTrajectoryFile.write")
    fmts = [n for n in ast.walk(fn) if isinstance(n, ast.Assign) and isinstance(n.value, ast.BinOp) and isinstance(n.value.op, ast.Mod) and isinstance(n.value.left, ast.Constant)
            and isinstance(n.value.left.value, str) and re.fullmatch(r"%(\d+)\.(\d+)f", n.value.left.value) and isinstance(n.targets[0], ast.Name)]
    if not fmts:
        ctx.undecided("C01-R4", fn, MD, "MDCRDTrajectoryFile.write", "coordinate field", "the `%8.3f` field assignment was not found")
        return
    for a in fmts:
        var = a.targets[0].id
        width = int(re.fullmatch(r"%(\d+)\.(\d+)f", a.value.left.value).group(1))
        tests = [n for n in ast.walk(fn) if isinstance(n, ast.If) and re.sub(r"\s", "", src(n.test)) in ("len(%s)>%d" % (var, width), "len(%s)!=%d" % (var, width), "%d<len(%s)" % (width, var))]
        raises = bool(tests) and all(any(isinstance(x, ast.Raise) for x in t.body) for t in tests)
        cuts = [n for n in ast.walk(fn) if isinstance(n, ast.Subscript) and isinstance(n.value, ast.Name) and n.value.id == var and isinstance(n.slice, ast.Slice)]
        ctx.decide(raises and not cuts, "C01-R4", tests[0] if tests else a, MD, "MDCRDTrajectoryFile.write", "a coordinate wider than its %d-column field is refused" % width, "",
                   "a coordinate that does not fit `%s` is %s: the reader takes fixed %d-column slices, so the value read back differs from the one saved (more than the format's precision)"
                   % (a.value.left.value, "cut with `%s`" % src(cuts[0]) if cuts else "not refused", width))


def r2_fields_unconditional(ctx):
    """A saver hands the writer the trajectory's own per-frame fields: `time=` is self.time (possibly converted), not a value that may be replaced by None."""
    n_sites = 0
    mod = ctx.py.mod(TRAJ)
    for q, fn in sorted(mod.functions.items()):
        if not (q.startswith("Trajectory.save_") and q.count(".") == 1):
            continue
        for c in [n for n in walk_no_nested(fn) if isinstance(n, ast.Call) and call_name(n) in ("f.write",)]:
            for k in c.keywords:
                if k.arg != "time":
                    continue
                n_sites += 1
                v = k.value
                base = v
                while isinstance(base, ast.Subscript):
                    base = base.value
                ok = dotted(base) in ("self.time", "self._time")
                ctx.decide(ok, "C01-R2", c, TRAJ, q, "time=self.time (the trajectory's own times)", "", "`time=%s`: the times written may differ from the trajectory's (a flag or default decides), so the loaded times differ from the saved ones" % src(v)[:70])
    if n_sites < 3:
        raise AnalysisError("only %d `time=` arguments found in the savers" % n_sites)


def r4_box_lookahead(ctx):
    """mdcrd: the optional box line is recognised by tokenising the next line at white space; a coordinate line whose fixed-width fields touch must not make that fail."""
    MD = "mdtraj/formats/mdcrd.py"
    fn = ctx.py.func(MD, "MDCRDTrajectoryFile._read")
    m = ctx.py.mod(MD)
    peeks = [n for n in ast.walk(fn) if isinstance(n, ast.Assign) and isinstance(n.targets[0], ast.Name) and isinstance(n.value, ast.ListComp) and "split()" in src(n.value) and "float(" in src(n.value)]
    if not peeks:
        ctx.holds("C01-R4", fn, MD, "MDCRDTrajectoryFile._read", "the box look-ahead does not tokenise at white space", "no float(...) over split() tokens found")
        return
    for p_ in peeks:
        x = p_
        guarded = False
        while x in m.parents and m.parents[x] is not fn:
            x = m.parents[x]
            if isinstance(x, ast.Try) and any(h.type is None or "ValueError" in src(h.type) or "Exception" in src(h.type) for h in x.handlers) and p_ in list(ast.walk(ast.Module(body=x.body, type_ignores=[]))):
                guarded = True
                break
        ctx.decide(guarded, "C01-R4", p_, MD, "MDCRDTrajectoryFile._read", "white-space tokenising of the look-ahead line tolerates touching fixed-width fields", "",
                   "`%s` converts white-space tokens of the line after a frame: when that line is the next frame's first coordinate line and two %%8.3f fields touch (a value <= -100), float() raises and a file "
                   "written without unit cell cannot be read back" % src(p_)[:70])


def _cell_record_unconditional(ctx, rel, hfn):
    """The CRYST1 record is what carries the cell through a PDB file.  _write_header is evaluated (sa/tensym.py) with `print` recording what
    goes to the file: a cell given -> exactly one CRYST1 line holding a, b, c, alpha, beta, gamma in that order (with and without the
    metadata remark); no cell -> no record and no error; half a cell or a wrong number of values -> refused."""
    from ..tensym import TenSym, Obj, FStr, Raised
    from ..pysym import Unsupported as PUnsupported
    from ..poly import Poly, Rat
    q = "PDBTrajectoryFile._write_header"
    L = [Rat(Poly.var("len%d" % k)) for k in range(3)]
    A = [Rat(Poly.var("ang%d" % k)) for k in range(3)]

    def run(lengths, angles, meta):
        out = []
        fobj = Obj(tag="file")

        def prn(ev, call):
            dest = next((ev.ex(k.value) for k in call.keywords if k.arg == "file"), None)
            out.append((dest, [ev.ex(a_) for a_ in call.args]))
        me = Obj(_mode="w", _file=fobj, _lenient=True)
        ts = TenSym({"mdtraj": Obj(__version__="V", version=Obj(version="V")), "date": Obj(today=lambda: "D")}, models={"print": prn, "str": lambda ev, c: "S"})
        ts.run_fn(hfn, self=me, unitcell_lengths=lengths, unitcell_angles=angles, write_metadata=meta)
        return out, fobj

    def cryst(out, fobj):
        return [a_[0] for dest, a_ in out if dest is fobj and a_ and isinstance(a_[0], FStr) and a_[0].parts and isinstance(a_[0].parts[0], str) and a_[0].parts[0].startswith("CRYST1")]
    for meta in (True, False):
        desc = "a cell given (write_metadata=%s): one CRYST1 line with a, b, c, alpha, beta, gamma" % meta
        try:
            out, fobj = run(list(L), list(A), meta)
            cr = cryst(out, fobj)
            ok = len(cr) == 1 and len(cr[0].values()) == 6 and all(x == y for x, y in zip(cr[0].values(), L + A))
            ctx.decide(ok, "C01-R4", hfn, rel, q, desc, "", ("%d CRYST1 lines are printed to the file" % len(cr)) if len(cr) != 1 else "the CRYST1 line holds %s" % (cr[0].values(),) +
                       ": a trajectory saved that way comes back without / with another unit cell")
        except Raised as e:
            ctx.violated("C01-R4", hfn, rel, q, desc, "a complete cell is refused: %s" % e.exc)
        except PUnsupported as e:
            ctx.undecided("C01-R4", hfn, rel, q, desc, "not evaluable: %s" % e)
    try:
        out, fobj = run(None, None, True)
        ctx.decide(not cryst(out, fobj), "C01-R4", hfn, rel, q, "no cell: no CRYST1 record, no error", "", "a CRYST1 record is written although no cell was given")
    except Raised as e:
        ctx.violated("C01-R4", hfn, rel, q, "no cell: no CRYST1 record, no error", "a trajectory without a cell is refused: %s" % e.exc)
    except PUnsupported as e:
        ctx.undecided("C01-R4", hfn, rel, q, "no cell: no CRYST1 record, no error", "not evaluable: %s" % e)
    for what, lengths, angles in (("lengths without angles", list(L), None), ("angles without lengths", None, list(A)), ("two lengths", list(L[:2]), list(A)), ("four angles", list(L), list(A) + [A[0]])):
        try:
            out, fobj = run(lengths, angles, True)
            cr = cryst(out, fobj)
            ctx.decide(False, "C01-R4", hfn, rel, q, "%s: refused" % what, "", "%s is accepted (%d CRYST1 line(s) written): the record no longer describes a cell" % (what, len(cr)))
        except Raised as e:
            ctx.holds("C01-R4", hfn, rel, q, "%s: refused" % what, "raises %s" % (e.exc or "")[:50])
        except PUnsupported as e:
            ctx.undecided("C01-R4", hfn, rel, q, "%s: refused" % what, "not evaluable: %s" % e)


def _gro_reader_matrix(r):
    """{(row, column) of the 3x3 cell matrix the gro reader builds: index of the box-line token it puts there}.  The statements between the
    tokenising of the box line (`... float(..) ... .split()`) and the 3x3 array are evaluated (sa/tensym.py) on nine symbolic tokens."""
    from ..tensym import TenSym, Ten
    from ..pysym import Unsupported as PUnsupported
    from ..poly import Poly, Rat
    stmts = [n for n in walk_no_nested(r) if isinstance(n, ast.Assign)]
    # the 3x3 matrix: np.array([[..3..], [..3..], [..3..]])
    mat = [n for n in stmts if isinstance(n.value, ast.Call) and (call_name(n.value) or "").split(".")[-1] in ("array", "asarray") and n.value.args
           and isinstance(n.value.args[0], (ast.List, ast.Tuple)) and len(n.value.args[0].elts) == 3 and all(isinstance(e, (ast.List, ast.Tuple)) and len(e.elts) == 3 for e in n.value.args[0].elts)]
    tok = [n for n in stmts if len(n.targets) == 1 and isinstance(n.targets[0], ast.Name) and any(isinstance(c, ast.Call) and isinstance(c.func, ast.Attribute) and c.func.attr == "split" for c in ast.walk(n.value))
           and any(isinstance(c, ast.Name) and c.id == "float" for c in ast.walk(n.value))]
    if len(mat) != 1:
        return {}
    mat = mat[0]
    # the token vector may be split off first (`sline = line.split()` then a comprehension over it): take the last float-converting definition before the matrix
    tok = [t for t in tok if t.lineno < mat.lineno]
    if not tok:
        conv = [n for n in stmts if n.lineno < mat.lineno and any(isinstance(c, ast.Name) and c.id == "float" for c in ast.walk(n.value)) and isinstance(n.targets[0], ast.Name)]
        if not conv:
            return {}
        tok = conv
    # of those, the one the matrix depends on (through the locals defined in between)
    def tnames(n):
        return {x.id for t in n.targets for x in ast.walk(t) if isinstance(x, ast.Name) and isinstance(x.ctx, ast.Store)}
    need = {x.id for x in ast.walk(mat.value) if isinstance(x, ast.Name)}
    for _ in range(6):
        for n in stmts:
            if n.lineno < mat.lineno and tnames(n) & need:
                need |= {x.id for x in ast.walk(n.value) if isinstance(x, ast.Name)}
    tok = [t for t in tok if t.targets[0].id in need]
    if not tok:
        return {}
    tokvar = tok[-1].targets[0].id
    between = [n for n in stmts if tok[-1].lineno < n.lineno <= mat.lineno and ((tnames(n) & need) or n is mat)]
    syms = tuple(Rat(Poly.var("tok%d" % k)) for k in range(9))
    ev = TenSym({tokvar: syms})
    try:
        for st in between:
            try:
                ev.st(st)
            except PUnsupported:
                if st is mat:
                    raise
        v = ev.env.get(mat.targets[0].id if isinstance(mat.targets[0], ast.Name) else None)
    except PUnsupported:
        return {}
    if not (isinstance(v, Ten) and v.shape == (3, 3)):
        return {}
    M = {}
    for k_, e in enumerate(v.data):
        vs = e.vars()
        if len(vs) == 1 and e == Rat(Poly.var(list(vs)[0])) and str(list(vs)[0]).startswith("tok"):
            M[(k_ // 3, k_ % 3)] = int(str(list(vs)[0])[3:])
    return M


# ---------------------------------------------------------------------------------------------------
# R8: the text formats round-trip by evaluation of writer and reader
# ---------------------------------------------------------------------------------------------------
def r8_text_round_trip(ctx):
    """write() of xyz / mdcrd / lammpstrj / gro is evaluated on symbolic frames with the file handle a recorder (sa/writers.py); read() of the same
    class is then evaluated on a model file holding exactly those pieces of text (sa/ttext.py: columns, tokens, decimal points follow from the format
    specs).  Decided by value: the coordinates, cell and time that come back are the ones that went in; the number of frames and atoms; the field
    widths / decimals of the published format tables (taken from the pieces written, not from the spelling of the writer)."""
    from .. import writers as W, textio as T
    from ..tensym import Raised, Ten, FVal
    from ..ttext import spec_of
    from ..pysym import Unsupported as PUnsupported
    NF = 2

    def same(a, b):
        return T.same_value(a, b)

    def coord_fields(pieces, world):
        """the formatted pieces whose value is a coordinate symbol"""
        xs = {repr(v) for v in world.x.data}
        return [p for p in pieces if isinstance(p, FVal) and repr(p.value) in xs]
    # full=True: values as wide as their fields allow (AMBER coordinates / box up to the 8.3 field limit): fields without a literal blank between them touch
    variants = {"xyz": [dict(cell=False, time=False), dict(cell=False, time=False, full=True)],
                "mdcrd": [dict(cell=True, time=False), dict(cell=False, time=False), dict(cell=True, time=False, full=True), dict(cell=False, time=False, full=True)],
                "lammpstrj": [dict(cell=True, ortho=True, time=False), dict(cell=True, time=False)],
                "gro": [dict(cell=True, time=True), dict(cell=False, time=False), dict(cell=True, time=False), dict(cell="triangular", time=True)]}
    for key in ("xyz", "mdcrd", "lammpstrj", "gro"):
        rel, cls = F.rel_cls(key)
        wfn = F.method(ctx, key, "write")
        q = cls + ".write / .read"
        for var in variants[key]:
            vdesc = ", ".join("%s=%s" % kv for kv in sorted(var.items()))
            root = W.new_root()
            full = var.pop("full", False)
            world = W.World(NF, **var)
            try:
                pieces = W.written(ctx, key, world, [(0, NF)], root)
                if full:
                    from ..ttext import full_fields
                    with full_fields():
                        got, me = W.read_back(ctx, key, pieces, root)
                else:
                    got, me = W.read_back(ctx, key, pieces, root)
            except Raised as e:
                ctx.violated("C01-R8", wfn, rel, q, "%d frames written and read back (%s)" % (NF, vdesc), "what the writer produces is refused: %s" % (e.exc or e))
                continue
            except PUnsupported as e:
                ctx.undecided("C01-R8", wfn, rel, q, "%d frames written and read back (%s)" % (NF, vdesc), "not evaluable: %s" % e)
                continue
            res = list(got) if isinstance(got, tuple) else [got]
            xyz = res[0]
            ok = isinstance(xyz, Ten) and xyz.shape == world.x.shape and all(same(a, b) for a, b in zip(xyz.data, world.x.data))
            bad = None
            if not ok and isinstance(xyz, Ten) and xyz.shape == world.x.shape:
                k_ = next(i for i, (a, b) in enumerate(zip(xyz.data, world.x.data)) if not same(a, b))
                bad = "element %d reads back as %s, written from %s" % (k_, repr(xyz.data[k_])[:80], repr(world.x.data[k_]))
            ctx.decide(ok, "C01-R8", wfn, rel, q, "coordinates of %d frames x %d atoms come back as written (%s)" % (NF, W.N_ATOMS, vdesc), "",
                       bad or "read() returns coordinates of shape %s for %s written" % (getattr(xyz, "shape", None), world.x.shape))
            # ---- cell / time
            if key == "mdcrd":
                L = res[1]
                if var["cell"]:
                    okc = isinstance(L, Ten) and L.shape == world.L.shape and all(same(a, b) for a, b in zip(L.data, world.L.data))
                else:
                    okc = L is None
                ctx.decide(okc, "C01-R8", wfn, rel, q, "cell lengths come back as written (%s)" % vdesc, "", "read() returns cell lengths %s" % (repr(L)[:80],))
            if key == "gro":
                tm, B = res[1], res[2]
                if var["cell"]:
                    okc = isinstance(B, Ten) and B.shape == world.B.shape and all(same(a, b) for a, b in zip(B.data, world.B.data))
                    why = "the cell vectors read back differ from the ones written" if isinstance(B, Ten) and B.shape == world.B.shape else "read() returns cell vectors of shape %s" % (getattr(B, "shape", None),)
                    if not okc and isinstance(B, Ten) and B.shape == world.B.shape:
                        k_ = next(i for i, (a, b) in enumerate(zip(B.data, world.B.data)) if not same(a, b))
                        why = "cell vector element %s of frame %d reads back as %s" % (((k_ % 9) // 3, k_ % 3), k_ // 9, repr(B.data[k_])[:60])
                else:
                    okc = isinstance(B, Ten) and all(x_.const_value() == 0 for x_ in B.data)
                    why = "a trajectory without a cell reads back with cell vectors %s" % (repr(B)[:60],)
                ctx.decide(okc, "C01-R8", wfn, rel, q, "cell vectors come back as written (%s)" % vdesc, "", why)
                if var["time"]:
                    okt = isinstance(tm, Ten) and tm.shape == world.t.shape and all(same(a, b) for a, b in zip(tm.data, world.t.data))
                else:
                    okt = tm is None
                ctx.decide(okt, "C01-R8", wfn, rel, q, "time stamps come back as written (%s)" % vdesc, "", "read() returns time %s" % (repr(tm)[:80],))
            if key == "lammpstrj":
                L, A = res[1], res[2]
                if var.get("ortho"):
                    okc = isinstance(L, Ten) and L.shape == world.L.shape and all(same(a, b) for a, b in zip(L.data, world.L.data)) and \
                        isinstance(A, Ten) and all(x_.const_value() == 90 for x_ in A.data)
                    ctx.decide(okc, "C01-R8", wfn, rel, q, "rectangular cell: lengths come back as written, angles 90 (%s)" % vdesc, "",
                               "read() returns lengths %s and angles %s" % (repr(L.data[:3])[:80] if isinstance(L, Ten) else L, repr(A.data[:3])[:40] if isinstance(A, Ten) else A))
                else:
                    oka = isinstance(L, Ten) and L.shape == world.L.shape and all(same(L.data[3 * f_], world.L.data[3 * f_]) for f_ in range(NF))
                    ctx.decide(oka, "C01-R8", wfn, rel, q, "skewed cell: edge a comes back as written (b, c and the angles: C17-R5 / C01-R7) (%s)" % vdesc, "",
                               "read() returns a = %s" % (repr(L.data[0])[:80] if isinstance(L, Ten) and L.data else L))
            # ---- the published layout, from the pieces written
            cf = coord_fields(pieces, world)
            specs = {p.spec for p in cf}
            if key in ("xyz", "lammpstrj"):
                sp = [spec_of(p) for p in cf]
                okp = len(cf) == world.x.shape[0] * world.x.shape[1] * 3 and all(s_ and s_["type"] in ("f", "F") and (s_["prec"] or 0) >= 3 for s_ in sp)
                ctx.decide(okp, "C01-R8", wfn, rel, q, "every coordinate is written once, with at least 3 decimals (%s)" % vdesc, "%s" % sorted(specs),
                           "%d coordinate fields are written (%d expected), with formats %s" % (len(cf), len(world.x.data), sorted(specs)))
            if key == "mdcrd":
                ls, tail = T.lines(pieces)
                per_line = [sum(1 for p in l_ if p in cf) for l_ in ls]
                per_line = [c_ for c_ in per_line if c_]
                want = ([10] * (3 * W.N_ATOMS // 10) + ([3 * W.N_ATOMS % 10] if 3 * W.N_ATOMS % 10 else [])) * NF
                ctx.decide(specs == {"8.3f"} and per_line == want, "C01-R8", wfn, rel, q, "coordinates as 10F8.3 (%s)" % vdesc, "",
                           "coordinates are written with %s, %s per line (AMBER: 10F8.3)" % (sorted(specs), per_line[:4]))
        if key == "gro":
            _r8_rst7(ctx, W, T, same)
            # ---- the box line in the published order, from the pieces written
            try:
                root = W.new_root()
                world = W.World(1, cell=True, time=False)
                pieces = W.written(ctx, key, world, [(0, 1)], root)
                ls, tail = T.lines(pieces)
                bs = {repr(v): k_ for k_, v in enumerate(world.B.data)}
                box_lines = [[bs[repr(p.value)] for p in l_ if isinstance(p, FVal) and repr(p.value) in bs] for l_ in ls]
                box_lines = [l_ for l_ in box_lines if l_]
                gm = [0 * 3 + 0, 1 * 3 + 1, 2 * 3 + 2, 0 * 3 + 1, 0 * 3 + 2, 1 * 3 + 0, 1 * 3 + 2, 2 * 3 + 0, 2 * 3 + 1]
                ctx.decide(box_lines == [gm], "C01-R8", wfn, rel, q, "box line in GROMACS order v1(x) v2(y) v3(z) v1(y) v1(z) v2(x) v2(z) v3(x) v3(y)", "",
                           "the box line holds the elements %s of the cell matrix (row-major numbering)" % (box_lines[0] if box_lines else None,))
                # ---- identity columns: what _read_topology makes of the atom lines
                fh = W.text_file(pieces)
                me = W.reader_object(ctx, key, fh)
                made = {"res": [], "atoms": []}
                from ..tensym import Obj

                def mktop(ev, call, made=made):
                    top = Obj(tag="topology", _lenient=True)
                    top.add_chain = lambda *a_, **k_: Obj(tag="chain")

                    def add_residue(name, chain, resSeq=None, **k_):
                        r_ = Obj(tag="residue", name=name, resSeq=resSeq)
                        made["res"].append((name, resSeq))
                        return r_
                    top.add_residue = add_residue
                    top.add_atom = lambda name, element=None, residue=None, serial=None, **k_: made["atoms"].append((name, getattr(residue, "name", None), getattr(residue, "resSeq", None), serial))
                    top.create_standard_bonds = lambda *a_, **k_: None
                    return top
                tables = Obj(_residueNameReplacements={}, _atomNameReplacements={}, _loadNameReplacementTables=lambda: None)
                from ..tensym import TenSym as _TS
                mod = ctx.py.mod(rel)
                ts = _TS({"pdb": Obj(PDBTrajectoryFile=tables), "elem": Obj(get_by_symbol=lambda s_: Obj(tag="element", symbol=s_), virtual=Obj(tag="element", symbol="VS"))},
                         funcs={q_: f_ for q_, f_ in mod.functions.items() if "." not in q_},
                         models={"md.Topology": mktop, "Topology": mktop, "warnings.warn": lambda ev, c: None, "pdb.PDBTrajectoryFile._loadNameReplacementTables": lambda ev, c: None}, parent=root)
                ts.assume = W.default_assume
                rt = ts.run_fn(F.method(ctx, key, "_read_topology"), self=me)
                ats = world.top.atoms
                want = [(a_.name, a_.residue.name, a_.residue.resSeq, a_.serial if a_.serial is not None else a_.index) for a_ in ats]
                n_read = rt[0] if isinstance(rt, tuple) else None
                ctx.decide(made["atoms"] == want and n_read == W.N_ATOMS, "C01-R8", wfn, rel, q, "atom name, residue name, residue number and serial of every atom come back as written", "",
                           "the topology read from the atom lines is %s (n_atoms %s); written from %s" % (made["atoms"][:2], n_read, want[:2]))
            except Raised as e:
                ctx.violated("C01-R8", wfn, rel, q, "box line order / identity columns", "refused: %s" % (e.exc or e))
            except PUnsupported as e:
                ctx.undecided("C01-R8", wfn, rel, q, "box line order / identity columns", "not evaluable: %s" % e)
            for prec in (3, 5):
                try:
                    root = W.new_root()
                    world = W.World(1, cell=True, time=False)
                    pieces = W.written(ctx, key, world, [(0, 1)], root, extra_args=dict(precision=prec))
                    got, me = W.read_back(ctx, key, pieces, root)
                except Raised as e:
                    ctx.violated("C01-R8", wfn, rel, q, "precision=%d: written and read back" % prec, "refused: %s" % (e.exc or e))
                    continue
                except PUnsupported as e:
                    ctx.undecided("C01-R8", wfn, rel, q, "precision=%d: written and read back" % prec, "not evaluable: %s" % e)
                    continue
                ls, tail = T.lines(pieces)
                atom_lines = [l_ for l_ in ls if any(p in coord_fields(pieces, world) for p in l_ if isinstance(p, FVal))]
                lay = [[p.spec for p in l_ if isinstance(p, FVal)] for l_ in atom_lines]
                want = ["5d", "-5s", "5s", "5d"] + ["%d.%df" % (prec + 5, prec)] * 3
                okl = len(atom_lines) == W.N_ATOMS and all(l_ == want for l_ in lay) and all(all(isinstance(p, FVal) for p in l_) for l_ in atom_lines)
                ctx.decide(okl, "C01-R8", wfn, rel, q, "precision=%d: atom line %%5d%%-5s%%5s%%5d + 3 x %%%d.%df" % (prec, prec + 5, prec), "",
                           "atom lines are laid out as %s" % (lay[0] if lay else None,))
                xyz = got[0]
                ok = isinstance(xyz, Ten) and xyz.shape == world.x.shape and all(same(a, b) for a, b in zip(xyz.data, world.x.data))
                ctx.decide(ok, "C01-R8", wfn, rel, q, "precision=%d: coordinates come back as written" % prec, "", "the reader does not recover the coordinates written with precision %d" % prec)


def _r8_rst7(ctx, W, T, same):
    """AMBER ASCII restart: write() evaluated, then _parse() on the lines written - for 1..4 atoms (the parser counts lines: an odd atom count ends on a
    half-filled line; 1 and 2 atoms are told apart from velocities by the values), without a cell, with a symbolic cell, and with a concrete rectangular
    cell whose edges are all below 60 A (the value the 2-atom heuristic tests against)."""
    from ..tensym import Raised, Ten
    from ..pysym import Unsupported as PUnsupported
    key = "rst7"
    rel, cls = F.rel_cls(key)
    wfn = F.method(ctx, key, "write")
    q = cls + ".write / ._parse"
    for na in (1, 2, 3, 4):
        for cell in (False, True, "small", "large", "rhombohedral"):
            if na <= 2 and cell is True:
                continue        # 1 / 2 atoms: whether the 4th line is a box is decided from its values - concrete cells only
            desc = "%d atom%s, cell %s: coordinates, time and cell come back as written" % (na, "" if na == 1 else "s", {False: "absent", True: "symbolic"}.get(cell, cell))
            root = W.new_root()
            world = W.World(1, cell=cell, time=True, n_atoms=na)
            try:
                pieces = W.written(ctx, key, world, [(0, 1)], root)
                got, me = W.parse_lines(ctx, key, "_parse", pieces, root)
            except Raised as e:
                ctx.violated("C01-R8", wfn, rel, q, desc, "the file written is refused: %s" % (e.exc or e))
                continue
            except PUnsupported as e:
                ctx.undecided("C01-R8", wfn, rel, q, desc, "not evaluable: %s" % e)
                continue
            xyz, tm, L, A = got
            why = []
            if not (isinstance(xyz, Ten) and xyz.shape == world.x.shape and all(same(a, b) for a, b in zip(xyz.data, world.x.data))):
                why.append("coordinates read back as %s" % (repr(getattr(xyz, "data", xyz))[:100],))
            if not (isinstance(tm, Ten) and len(tm.data) == 1 and same(tm.data[0], world.t.data[0])):
                why.append("time reads back as %s" % (repr(getattr(tm, "data", tm))[:60],))
            if cell:
                if not (isinstance(L, Ten) and all(same(a, b) for a, b in zip(L.data, world.L.data)) and len(L.data) == 3):
                    why.append("cell lengths read back as %s" % (repr(getattr(L, "data", L))[:60],))
                if not (isinstance(A, Ten) and all(same(a, b) for a, b in zip(A.data, world.A.data)) and len(A.data) == 3):
                    why.append("cell angles read back as %s" % (repr(getattr(A, "data", A))[:60],))
            elif L is not None or A is not None:
                why.append("a cell is read from a file written without one")
            ctx.decide(not why, "C01-R8", wfn, rel, q, desc, "", "; ".join(why))
            if na == 4 and cell is True:
                # AMBER: coordinates and box as 6F12.7
                from ..tensym import FVal
                ls, tail = T.lines(pieces)
                from ..ttext import TText
                num = [(sorted({p_.spec for p_ in l_ if isinstance(p_, FVal)}), TText(l_).total_width()) for l_ in ls[2:]]
                ctx.decide(num == [(["12.7f"], 72)] * 3, "C01-R8", wfn, rel, q, "coordinates and box as 6F12.7 per line", "",
                           "the numeric lines are laid out as %s (AMBER specifies 6F12.7: 72 columns of 12.7f fields)" % (num,))


def r8_pdb(ctx):
    """PDB: PDBTrajectoryFile.write (header, MODEL / ATOM / TER / ENDMDL records) evaluated on symbolic positions and a two-chain model topology with
    the `print` calls recorded; PdbStructure._load - with Atom.__init__ run from its source on every ATOM line - evaluated on the lines printed
    (sa/writers.py).  By value: every model and atom comes back with the position, names, numbers, chain letter and element written; the CRYST1 record
    carries the cell; the records sit in the columns of the published PDB tables."""
    from .. import writers as W, textio as T
    from ..tensym import Raised, Ten, FVal
    from ..ttext import TText, width as pwidth
    from ..pysym import Unsupported as PUnsupported
    from ..poly import Poly, Rat
    rel = W.PDB
    wfn = ctx.py.func(rel, "PDBTrajectoryFile.write")
    q = "PDBTrajectoryFile.write / PdbStructure._load"
    # names longer than their columns (GLYX, HG211 / HG212: both written as HG21), a two-letter element, a chain without an id
    # ... and two consecutive residues that share a number and differ in name (SER 6 after GLYX 6)
    spec = [("A", [("ALA", 5, [("N", "N"), ("CA", "C")]), ("GLYX", 6, [("C", "C"), ("HG211", "H"), ("HG212", "H")]), ("SER", 6, [("OG", "O")])]), ("", [("HOH", 1, [("O", "O")]), ("CL", 2, [("CL", "Cl")])])]
    L = [Rat(Poly.var("L%d" % k)) for k in range(3)]
    A = [Rat(Poly.var("A%d" % k)) for k in range(3)]
    for cell in (True, False):
        cdesc = "with a cell" if cell else "without a cell"
        try:
            root = W.new_root()
            top = W.pdb_topology(spec)
            n_at = len(top.atoms)
            xs = [Ten.sym("x%d" % f, (n_at, 3)) for f in range(2)]
            lines, me = W.pdb_written(ctx, top, xs, root, lengths=L if cell else None, angles=A if cell else None)
            rec = W.pdb_read_models(ctx, lines, root)
        except Raised as e:
            ctx.violated("C01-R8", wfn, rel, q, "two models written and loaded (%s)" % cdesc, "refused: %s" % (e.exc or e))
            continue
        except PUnsupported as e:
            ctx.undecided("C01-R8", wfn, rel, q, "two models written and loaded (%s)" % cdesc, "not evaluable: %s" % e)
            continue
        why = []
        pos = rec["positions"]
        if not (isinstance(pos, Ten) and pos.shape == (2, n_at, 3)):
            why.append("positions of shape %s are loaded from 2 models of %d atoms" % (getattr(pos, "shape", None), n_at))
        else:
            exp = [xs[f_].data[k_] for f_ in range(2) for k_ in range(n_at * 3)]
            bad = [k_ for k_, (p_, w_) in enumerate(zip(pos.data, exp)) if not T.same_value(p_, w_)]
            if bad:
                k_ = bad[0]
                why.append("model %d atom %d: coordinate read back as %s" % (k_ // (n_at * 3), (k_ // 3) % n_at, repr(pos.data[k_])[:60]))
        wanti = [(at.residue.chain.chain_id[:1] or "AB"[at.residue.chain.index], at.residue.name[:3], at.residue.resSeq, at.name[:4], at.element.symbol.upper()) for at in top.atoms]
        goti = [(c_, rn_, rs_, an_, (el_ or "").upper()) for (c_, rn_, rs_, an_, el_, ser_) in rec["atoms"]]
        if goti != wanti:
            k_ = next((i_ for i_, (g_, w_) in enumerate(zip(goti, wanti)) if g_ != w_), min(len(goti), len(wanti)))
            why.append("%d atoms in the topology read back, %d written; first difference at atom %d: %s / %s" % (len(goti), len(wanti), k_, goti[k_] if k_ < len(goti) else None, wanti[k_] if k_ < len(wanti) else None))
        ctx.decide(not why, "C01-R8", wfn, rel, q, "2 models x %d atoms in 2 chains: positions, atom / residue names, residue numbers, chain letters, elements come back (%s)" % (n_at, cdesc), "", "; ".join(why[:2]))
        segs = [(rn_, rs_, sg_) for (rn_, rs_, sg_) in rec.get("residues", [])]
        want_seg = [(r_[0][:3], r_[1], "SEG") for c_ in spec for r_ in c_[1]]
        ctx.decide(segs == want_seg, "C01-R8", wfn, rel, q, "the segment id of every residue comes back (%s)" % cdesc, "",
                   "residues (name, number, segment id) read back as %s, written %s" % ([x_ for x_, y_ in zip(segs, want_seg) if x_ != y_][:2] or segs[:3], [y_ for x_, y_ in zip(segs, want_seg) if x_ != y_][:2]))
        if cell:
            okc = isinstance(rec["lengths"], tuple) and isinstance(rec["angles"], tuple) and len(rec["lengths"]) == 3 and all(T.same_value(a_, b_) for a_, b_ in zip(rec["lengths"] + rec["angles"], L + A))
            ctx.decide(okc, "C01-R8", wfn, rel, q, "CRYST1: a, b, c, alpha, beta, gamma come back as written", "", "the loader reads the cell as %s / %s" % (rec["lengths"], rec["angles"]))
        else:
            ctx.decide(rec["lengths"] is None and rec["angles"] is None, "C01-R8", wfn, rel, q, "no cell written: none loaded", "", "a cell %s is loaded from a file written without one" % (rec["lengths"],))
        # ---- published columns (wwPDB format 3.3), from the pieces printed
        atom_lines = [l_ for l_ in lines if isinstance(l_, TText) and l_.startswith("ATOM")]
        bad = []
        for l_ in atom_lines:
            try:
                tw = l_.total_width() - 1
            except PUnsupported:
                tw = None
            col, cols = 0, {}
            for p_ in l_.parts:
                w_ = pwidth(p_)
                if w_ is None:
                    break
                if isinstance(p_, FVal) and isinstance(p_.value, Rat) and p_.value.const_value() is None:
                    cols[col] = (w_, p_.spec)
                col += w_
            if tw != 80 or cols != {30: (8, "8.3f"), 38: (8, "8.3f"), 46: (8, "8.3f")}:
                bad.append("ATOM record of %s columns with coordinate fields %s" % (tw, sorted(cols.items())))
        ctx.decide(bool(atom_lines) and not bad, "C01-R8", wfn, rel, q, "ATOM records: 80 columns, x y z as 8.3 at columns 31-38, 39-46, 47-54 (%s)" % cdesc, "%d records" % len(atom_lines), (bad or ["no ATOM record"])[0])
        if cell:
            cr = [l_ for l_ in lines if isinstance(l_, TText) and l_.startswith("CRYST1")]
            lay = []
            if len(cr) == 1:
                col = 0
                for p_ in cr[0].parts:
                    w_ = pwidth(p_)
                    if w_ is None:
                        break
                    if isinstance(p_, FVal) and isinstance(p_.value, Rat):
                        lay.append((col, p_.spec))
                    col += w_
            ctx.decide(lay == [(6, "9.3f"), (15, "9.3f"), (24, "9.3f"), (33, "7.2f"), (40, "7.2f"), (47, "7.2f")], "C01-R8", wfn, rel, q, "CRYST1 record: 9.3 x 3 from column 7, 7.2 x 3 from column 34", "",
                       "%d CRYST1 records, fields at %s" % (len(cr), lay))


def r9_end_to_end(ctx):
    """Trajectory.save_<fmt> followed by load_<fmt>, every function on the way evaluated (sa/e2e.py): the saver, the file class (constructor, context
    manager, write), the text on the model disk, the file class again (read_as_traj, read) and the loader, with unit conversion symbolic
    (in_units_of(q, u1, u2) = q*unit[u1]/unit[u2]).  By value: the loaded trajectory has the coordinates that were saved, in nanometres - i.e. the saver's
    conversion into the file's unit and the reader's conversion back are inverse - and the cell / time the format stores."""
    from .. import writers as W, e2e as E, textio as T
    from ..tensym import Raised, Ten
    from ..pysym import Unsupported as PUnsupported
    NF = 2
    for key in ("xyz", "mdcrd", "lammpstrj", "gro", "pdb"):
        rel, cls = F.rel_cls(key)
        saver = ctx.py.func(E.TRAJ, "Trajectory.save_" + key)
        q = "Trajectory.save_%s / load_%s" % (key, key)
        for have_cell in (True, False):
            if key == "lammpstrj" and not have_cell:
                continue        # the LAMMPS writer requires a cell
            desc = "save then load (%s): coordinates in nm%s come back" % ("with a cell" if have_cell else "no cell", {"gro": ", cell vectors, time", "xyz": "", "pdb": ", the cell of the first frame"}.get(key, ", cell") if have_cell else (", time" if key == "gro" else ""))
            try:
                world = W.World(NF, cell=True, ortho=True, time=True) if key != "pdb" else E.PdbWorld(NF)
                pieces, t = E.save_and_load(ctx, key, world, have_cell=have_cell, load_kwargs={"no_boxchk": True} if key == "pdb" else None)
            except Raised as e:
                ctx.violated("C01-R9", saver, E.TRAJ, q, desc, "refused: %s" % (e.exc or e))
                continue
            except PUnsupported as e:
                ctx.undecided("C01-R9", saver, E.TRAJ, q, desc, "not evaluable: %s" % e)
                continue
            why = []
            x = getattr(t, "xyz", None) if t is not None else None
            if not (isinstance(x, Ten) and x.shape == world.x.shape and all(T.same_value(a_, b_) for a_, b_ in zip(x.data, world.x.data))):
                why.append("xyz[0,0,0] comes back as %s" % (repr(x.data[0])[:90] if isinstance(x, Ten) and x.data else getattr(x, "shape", x)))
            if have_cell and key in ("mdcrd", "lammpstrj"):
                L, A = t.__dict__.get("unitcell_lengths"), t.__dict__.get("unitcell_angles")
                if not (isinstance(L, Ten) and L.shape == world.L.shape and all(T.same_value(a_, b_) for a_, b_ in zip(L.data, world.L.data))):
                    why.append("cell lengths come back as %s" % (repr(L.data[0])[:80] if isinstance(L, Ten) and L.data else L))
                if not (isinstance(A, Ten) and all(T.same_value(a_, b_) for a_, b_ in zip(A.data, world.A.data))):
                    why.append("cell angles come back as %s" % (repr(A.data[:3])[:60] if isinstance(A, Ten) else A))
            if key == "pdb":
                L, A = t.__dict__.get("unitcell_lengths"), t.__dict__.get("unitcell_angles")
                if have_cell:
                    # one CRYST1 record: the cell of the first frame, for every model
                    okL = isinstance(L, Ten) and L.shape == (NF, 3) and all(T.same_value(L.data[f_ * 3 + k_], world.L.data[k_]) for f_ in range(NF) for k_ in range(3))
                    okA = isinstance(A, Ten) and A.shape == (NF, 3) and all(T.same_value(A.data[f_ * 3 + k_], world.A.data[k_]) for f_ in range(NF) for k_ in range(3))
                    if not (okL and okA):
                        why.append("the cell of the first frame (the one CRYST1 record) comes back as %s / %s" % (repr(L.data[:3])[:70] if isinstance(L, Ten) else L, repr(A.data[:3])[:50] if isinstance(A, Ten) else A))
                elif L is not None or A is not None:
                    why.append("a cell is loaded from a file saved without one")
            if not have_cell and key in ("mdcrd", "xyz"):
                if t.__dict__.get("unitcell_lengths") is not None or t.__dict__.get("unitcell_vectors") is not None:
                    why.append("a cell is loaded from a file saved without one")
            if key == "gro":
                B = t.__dict__.get("unitcell_vectors")
                if have_cell and not (isinstance(B, Ten) and B.shape == world.B.shape and all(T.same_value(a_, b_) for a_, b_ in zip(B.data, world.B.data))):
                    why.append("cell vectors come back as %s" % (repr(B.data[:2])[:80] if isinstance(B, Ten) else B))
                tm = t.__dict__.get("time")
                if not (isinstance(tm, Ten) and all(T.same_value(a_, b_) for a_, b_ in zip(tm.data, world.t.data)) and len(tm.data) == NF):
                    why.append("time comes back as %s" % (repr(tm.data)[:60] if isinstance(tm, Ten) else tm))
            ctx.decide(not why, "C01-R9", saver, E.TRAJ, q, desc, "", "; ".join(why[:2]))


def r9_end_to_end_stores(ctx):
    """save_hdf5 / save_netcdf followed by load_hdf5 / load_netcdf on model array stores (sa/e2e.save_and_load_store): coordinates in nm, time, cell lengths
    in nm and angles of every frame come back; without a cell none is loaded."""
    from .. import writers as W, e2e as E, textio as T
    from ..tensym import Raised, Ten
    from ..pysym import Unsupported as PUnsupported
    NF = 2
    for key, name in (("h5", "hdf5"), ("nc", "netcdf")):
        saver = ctx.py.func(E.TRAJ, "Trajectory.save_" + name)
        q = "Trajectory.save_%s / load_%s" % (name, name)
        for have_cell in (True, False):
            desc = "save then load (%s): coordinates in nm, time%s come back" % ("with a cell" if have_cell else "no cell", ", cell lengths in nm and angles" if have_cell else "")
            try:
                world = W.World(NF, cell=True, ortho=False, time=True)
                t = E.save_and_load_store(ctx, key, world, have_cell=have_cell)
            except Raised as e:
                ctx.violated("C01-R9", saver, E.TRAJ, q, desc, "refused: %s" % (e.exc or e))
                continue
            except PUnsupported as e:
                ctx.undecided("C01-R9", saver, E.TRAJ, q, desc, "not evaluable: %s" % e)
                continue
            why = []
            for field, want in (("xyz", world.x), ("time", world.t)) + ((("unitcell_lengths", world.L), ("unitcell_angles", world.A)) if have_cell else ()):
                v = t.__dict__.get(field) if t is not None else None
                if not (isinstance(v, Ten) and v.shape == want.shape and all(T.same_value(a_, b_) for a_, b_ in zip(list(v.data), list(want.data)))):
                    why.append("%s comes back as %s" % (field, repr(list(v.data)[:2])[:90] if isinstance(v, Ten) else v))
            if not have_cell and t is not None and (t.__dict__.get("unitcell_lengths") is not None or t.__dict__.get("unitcell_angles") is not None):
                why.append("a cell is loaded from a file saved without one")
            ctx.decide(not why, "C01-R9", saver, E.TRAJ, q, desc, "", "; ".join(why[:2]))
        if key == "h5":
            # the topology travels with the file, whichever mode created it: save_hdf5(mode="a") on a path that does not exist yet writes a file like mode="w"
            for mode in ("w", "a"):
                desc = "save_hdf5(mode=%r) to a new file, then load: the topology saved is the topology loaded" % mode
                try:
                    world = W.World(NF, cell=True, ortho=False, time=True)
                    t = E.save_and_load_store(ctx, key, world, have_cell=True, save_kwargs={"mode": mode})
                    got = t.__dict__.get("topology") if t is not None else None
                    ctx.decide(got is world.top, "C01-R9", saver, E.TRAJ, q, desc, "", "the trajectory loaded has the topology %s" % (getattr(got, "tag", got),))
                except Raised as e:
                    ctx.violated("C01-R9", saver, E.TRAJ, q, desc, "refused: %s" % (e.exc or e))
                except PUnsupported as e:
                    ctx.undecided("C01-R9", saver, E.TRAJ, q, desc, "not evaluable: %s" % e)


def r9_end_to_end_xdr(ctx):
    """save_xtc / save_trr followed by load_xtc / load_trr on a model XDR file (sa/e2e.save_and_load_xdr): coordinates, time and cell vectors of every frame
    come back; a trajectory without a cell comes back without one."""
    from .. import writers as W, e2e as E, textio as T
    from ..tensym import Raised, Ten
    from ..pysym import Unsupported as PUnsupported
    NF = 2
    for key in ("xtc", "trr"):
        saver = ctx.py.func(E.TRAJ, "Trajectory.save_" + key)
        q = "Trajectory.save_%s / load_%s" % (key, key)
        for have_cell in (True, False):
            desc = "save then load (%s): coordinates, time%s come back" % ("with a cell" if have_cell else "no cell", ", cell vectors" if have_cell else "")
            try:
                world = W.World(NF, cell=True, ortho=False, time=True)
                t, xf = E.save_and_load_xdr(ctx, key, world, have_cell=have_cell)
            except Raised as e:
                ctx.violated("C01-R9", saver, E.TRAJ, q, desc, "refused: %s" % (e.exc or e))
                continue
            except PUnsupported as e:
                ctx.undecided("C01-R9", saver, E.TRAJ, q, desc, "not evaluable: %s" % e)
                continue
            why = []
            for field, want in (("xyz", world.x), ("time", world.t)) + ((("unitcell_vectors", world.B),) if have_cell else ()):
                v = t.__dict__.get(field) if t is not None else None
                if not (isinstance(v, Ten) and v.shape == want.shape and all(T.same_value(a_, b_) for a_, b_ in zip(list(v.data), list(want.data)))):
                    why.append("%s comes back as %s" % (field, repr(list(v.data)[:2])[:90] if isinstance(v, Ten) else v))
            if not have_cell and t is not None:
                v = t.__dict__.get("unitcell_vectors")
                if v is not None and not (isinstance(v, Ten) and all(x_.const_value() == 0 for x_ in v.data)):
                    why.append("a cell %s is loaded from a file saved without one" % (repr(v)[:40],))
            ctx.decide(not why, "C01-R9", saver, E.TRAJ, q, desc, "", "; ".join(why[:2]))


def r9_end_to_end_dcd(ctx):
    """save_dcd followed by load_dcd on a model DCD file (sa/e2e.save_and_load_dcd): coordinates in nm, cell lengths in nm and angles come back; no cell:
    none is loaded."""
    from .. import writers as W, e2e as E, textio as T
    from ..tensym import Raised, Ten
    from ..pysym import Unsupported as PUnsupported
    saver = ctx.py.func(E.TRAJ, "Trajectory.save_dcd")
    q = "Trajectory.save_dcd / load_dcd"
    for have_cell in (True, False):
        desc = "save then load (%s): coordinates in nm%s come back" % ("with a cell" if have_cell else "no cell", ", cell lengths in nm and angles" if have_cell else "")
        try:
            world = W.World(2, cell=True, ortho=False, time=True)
            t = E.save_and_load_dcd(ctx, world, have_cell=have_cell)
        except Raised as e:
            ctx.violated("C01-R9", saver, E.TRAJ, q, desc, "refused: %s" % (e.exc or e))
            continue
        except PUnsupported as e:
            ctx.undecided("C01-R9", saver, E.TRAJ, q, desc, "not evaluable: %s" % e)
            continue
        why = []
        for field, want in (("xyz", world.x),) + ((("unitcell_lengths", world.L), ("unitcell_angles", world.A)) if have_cell else ()):
            v = t.__dict__.get(field) if t is not None else None
            if not (isinstance(v, Ten) and v.shape == want.shape and all(T.same_value(a_, b_) for a_, b_ in zip(list(v.data), list(want.data)))):
                why.append("%s comes back as %s" % (field, repr(list(v.data)[:2])[:90] if isinstance(v, Ten) else v))
        if not have_cell and t is not None and (t.__dict__.get("unitcell_lengths") is not None or t.__dict__.get("unitcell_angles") is not None):
            why.append("a cell is loaded from a file saved without one")
        ctx.decide(not why, "C01-R9", saver, E.TRAJ, q, desc, "", "; ".join(why[:2]))
