"""C02  Partial loading equals slicing the fully loaded trajectory (the protocol every reader must follow).

R1 loader protocol: frame -> seek(frame) + n_frames=1; stride / atom_indices / n_frames reach read_as_traj and read
R2 stride scales the consumed window (scaled slice | skip loop | index arithmetic); striding a window of n raw frames is wrong
R3 random-access readers advance the cursor by the window consumed, not by the number of frames returned
R4 synthesised time is  initial + stride * arange(len)  with `initial` the position captured before the read
R5 the topology is subset under exactly the condition under which coordinates are indexed by atom_indices
R6 iterload / load composition: skip, stride, atom_indices, chunk honoured on every branch; load(list) joins with the same kwargs
"""
from __future__ import annotations

import ast

from ..core import AnalysisError
from ..cfg import CFG
from ..flow import Defs, deps
from ..tensym import ShapeError
from ..pyfront import dotted, call_name, kwarg, params, src, walk_no_nested, const
from .. import formats as F

EXPLANATION = (
    "Sibling agreement over all registered loaders and file classes: the argument plumbing frame/stride/atom_indices/"
    "n_frames is traced from each load_* through read_as_traj into read (call-argument dependence); each read() is "
    "classified by the way it applies the stride; cursor advance is compared with the consumed window; synthesised "
    "time expressions are matched structurally (dependence + affine shape); the branches of iterload are checked for "
    "skip/stride/atom_indices/chunk dependence.")
NOT_DECIDED = ["equality of the values read (run-time)", "the XDR offset arithmetic inside C", "efficient-striding seek path of xtc/trr beyond its structure"]
ASSUMPTIONS = ["read_next_timestep / read_xtc / read_trr consume exactly one frame per successful call"]
FLOORS = {"C02-R1": 30, "C02-R2": 2, "C02-R3": 3, "C02-R4": 20, "C02-R5": 15, "C02-R6": 7, "C02-R7": 8, "C02-R8": 58}

LOADERS = {  # ext -> class key
    ".xtc": "xtc", ".trr": "trr", ".dcd": "dcd", ".dtr": "dtr", ".h5": "h5", ".nc": "nc", ".mdcrd": "mdcrd", ".xyz": "xyz",
    ".lammpstrj": "lammpstrj", ".gro": "gro", ".arc": "arc", ".lh5": "lh5",
}
SYNTH_TIME = ["dcd", "mdcrd", "xyz", "lammpstrj", "arc"]
TRAJ = "mdtraj/core/trajectory.py"


def _calls(fn, pred):
    return [n for n in walk_no_nested(fn) if isinstance(n, ast.Call) and pred(n)]


def _kw_or_pos(call, name, callee_params):
    for k in call.keywords:
        if k.arg == name:
            return k.value
    cps = [p for p in callee_params if p != "self"]
    if name in cps:
        i = cps.index(name)
        if i < len(call.args):
            return call.args[i]
    return None


def check(ctx):
    ctx.rule("C02-R1", "every load_*: `frame is not None` => f.seek(frame) and n_frames = 1; n_frames, stride, atom_indices are passed to read_as_traj, and from read_as_traj to read")
    ctx.rule("C02-R2", "read(n_frames, stride) consumes n_frames*stride raw frames: scaled slice, skip loop, or index arithmetic; a stride applied to a window of n_frames raw frames is a violation")
    ctx.rule("C02-R3", "after a strided read the cursor equals the end of the consumed window")
    ctx.rule("C02-R4", "synthesised time = initial + stride*arange(len(xyz)), `initial` = position before the read")
    ctx.rule("C02-R5", "topology.subset(atom_indices) is applied iff atom_indices is not None, and the subset topology is the one handed to Trajectory")
    ctx.rule("C02-R7", "every array handed to read_xtc / read_trr as a per-frame buffer is allocated for as many atoms as the reader is told to write (the file's atoms, "
                       "not the atoms selected): on every path on which the call can be reached")
    ctx.rule("C02-R8", "text formats: read(n, stride, atom_indices) / seek / tell evaluated on a 7-frame model file written by the format's own writer - the frames, atoms, cell and time rows returned and the cursor are those of the definition, over sequences of calls")
    ctx.rule("C02-R6", "iterload: every branch applies skip, stride and atom_indices and yields chunks of `chunk`; load(list): every file gets the same kwargs, joined with check_topology=False")
    reg = F.registry(ctx)

    # ---------------- R1 ---------------------------------------------------------------------
    for ext, key in sorted(LOADERS.items()):
        if ext not in reg["loaders"]:
            raise AnalysisError("no loader registered for %s" % ext)
        rel, lname = reg["loaders"][ext]
        lf = ctx.py.func(rel, lname)
        # one level of delegation:  def load_dtr(...): return _load_desmond_traj(filename, top=top, stride=stride, ...)
        body = [s for s in lf.body if not (isinstance(s, ast.Expr) and isinstance(s.value, ast.Constant))]
        if len(body) == 1 and isinstance(body[0], ast.Return) and isinstance(body[0].value, ast.Call) and dotted(body[0].value.func) \
                and dotted(body[0].value.func) in ctx.py.mod(rel).functions:
            call = body[0].value
            passed = {k.arg for k in call.keywords if k.arg and dotted(k.value) == k.arg}
            for pname in ("stride", "atom_indices", "frame"):
                ctx.decide(pname in passed, "C02-R1", call, rel, lname, "%s -> %s" % (pname, dotted(call.func)), "forwarded",
                           "%s is not forwarded by %s" % (pname, lname))
            lname = dotted(call.func)
            lf = ctx.py.func(rel, lname)
        crel, cls = F.rel_cls(key)
        rat = F.method(ctx, key, "read_as_traj")
        rd = F.method(ctx, key, "read")
        # (a) + (b): the loader evaluated (sa/tensym.py) with the file class replaced by a recorder: frame=None -> no seek, one read_as_traj with
        # n_frames=None and the caller's stride / atom_indices; frame=k -> seek(k) before a read_as_traj of exactly one frame
        from ..tensym import TenSym, Obj, Raised
        from ..pysym import Unsupported as PUnsupported
        rat_params = params(rat)
        mod_funcs = {q_: f_ for q_, f_ in ctx.py.mod(rel).functions.items() if "." not in q_ and q_ != lname}
        for frame in (None, 0, 3):        # frame 0 is a frame, not "no frame"
            rec = {"seek": [], "rat": []}

            def mkfile(ev, call, rec=rec):
                o = Obj(tag="file", distance_unit="?", _lenient=True)
                o.seek = lambda *a_, **k_: rec["seek"].append((a_, k_, len(rec["rat"])))
                o.read_as_traj = lambda *a_, **k_: (rec["rat"].append((a_, k_)), Obj(tag="traj", _lenient=True))[1]
                o.__enter__ = lambda: o
                return o
            topo = Obj(tag="top", n_atoms=7, _numAtoms=7, _lenient=True)
            ts = TenSym({"os": Obj(PathLike="PathLike")}, funcs=mod_funcs,
                        models={cls: mkfile, "_parse_topology": lambda ev, c: topo, "cast_indices": lambda ev, c: ev.ex(c.args[0]), "warnings.warn": lambda ev, c: None})
            desc = "frame=%s: %s" % (frame, "no seek, read_as_traj(n_frames=None, stride, atom_indices)" if frame is None else "seek(frame), then read_as_traj of exactly one frame with stride / atom_indices passed on")
            try:
                given = {p_: v_ for p_, v_ in (("filename", "file.ext"), ("top", Obj(tag="topin", n_atoms=7, _numAtoms=7, _lenient=True)), ("stride", "S"), ("atom_indices", "AI"), ("frame", frame)) if p_ in params(lf)}
                missing = [p_ for p_ in ("stride", "atom_indices", "frame") if p_ not in given]
                if missing:
                    ctx.violated("C02-R1", lf, rel, lname, desc, "%s has no parameter %s" % (lname, ", ".join(missing)))
                    continue
                ts.run_fn(lf, **given)
            except Raised as e:
                ctx.violated("C02-R1", lf, rel, lname, desc, "the loader raises %s for these arguments" % (e.exc or e))
                continue
            except PUnsupported as e:
                ctx.undecided("C02-R1", lf, rel, lname, desc, "not evaluable: %s" % e)
                continue
            why = []
            if len(rec["rat"]) != 1:
                why.append("read_as_traj is called %d times" % len(rec["rat"]))
            else:
                a_, k_ = rec["rat"][0]
                got = dict(k_)
                for i_, v_ in enumerate(a_):
                    if i_ + 1 < len(rat_params):
                        got.setdefault(rat_params[i_ + 1], v_)
                if got.get("n_frames") != (None if frame is None else 1):
                    why.append("read_as_traj gets n_frames=%r" % (got.get("n_frames"),))
                if got.get("stride") != "S":
                    why.append("stride is not passed to read_as_traj (it gets %r): the option is silently ignored" % (got.get("stride"),))
                if got.get("atom_indices") != "AI":
                    why.append("atom_indices is not passed to read_as_traj (it gets %r)" % (got.get("atom_indices"),))
            if frame is None and rec["seek"]:
                why.append("seek%r is called although no frame was asked for" % (rec["seek"][0][0],))
            if frame is not None:
                if [s_[0] for s_ in rec["seek"]] != [(frame,)] or any(s_[1] for s_ in rec["seek"]):
                    why.append("seek is called with %s instead of once with the frame number" % [s_[0] for s_ in rec["seek"]])
                elif rec["seek"][0][2] != 0:
                    why.append("the seek comes after the read")
            ctx.decide(not why, "C02-R1", lf, rel, lname, desc, "", "; ".join(why))

    _rat_by_evaluation(ctx)
    _r2(ctx)
    _r3(ctx)
    _r4(ctx)
    _r5(ctx)
    _r5_index_arrays(ctx)
    _r6(ctx)
    _r7_reader_buffers(ctx)
    _r8_text_readers(ctx)
    _r9_whole_file_loaders(ctx)
    _r10_xdr_readers(ctx)
    _r11_array_store_readers(ctx)
    _r12_dcd_reader(ctx)
    _r13_arc_reader(ctx)


# ---------------------------------------------------------------------------------------------
RAT_KEYS = ["h5", "nc", "xtc", "trr", "dcd", "dtr", "mdcrd", "xyz", "lammpstrj", "gro", "arc", "lh5"]
_N_ALL, _N_SEL, _N_READ, _POS = 5, 2, 4, 7


def _same(a, b):
    from ..tensym import Rat
    if a is b:
        return True
    if isinstance(a, Rat) and isinstance(b, Rat):
        return (a - b).n.is_zero()
    if isinstance(a, Rat) or isinstance(b, Rat):
        return False
    return type(a) is type(b) and a == b


def _rat_by_evaluation(ctx):
    """Every read_as_traj evaluated (sa/tensym.py) on a model file object: `self.read` is a recorder that returns arrays of four frames (or none) and moves the
    cursor, `topology.subset` and `Trajectory` are recorders. Decided from the recorded calls, for atom_indices in {None, given}, stride in {None, symbolic S},
    a non-empty and an empty read:
      R1(c)  read is called once with the caller's n_frames / stride / atom_indices
      R4     a reader without a time record synthesises  time[k] = position before the read + stride*k   (stride None counts as 1)
             a reader with a time record hands that record to the Trajectory
      R5     the Trajectory gets topology.subset(atom_indices) iff atom_indices is given, else the full topology; also on the empty-read exit"""
    from ..tensym import TenSym, Obj, Raised, Ten, Rat, Poly
    from ..pysym import Unsupported as PUnsupported
    for key in RAT_KEYS:
        rel, cls = F.rel_cls(key)
        fn = F.method(ctx, key, "read_as_traj")
        q = cls + ".read_as_traj"
        pr = params(fn)
        # shape of what read() is unpacked into, taken from the consumer
        rcalls = _calls(fn, lambda c: call_name(c) == "self.read")
        if len(rcalls) != 1:
            ctx.undecided("C02-R1", fn, rel, q, "self.read call", "%d calls of self.read" % len(rcalls))
            continue
        names, attrs = None, []
        for n in walk_no_nested(fn):
            if isinstance(n, ast.Assign) and n.value is rcalls[0]:
                t = n.targets[0]
                if isinstance(t, ast.Tuple) and all(isinstance(e, ast.Name) for e in t.elts):
                    names = [e.id for e in t.elts]
                elif isinstance(t, ast.Name):
                    names = t.id
                    attrs = sorted({a.attr for a in walk_no_nested(fn) if isinstance(a, ast.Attribute) and isinstance(a.value, ast.Name) and a.value.id == t.id})
        if names is None:
            ctx.undecided("C02-R1", fn, rel, q, "self.read call", "the result of self.read is not bound to names")
            continue
        has_time_record = ("time" in names) if isinstance(names, list) else ("time" in attrs)
        S = Rat(Poly.var("S"))
        problems = {"n_frames -> read": [], "stride -> read": [], "atom_indices -> read": [], "time": [], "subset": []}
        undec = None
        n_worlds = 0
        for ai in (None, "AI"):
            for stride in (None, S):
                for empty in (False, True):
                    n_worlds += 1
                    nfr = 0 if empty else _N_READ
                    nat = _N_ALL if ai is None else _N_SEL
                    rec = {"read": [], "subset": [], "traj": []}
                    full = Obj(tag="full topology", n_atoms=_N_ALL, _numAtoms=_N_ALL, _lenient=True)
                    sub = Obj(tag="subset topology", n_atoms=_N_SEL, _numAtoms=_N_SEL, _lenient=True)
                    full.subset = lambda *a_, _rec=rec, _sub=sub, **k_: (_rec["subset"].append((a_, k_)), _sub)[1]
                    me = Obj(tag="file", distance_unit="angstroms", mode="r", _frame_index=_POS, frame_counter=_POS, topology=full, _lenient=True)
                    me.tell = lambda _me=me: _me._frame_index

                    def arr(nm, nfr=nfr, nat=nat):  # noqa
                        low = nm.lower()
                        if "xyz" in low or "coord" in low:
                            return Ten.sym(nm, (nfr, nat, 3))
                        if low in ("time", "step"):
                            return Ten.sym(nm, (nfr,))
                        if "vector" in low or low == "box":
                            return Ten.sym(nm, (nfr, 3, 3))
                        return Ten.sym(nm, (nfr, 3))

                    def read(*a_, _me=me, _rec=rec, _stride=stride, _arr=arr, _nfr=nfr, **k_):
                        _rec["read"].append((a_, k_))
                        adv = _nfr * (1 if _stride is None else 3)
                        _me._frame_index = _POS + adv        # the cursor moves: a position taken after the read is not the position of the first frame
                        _me.frame_counter = _POS + adv
                        if isinstance(names, list):
                            out = tuple(_arr(nm) for nm in names)
                        elif attrs:
                            out = Obj(tag="frames", n_frames=_nfr, _lenient=True, **{a: _arr(a) for a in attrs})
                        else:
                            out = _arr("xyz")
                        _rec["out"] = out
                        return out
                    me.read = read

                    def mktraj(ev, call, rec=rec):
                        kw = {k.arg: ev.ex(k.value) for k in call.keywords}
                        for i_, a_ in enumerate(call.args):
                            kw[("xyz", "topology", "time")[i_]] = ev.ex(a_)
                        rec["traj"].append(kw)
                        return Obj(tag="traj", _lenient=True)
                    ts = TenSym({"Trajectory": Obj(_distance_unit="nanometers")}, positive=("S",),
                                models={"Trajectory": mktraj, "in_units_of": lambda ev, c: ev.ex(c.args[0]), "_check_mode": lambda ev, c: None, "warnings.warn": lambda ev, c: None})
                    given = {"self": me, "n_frames": "NF", "stride": stride, "atom_indices": ai}
                    if "topology" in pr:
                        given["topology"] = full
                    given = {k_: v_ for k_, v_ in given.items() if k_ in pr}
                    wdesc = "atom_indices %s, stride %s, %s read" % ("given" if ai else "None", "S" if stride is not None else "None", "empty" if empty else "4-frame")
                    try:
                        ts.run_fn(fn, **given)
                    except Raised as e:
                        problems["subset"].append("%s: raises %s" % (wdesc, e.exc or e))
                        continue
                    except PUnsupported as e:
                        undec = "%s: not evaluable: %s" % (wdesc, e)
                        continue
                    # R1 (c)
                    if len(rec["read"]) != 1:
                        for pn in ("n_frames", "stride", "atom_indices"):
                            problems[pn + " -> read"].append("%s: read is called %d times" % (wdesc, len(rec["read"])))
                    else:
                        a_, k_ = rec["read"][0]
                        got = dict(k_)
                        rdp = [p_ for p_ in params(F.method(ctx, key, "read")) if p_ != "self"]
                        for i_, v_ in enumerate(a_):
                            if i_ < len(rdp):
                                got.setdefault(rdp[i_], v_)
                        for pn, want in (("n_frames", "NF"), ("stride", stride), ("atom_indices", ai)):
                            if pn not in pr:
                                problems[pn + " -> read"].append("read_as_traj has no %s parameter" % pn)
                            elif not _same(got.get(pn), want):
                                problems[pn + " -> read"].append("%s: read gets %s=%r" % (wdesc, pn, got.get(pn)))
                    # R5
                    want_top = sub if ai is not None else full
                    if ai is not None and [s_[0] for s_ in rec["subset"]] != [("AI",)]:
                        problems["subset"].append("%s: topology.subset is called with %s" % (wdesc, [s_[0] for s_ in rec["subset"]]))
                    if ai is None and rec["subset"]:
                        problems["subset"].append("%s: topology.subset is called although no atoms were selected" % wdesc)
                    if len(rec["traj"]) != 1:
                        problems["subset"].append("%s: %d Trajectory objects are built" % (wdesc, len(rec["traj"])))
                        continue
                    tk = rec["traj"][0]
                    if tk.get("topology") is not want_top:
                        problems["subset"].append("%s: the Trajectory gets the %s" % (wdesc, getattr(tk.get("topology"), "tag", tk.get("topology"))))
                    x = tk.get("xyz")
                    if not isinstance(x, Ten) or x.shape != (nfr, nat, 3):
                        problems["subset"].append("%s: xyz of shape %s instead of (%d, %d, 3)" % (wdesc, getattr(x, "shape", None), nfr, nat))
                    # R4
                    if empty:
                        continue
                    tm = tk.get("time")
                    if has_time_record:
                        out = rec.get("out")
                        rt = out[names.index("time")] if isinstance(names, list) else getattr(out, "time")
                        if not (isinstance(tm, Ten) and tm.shape == rt.shape and all((a - b).n.is_zero() for a, b in zip(tm.data, rt.data))):
                            problems["time"].append("%s: the time record of the file does not reach the Trajectory" % wdesc)
                    else:
                        sv = S if stride is not None else Rat(Poly.const(1))
                        want = [Rat(Poly.const(_POS)) + sv * Rat(Poly.const(k_)) for k_ in range(nfr)]
                        if not (isinstance(tm, Ten) and tm.shape == (nfr,) and all((ts.lift(a) - b).n.is_zero() for a, b in zip(tm.data, want))):
                            problems["time"].append("%s: time is %s instead of position-before-the-read + stride*k = %s" % (
                                wdesc, [str(v_) for v_ in tm.data] if isinstance(tm, Ten) else repr(tm), [str(v_) for v_ in want]))
        if undec:
            ctx.undecided("C02-R1", fn, rel, q, "read_as_traj evaluated", undec)
            continue
        for pn in ("n_frames", "stride", "atom_indices"):
            why = problems[pn + " -> read"]
            ctx.decide(not why, "C02-R1", rcalls[0], rel, q, "%s -> read" % pn, "passed as given in %d worlds" % n_worlds,
                       "read_as_traj does not hand %s to read() as given (%s): iterload(chunk=...) / load_frame / stride / atom selection are not honoured" % (pn, "; ".join(why[:2])))
        ctx.decide(not problems["subset"], "C02-R5", fn, rel, q, "subset paired with atom_indices", "%d worlds, also the empty-read exit" % n_worlds, "; ".join(problems["subset"][:3]))
        ctx.decide(not problems["time"], "C02-R4", fn, rel, q, "time = initial + stride*arange" if not has_time_record else "time record handed to the Trajectory",
                   "by value in %d worlds" % (n_worlds // 2), "; ".join(problems["time"][:2]))


# ---------------------------------------------------------------------------------------------
def _r2(ctx):
    # decided by value instead: xyz, mdcrd, lammpstrj, gro, h5, nc, dcd, arc in R8 (read() evaluated on a model file), xtc / trr in R3 (_read on a model file)
    for key in ["dtr", "lh5"]:
        rel, cls = F.rel_cls(key)
        mname = "_read" if key in ("xtc", "trr") else "read"
        fn = F.method(ctx, key, mname)
        q = "%s.%s" % (cls, mname)
        # `stride` and the locals that stand for it: step = 1 if stride is None else stride / step = int(stride) / step = stride or 1
        names = {"stride", "_stride"}
        grew = True
        while grew:
            grew = False
            for n_ in walk_no_nested(fn):
                if isinstance(n_, ast.Assign) and len(n_.targets) == 1 and isinstance(n_.targets[0], ast.Name) and n_.targets[0].id not in names:
                    v_ = n_.value
                    simple = isinstance(v_, (ast.Name, ast.IfExp, ast.BoolOp)) or (isinstance(v_, ast.Call) and call_name(v_) == "int")
                    if simple and any(isinstance(x, ast.Name) and x.id in names for x in ast.walk(v_)) and not any(isinstance(x, ast.Name) and x.id == "n_frames" for x in ast.walk(v_)):
                        names.add(n_.targets[0].id)
                        grew = True
        names = tuple(sorted(names))
        skip_loop = False
        scaled = False
        index_arith = False
        slice_step = None
        post_slice = None
        seek_rel = False
        for n in walk_no_nested(fn):
            if isinstance(n, ast.For) and isinstance(n.iter, ast.Call) and call_name(n.iter) == "range" and n.iter.args:
                a = src(n.iter.args[0])
                if any(a.replace(" ", "") == "%s-1" % s for s in names):
                    # body must discard a frame
                    if any(isinstance(c, ast.Call) and ((call_name(c) or "").endswith(("_read", "read_next_timestep", "read_xtc", "read_trr", "_read_frame")))
                           for c in ast.walk(n)):
                        skip_loop = True
                    else:
                        # frames stepped over by a second routine: it must consume exactly one frame
                        other = [c for c in ast.walk(n) if isinstance(c, ast.Call) and (call_name(c) or "").startswith("self._")]
                        if other:
                            skip_loop = True
                            _second_skipper(ctx, key, rel, cls, q, other[0])
            if isinstance(n, ast.AugAssign) and isinstance(n.op, ast.Mult) and dotted(n.target) in ("n_frames", "_n_frames") and src(n.value) in names:
                scaled = True
                # the scaling may only be guarded by tests on stride / on n_frames being None
                x = n
                m = ctx.py.mod(rel)
                while x in m.parents and m.parents[x] is not fn:
                    p_ = m.parents[x]
                    if isinstance(p_, ast.If):
                        t = src(p_.test)
                        if not (t in ("stride is not None", "n_frames is None", "n_frames is not None", "stride is None") or (t.startswith("stride") and "n_frames" not in t)):
                            ctx.violated("C02-R2", n, rel, q, "window scaling guarded by `%s`" % t,
                                         "the window is scaled by the stride only when `%s`: for the other values of n_frames read(n_frames, stride) consumes too few frames" % t)
                    x = p_
            if isinstance(n, ast.BinOp) and isinstance(n.op, ast.Mult):
                s = src(n)
                if any(x in s for x in names) and ("n_frames" in s):
                    scaled = True
                if any(x in s for x in names) and any(isinstance(y, ast.Name) and y.id in ("j", "i") for y in ast.walk(n)):
                    index_arith = True
            if isinstance(n, ast.Call) and call_name(n) == "slice" and len(n.args) == 3 and src(n.args[2]) in names:
                slice_step = n
            if isinstance(n, ast.Subscript) and isinstance(n.slice, ast.Slice) and n.slice.step is not None and src(n.slice.step) in names \
                    and n.slice.lower is None and n.slice.upper is None:
                post_slice = n
            if isinstance(n, ast.Call) and call_name(n) == "self.seek" and n.args and src(n.args[0]) in names:
                seek_rel = True
        if "stride" not in params(fn):
            ctx.note("C02-R2", fn, rel, q, "stride", "read() has no stride parameter")
            continue
        if slice_step is not None:
            ctx.decide(scaled, "C02-R2", slice_step, rel, q, "slice(start, stop, stride)",
                       "n_frames is multiplied by the stride before the window is built",
                       "the stride is applied to a window of only n_frames raw frames: read(n_frames=n, stride=s) returns ceil(n/s) frames, so "
                       "iterload(chunk=c, stride=s) yields short chunks and, when c is not a multiple of s, the wrong frames")
        elif post_slice is not None:
            ctx.decide(scaled, "C02-R2", post_slice, rel, q, "`[::stride]` after reading",
                       "n_frames*stride raw frames are read before striding",
                       "n_frames raw frames are read and then strided: read(n_frames=n, stride=s) returns ceil(n/s) frames")
        elif skip_loop or index_arith:
            ctx.holds("C02-R2", fn, rel, q, "skip loop" if skip_loop else "index arithmetic",
                      "stride-1 frames are discarded per returned frame" if skip_loop else "frame index = j*stride + start over a window scaled by stride"
                      + ("; relative seek when offsets are cached" if seek_rel else ""))
        else:
            ctx.violated("C02-R2", fn, rel, q, "stride unused", "read() accepts a stride but never applies it")


def _second_skipper(ctx, key, rel, cls, q, call):
    """A routine other than the frame parser is used to step over frames: decide that it consumes exactly one frame (text formats with a fixed line count), else UNDECIDED."""
    name = call_name(call)[5:]
    fn = F.method(ctx, key, name, required=False)
    per_line = {"mdcrd": 10}.get(key)
    if fn is None or per_line is None:
        ctx.undecided("C02-R2", call, rel, q, "frames skipped by self.%s()" % name, "a routine other than the frame parser steps over frames; its agreement with the parser cannot be decided for this format")
        return
    cnt = [n for n in walk_no_nested(fn) if isinstance(n, ast.Assign) and isinstance(n.targets[0], ast.Name) and "_n_atoms" in src(n.value)]
    loops = [n for n in walk_no_nested(fn) if isinstance(n, ast.For) and isinstance(n.iter, ast.Call) and call_name(n.iter) == "range" and cnt and src(n.iter.args[0]) == cnt[0].targets[0].id
             and any(isinstance(c, ast.Call) and (call_name(c) or "").endswith("readline") for c in ast.walk(n))]
    if not cnt or not loops:
        ctx.undecided("C02-R2", fn, rel, "%s.%s" % (cls, name), "lines consumed per frame", "the number of lines consumed per skipped frame is not a recognisable expression of the atom count")
        return
    expr = cnt[0].value

    def ev(node, n_atoms):
        if isinstance(node, ast.Constant) and isinstance(node.value, (int, float)):
            return node.value
        if isinstance(node, ast.Attribute) and node.attr in ("_n_atoms", "n_atoms"):
            return n_atoms
        if isinstance(node, ast.Name) and node.id in ("n_atoms",):
            return n_atoms
        if isinstance(node, ast.UnaryOp) and isinstance(node.op, ast.USub):
            return -ev(node.operand, n_atoms)
        if isinstance(node, ast.BinOp):
            a, b = ev(node.left, n_atoms), ev(node.right, n_atoms)
            if isinstance(node.op, ast.Add):
                return a + b
            if isinstance(node.op, ast.Sub):
                return a - b
            if isinstance(node.op, ast.Mult):
                return a * b
            if isinstance(node.op, ast.FloorDiv):
                return a // b
            if isinstance(node.op, ast.Div):
                return a / b
            if isinstance(node.op, ast.Mod):
                return a % b
        if isinstance(node, ast.Call) and (call_name(node) or "").split(".")[-1] in ("int", "ceil") and node.args:
            import math
            v = ev(node.args[0], n_atoms)
            return int(v) if call_name(node) == "int" else math.ceil(v)
        raise ValueError(src(node))
    try:
        wrong = [(n_, ev(expr, n_), -(-3 * n_ // per_line)) for n_ in range(1, 61) if ev(expr, n_) != -(-3 * n_ // per_line)]
    except (ValueError, ZeroDivisionError) as e:
        ctx.undecided("C02-R2", cnt[0], rel, "%s.%s" % (cls, name), "lines consumed per frame", "expression not evaluable: %s" % e)
        return
    ctx.decide(not wrong, "C02-R2", cnt[0], rel, "%s.%s" % (cls, name), "a skipped frame consumes ceil(3 n_atoms / %d) coordinate lines" % per_line, "evaluated for n_atoms = 1..60",
               "`%s` lines are consumed per skipped frame; the format holds %d values per line, so a frame has ceil(3n/%d) lines: for n_atoms = %d the routine consumes %d instead of %d and every later frame is built from shifted lines"
               % (src(expr), per_line, per_line, wrong[0][0] if wrong else 0, wrong[0][1] if wrong else 0, wrong[0][2] if wrong else 0))


def _r3(ctx):
    # h5 / nc: decided by C18-R2 on the same expressions once R2 holds; here: the advance must equal slice stop-start
    for key in ("h5", "nc"):
        rel, cls = F.rel_cls(key)
        fn = F.method(ctx, key, "read")
        q = cls + ".read"
        upd = [n for n in walk_no_nested(fn) if isinstance(n, (ast.Assign, ast.AugAssign)) and
               dotted(n.targets[0] if isinstance(n, ast.Assign) else n.target) == "self._frame_index"]
        if not upd:
            ctx.undecided("C02-R3", fn, rel, q, "cursor update", "not found")
            continue
        from .c18 import read_cursor_update, is_clamped_advance, fmt as _fmt
        new, site = read_cursor_update(fn)
        s = src(site if site is not None else upd[0])
        if new is None:
            v_ = site.value if isinstance(site, ast.AugAssign) else None
            if v_ is not None and ((isinstance(v_, ast.Call) and call_name(v_) == "len") or src(v_).endswith(".shape[0]")):
                ctx.violated("C02-R3", upd[0], rel, q, "cursor := end of the window read",
                             "the cursor advances by `%s`, the number of frames *returned*; read(stride=s) consumes s times as many, so the next chunk starts inside the span already read" % src(v_))
            else:
                ctx.undecided("C02-R3", upd[0], rel, q, "cursor := end of the window read", "cannot evaluate `%s`" % s)
            continue
        ctx.decide(is_clamped_advance(new), "C02-R3", upd[0], rel, q, "cursor := end of the window read = min(position + n_frames, length)", "= %s" % _fmt(new),
                   "after a read the cursor is %s (from `%s`), not the end min(position + n_frames, length) of the window that was read: the next chunk does not start where this one ended" % (_fmt(new), s))
    rel, cls = F.rel_cls("dtr")
    fn = F.method(ctx, "dtr", "read")
    q = cls + ".read"
    idx = [n for n in walk_no_nested(fn) if isinstance(n, ast.Assign) and isinstance(n.value, ast.BinOp) and "_stride" in src(n.value) and "_start" in src(n.value)
           and isinstance(n.targets[0], ast.Name) and n.targets[0].id in ("i",)]
    upd = [n for n in walk_no_nested(fn) if isinstance(n, (ast.Assign, ast.AugAssign)) and
           dotted(n.targets[0] if isinstance(n, ast.Assign) else n.target) == "self.frame_counter"]
    if not idx or not upd:
        ctx.undecided("C02-R3", fn, rel, q, "cursor vs frame index", "index arithmetic or cursor update not found")
    else:
        u = upd[0]
        s = src(u)
        ok = "_stride" in s or "_last" in s or (isinstance(u, ast.Assign) and "i" in {x.id for x in ast.walk(u.value) if isinstance(x, ast.Name)})
        ctx.decide(ok, "C02-R3", u, rel, q, "cursor update `%s`" % s, "advances by the stride",
                   "frames are read at index `%s` but the cursor advances by `%s` per returned frame: after read(n, stride=s) the next read "
                   "starts at start+n instead of start+n*s (iterload(chunk, stride>1) re-reads and mis-orders frames)" % (src(idx[0].value), s))


def _r4(ctx):
    # synthesised time: the file classes in _rat_by_evaluation, load_pdb / load_pdbx in _r9_whole_file_loaders (both by value)
    return


def _r5(ctx):
    for key in ["h5", "nc", "xtc", "trr", "dcd", "dtr", "mdcrd", "xyz", "lammpstrj", "gro", "arc"]:
        rel, cls = F.rel_cls(key)
        # the atom index reaches the subscript as given (validation / dtype conversion only)
        rdm = F.method(ctx, key, "_read" if key in ("xtc", "trr") else "read")
        for n in walk_no_nested(rdm):
            if isinstance(n, ast.Assign) and dotted(n.targets[0]) in ("atom_slice", "atom_indices") and not isinstance(n.value, ast.IfExp):
                v = n.value
                ident = (isinstance(v, ast.Call) and (call_name(v) or "").split(".")[-1] in ("ensure_type", "asarray", "array", "cast_indices", "asanyarray")
                         and v.args and dotted(v.args[0]) in ("atom_indices", "atom_slice")) or (isinstance(v, ast.Call) and call_name(v) == "slice" and len(v.args) == 1 and const(v.args[0]) is None) \
                    or dotted(v) in ("atom_indices", "atom_slice")
                ctx.decide(ident, "C02-R5", n, rel, "%s.read" % cls, "atom index applied as given: `%s`" % src(n)[:50], "",
                           "`%s` replaces the caller's atom_indices by a derived index: duplicates / unsorted indices are no longer honoured" % src(n)[:70])
        # coordinates indexed by the same atom_indices in read()
        rd = F.method(ctx, key, "_read" if key in ("xtc", "trr") else "read")
        uses = any(isinstance(n, ast.Subscript) and "atom_" in src(n.slice) for n in walk_no_nested(rd)) or \
            any(isinstance(n, ast.Name) and n.id in ("atom_indices", "atom_slice") for n in walk_no_nested(rd))
        ctx.decide(uses, "C02-R5", rd, rel, cls + ".read", "coordinates indexed by atom_indices", "", "read() ignores atom_indices")
        # text formats: the selection is applied to the assembled frame, never inside the line parser
        if key in ("mdcrd", "xyz", "lammpstrj", "gro", "arc"):
            parents = {}
            for p_ in ast.walk(rd):
                for c_ in ast.iter_child_nodes(p_):
                    parents[id(c_)] = p_
            bad = []
            n_uses = 0
            for n in ast.walk(rd):
                if not (isinstance(n, ast.Name) and n.id in ("atom_indices", "atom_slice") and isinstance(n.ctx, ast.Load)):
                    continue
                n_uses += 1
                par = parents.get(id(n))
                ok = False
                if isinstance(par, ast.Compare) and any(isinstance(c, ast.Constant) and c.value is None for c in par.comparators):
                    ok = True
                elif isinstance(par, ast.Subscript) and par.slice is n:
                    ok = True
                elif isinstance(par, ast.Tuple) and isinstance(parents.get(id(par)), ast.Subscript):
                    ok = True
                elif isinstance(par, ast.Call) and (call_name(par) or "").split(".")[-1] in ("cast_indices", "ensure_type", "asarray", "array"):
                    ok = True
                elif isinstance(par, (ast.IfExp, ast.Assign)):
                    ok = True
                if not ok:
                    bad.append((n, src(par)[:60] if par is not None else "?"))
            ctx.decide(n_uses > 0 and not bad, "C02-R5", bad[0][0] if bad else rd, rel, cls + ".read", "atom_indices only subscripts the assembled frame (%d uses)" % n_uses, "",
                       "atom_indices is used in `%s`: the selection reaches the frame parser, which identifies atoms by line position / id column, not by the caller's index" % (bad[0][1] if bad else ""))


def _r5_index_arrays(ctx):
    """numpy broadcasts two index arrays that appear in one subscript against each other: the frame selection and the atom selection must not share a subscript unless one of them is a slice."""
    n_sites = 0
    for rel in sorted(ctx.py.all_py("mdtraj/formats")) + [TRAJ]:
        m = ctx.py.mod(rel)
        for q, fn in m.functions.items():
            if not (q.startswith("load") or q.endswith((".read", ".read_as_traj", "._read"))):
                continue
            for n in walk_no_nested(fn):
                if not (isinstance(n, ast.Subscript) and isinstance(n.slice, ast.Tuple)):
                    continue
                elts = n.slice.elts
                atomish = [e for e in elts if isinstance(e, ast.Name) and e.id in ("atom_indices", "atom_slice")]
                if not atomish:
                    continue
                n_sites += 1
                def is_slice(e):
                    if isinstance(e, ast.Call) and call_name(e) == "slice":
                        return True
                    if isinstance(e, ast.Name):
                        ds = [a.value for a in walk_no_nested(fn) if isinstance(a, ast.Assign) and any(isinstance(t, ast.Name) and t.id == e.id for t in a.targets)]
                        return bool(ds) and all(isinstance(v, ast.Call) and call_name(v) == "slice" for v in ds)
                    return False
                arrays = [e for e in elts if e not in atomish and not is_slice(e) and (isinstance(e, (ast.List, ast.Tuple)) or (isinstance(e, ast.Name) and e.id not in ("Ellipsis",) and not e.id.endswith("slice")) or isinstance(e, ast.Call))]
                ctx.decide(not arrays, "C02-R5", n, rel, q, "`%s`: the atom selection is the only index array in its subscript" % src(n)[:50], "",
                           "`%s` combines the atom selection with another index array (`%s`) in one subscript: numpy pairs the two arrays element by element instead of selecting a frame x atom block"
                           % (src(n)[:60], src(arrays[0]) if arrays else ""))
    if n_sites < 8:
        raise AnalysisError("only %d subscripts with an atom selection found in the loaders" % n_sites)


def _r6(ctx):
    _iterload_by_evaluation(ctx)
    # load(list): same kwargs for every further file, join(check_topology=False, discard_overlapping_frames passed through)
    fn = ctx.py.func(TRAJ, "load")
    loops = [n for n in walk_no_nested(fn) if isinstance(n, ast.For) and "filename_or_filenames" in src(n.iter)]
    ok = False
    for lp in loops:
        for c in ast.walk(lp):
            if isinstance(c, ast.Call) and call_name(c) == "loader":
                ok = any(k.arg is None and dotted(k.value) == "kwargs" for k in c.keywords)
    ctx.decide(ok, "C02-R6", fn, TRAJ, "load", "every further file loaded with **kwargs", "", "later files of a list are loaded without the caller's options")
    patched = [n for n in walk_no_nested(fn) if isinstance(n, ast.Assign) and isinstance(n.targets[0], ast.Attribute)
               and isinstance(n.targets[0].value, ast.Subscript) and dotted(n.targets[0].value.value) == "kwargs"]
    from ..cfg import CFG as _CFG
    lcfg = _CFG(fn)
    ldom = lcfg.dominators()
    for n in patched:
        # allowed only when kwargs['top'] was replaced by a private copy before - on *every* path to the patch (the copy dominates it)
        copies = [a for a in walk_no_nested(fn) if isinstance(a, ast.Assign) and isinstance(a.targets[0], ast.Subscript) and dotted(a.targets[0].value) == "kwargs" and const(a.targets[0].slice) == "top"
                  and isinstance(a.value, ast.Call) and (src(a.value.func).endswith((".copy", "deepcopy")) or src(a.value.func) == "copy")]
        pn = lcfg.node_containing(n)
        copied = any(lcfg.node_containing(a) is not None and pn is not None and lcfg.node_containing(a) != pn and lcfg.dominates(lcfg.node_containing(a), pn, ldom) for a in copies)
        ctx.decide(copied, "C02-R6", n, TRAJ, "load", "`%s` acts on a private copy" % src(n.targets[0]), "",
                   "`%s` patches the topology object the caller passed as top=: a later load with the same object silently gets the first call's atom subset" % src(n)[:70])
    if not patched:
        ctx.holds("C02-R6", fn, TRAJ, "load", "the caller's topology is not modified", "")
    j = _calls(fn, lambda c: call_name(c) == "join")
    ok = bool(j) and const(kwarg(j[0], "check_topology")) is False and dotted(kwarg(j[0], "discard_overlapping_frames")) == "discard_overlapping_frames"
    ctx.decide(ok, "C02-R6", j[0] if j else fn, TRAJ, "load", "join(check_topology=False, discard_overlapping_frames=...)", "", "the per-file loads are not joined as documented")


# ---------------------------------------------------------------------------------------------------
READER_BUFFER_ARGS = {"read_xtc": (1, [5]), "read_trr": (1, [6, 7, 8])}     # callee: (position of natoms, positions of the rvec* buffers)


def _r7_reader_buffers(ctx):
    """The XDR readers write `natoms` positions (velocities, forces) into the buffer they are given.  A buffer allocated for the atoms the
    caller *selected* and handed to a call that reads all atoms of the file is overrun (heap corruption) - e.g. the dummy frame used to skip
    frames when striding.  For every call: the atom axis of every allocation that can reach the buffer argument on a path compatible with the
    conditions around the call must be the natoms argument."""
    for key in ("xtc", "trr"):
        rel, cls = F.rel_cls(key)
        mod = ctx.py.mod(rel)
        for mname in ("_read", "read"):
            fn = F.method(ctx, key, mname, required=False)
            if fn is None:
                continue
            q = "%s.%s" % (cls, mname)
            parents = {}
            for n in ast.walk(fn):
                for c in ast.iter_child_nodes(n):
                    parents[c] = n

            def guards(node):
                g = []
                cur = node
                while cur in parents:
                    p_ = parents[cur]
                    if isinstance(p_, ast.If):
                        if cur in p_.body:
                            g.append((src(p_.test), True))
                        elif cur in p_.orelse:
                            g.append((src(p_.test), False))
                    cur = p_
                return g

            def compatible(g1, g2):
                return not any(t1 == t2 and p1 != p2 for t1, p1 in g1 for t2, p2 in g2)
            assigns = {}
            for n in walk_no_nested(fn):
                if isinstance(n, ast.Assign) and len(n.targets) == 1 and isinstance(n.targets[0], ast.Name):
                    assigns.setdefault(n.targets[0].id, []).append(n)
            for call in [n for n in ast.walk(fn) if isinstance(n, ast.Call)]:
                cn = (call_name(call) or "").split(".")[-1]
                if cn not in READER_BUFFER_ARGS:
                    continue
                npos, bufpos = READER_BUFFER_ARGS[cn]
                if len(call.args) <= npos:
                    continue
                natoms = src(call.args[npos]).replace(" ", "")
                cg = guards(call)
                for bp in bufpos:
                    if bp >= len(call.args):
                        continue
                    a = call.args[bp]
                    if isinstance(a, ast.Constant) or (isinstance(a, ast.Name) and a.id == "NULL"):
                        continue
                    # the buffer expression: BUF[i, 0, 0] / BUF[0, 0], or a local pointer that was set from one
                    cands = []
                    if isinstance(a, ast.Subscript) and isinstance(a.value, ast.Name):
                        cands = [(a.value.id, a)]
                    elif isinstance(a, ast.Name):
                        for d in assigns.get(a.id, []):
                            if compatible(cg, guards(d)) and isinstance(d.value, ast.Subscript) and isinstance(d.value.value, ast.Name):
                                cands.append((d.value.value.id, d.value))
                    for buf, sub in cands:
                        n_idx = len(sub.slice.elts) if isinstance(sub.slice, ast.Tuple) else 1
                        for d in assigns.get(buf, []):
                            v = d.value
                            if not (isinstance(v, ast.Call) and (call_name(v) or "").split(".")[-1] in ("empty", "zeros", "ones", "empty_like", "zeros_like")):
                                continue
                            if not compatible(cg, guards(d)):
                                continue
                            shp = v.args[0] if v.args else kwarg(v, "shape")
                            if not isinstance(shp, (ast.Tuple, ast.List)) or len(shp.elts) < 2:
                                continue
                            atom_dim = shp.elts[-2]
                            # resolve a local through the assignments compatible with the call
                            vals = []
                            if isinstance(atom_dim, ast.Name) and atom_dim.id in assigns:
                                for dd in assigns[atom_dim.id]:
                                    if compatible(cg, guards(dd)):
                                        vals.append((src(dd.value).replace(" ", ""), guards(dd)))
                            else:
                                vals.append((src(atom_dim).replace(" ", ""), []))
                            bad = [(t, g) for t, g in vals if t != natoms]
                            desc = "%s(.., %s, ..) writes into `%s` (argument %d), allocated `%s`" % (cn, natoms, buf, bp, src(v)[:50])
                            ctx.decide(not bad, "C02-R7", call, rel, q, desc, "atom axis = %s on every path that reaches the call" % natoms,
                                       "the reader writes %s atoms into `%s`, which is allocated for `%s` atoms%s: with atom_indices given and this call reached (e.g. the frames skipped "
                                       "by read(stride=s) before the offsets are known) memory behind the buffer is overwritten"
                                       % (natoms, buf, bad[0][0] if bad else "", (" when " + " and ".join("%s is %s" % (t, p) for t, p in bad[0][1])) if bad and bad[0][1] else ""))


# ---------------------------------------------------------------------------------------------
def _r8_text_readers(ctx, rule="C02-R8", cursor_only=False):
    """read() / seek() / tell() of the text formats evaluated (sa/tensym.py, sa/ttext.py) on a model file of seven frames that the format's own
    writer produced from symbolic frames (sa/writers.py).  Decided by value for sequences of calls on one file object: read(n, stride=s) at cursor
    P returns exactly the frames P, P+s, ... (n of them, or up to the end) and leaves the cursor at P + n*s (the end for n None), so the next read
    continues there; atom_indices selects those atoms, in the order given, of the same frames; cell / time rows belong to the frames returned;
    seek(k) makes the next read start at frame k."""
    from .. import writers as W
    from ..tensym import Raised, Ten
    from ..pysym import Unsupported as PUnsupported
    NF = 7
    seqs = [
        ("strided reads continue where the last one stopped", [("read", dict(n_frames=2, stride=2)), ("read", dict(n_frames=1)), ("read", dict(stride=3))]),
        ("n_frames counts frames returned", [("read", dict(n_frames=3, stride=3)), ("read", dict())]),
        ("single strided frames (iterload chunk=1)", [("read", dict(n_frames=1, stride=2)), ("read", dict(n_frames=1, stride=2)), ("read", dict(n_frames=1, stride=3)), ("read", dict())]),
        ("atom selection of strided frames", [("read", dict(stride=2, atom_indices=[2, 0]))]),
        ("the remainder read twice with a selection (the loop that reads until nothing comes)", [("read", dict(n_frames=5, atom_indices=[2, 0])), ("read", dict(atom_indices=[2, 0])), ("read", dict(atom_indices=[2, 0]))]),
        ("seek, then read", [("seek", 5), ("read", dict()), ("seek", 1), ("read", dict(n_frames=2, stride=2)), ("tell", None)]),
        ("seek to the end (iterload skip = number of frames), then read", [("seek", 7), ("tell", None), ("read", dict())]),
    ]
    if ctx.tier == "thorough":
        seqs += [("stride larger than what is left", [("read", dict(n_frames=1, stride=5)), ("read", dict(n_frames=2, stride=4)), ("read", dict())]),
                 ("single frames", [("seek", 6), ("read", dict(n_frames=1)), ("read", dict(n_frames=1))]),
                 ("all at once with a selection", [("read", dict(atom_indices=[1]))])]
    for key in ("xyz", "mdcrd", "lammpstrj", "gro"):
        rel, cls = F.rel_cls(key)
        rfn = F.method(ctx, key, "read")
        q = cls + ".read"
        if cursor_only:
            # a file whose last frame is cut short (the writer is still at work, or was killed): reading to the end returns the complete frames and
            # the position is their number - an incomplete frame is not counted
            desc_t = "the cursor after reading a file whose last frame is cut short: read(), tell()"
            try:
                root = W.new_root()
                world = W.World(3, cell=True, ortho=True, time=True, n_atoms=W.N_ATOMS)
                pieces = W.written(ctx, key, world, [(0, 3)], root)
                fh = W.text_file(pieces)
                del fh._lines[-2:]
                fields = {"mdcrd": dict(_n_atoms=W.N_ATOMS, _has_box=None), "gro": dict(n_atoms=W.N_ATOMS)}.get(key, {})
                me = W.reader_object(ctx, key, fh, **fields)
                if key == "mdcrd":
                    fh.readline()
                try:
                    got = W.read_call(ctx, key, me, "read", root)
                    res = list(got) if isinstance(got, tuple) else [got]
                    n_ret = res[0].shape[0] if isinstance(res[0], Ten) and res[0].ndim == 3 else None
                    outcome = "returns %s frames" % n_ret
                except Raised as e:
                    n_ret, outcome = None, "raises %s" % (e.exc or e)
                try:
                    t_ = ctx_pyval(W.read_call(ctx, key, me, "tell", root))
                except Raised as e:
                    t_ = None if "NotImplementedError" in (e.exc or "") else "raises %s" % (e.exc or e)
                if n_ret is None:
                    ctx.note(rule, rfn, rel, q, desc_t, "read() of the truncated file %s: nothing to compare the position with" % outcome)
                elif t_ is None:
                    ctx.note(rule, rfn, rel, q, desc_t, "tell() is not implemented by this format")
                else:
                    ctx.decide(t_ == n_ret, rule, rfn, rel, q, desc_t, "", "read() %s of a file with 2 complete frames and a third one cut short, tell() is then %s: the incomplete frame is counted" % (outcome, t_))
            except PUnsupported as e:
                ctx.undecided(rule, rfn, rel, q, desc_t, "not evaluable: %s" % e)
        # mdcrd holds ten numbers per line: also a frame that fills its last line exactly (10 atoms = 30 numbers)
        for na, cell, (title, seq) in [(W.N_ATOMS, True, ts_) for ts_ in seqs] + ([(10, True, seqs[0]), (10, False, seqs[0]), (10, False, seqs[3]), (W.N_ATOMS, False, seqs[0])] if key == "mdcrd" else []):
            desc = ("the cursor after every call - " if cursor_only else "") + "%s%s: %s" % (title, "" if (na == W.N_ATOMS and cell) else " (%d atoms%s)" % (na, "" if cell else ", no cell"), ", ".join("%s(%s)" % (m_, ", ".join("%s=%s" % kv for kv in a_.items()) if isinstance(a_, dict) else ("" if a_ is None else a_)) for m_, a_ in seq))
            try:
                root = W.new_root()
                world = W.World(NF, cell=cell, ortho=True, time=True, n_atoms=na)
                pieces = W.written(ctx, key, world, [(0, NF)], root)
                fh = W.text_file(pieces)
                fields = {"mdcrd": dict(_n_atoms=na, _has_box=None), "gro": dict(n_atoms=na)}.get(key, {})
                me = W.reader_object(ctx, key, fh, **fields)
                if key == "mdcrd":
                    fh.readline()

                def reopen(ev, call, _pieces=pieces, _me=me, _key=key):
                    f2 = W.text_file(_pieces)
                    return f2
                models = {"open": reopen, "open_maybe_zipped": reopen}
                P, why = 0, []
                for m_, a_ in seq:
                    if m_ == "seek":
                        try:
                            W.read_call(ctx, key, me, "seek", root, models=models, offset=a_)
                        except Raised as e:
                            if "NotImplementedError" in (e.exc or ""):
                                why = None      # the format offers no seek (it says so): nothing to decide for this sequence
                                break
                            raise
                        if key == "mdcrd" and getattr(me, "_fh", None) is not fh and getattr(me._fh, "_state", {}).get("k") == 0:
                            pass
                        P = a_
                        continue
                    if m_ == "tell":
                        t_ = W.read_call(ctx, key, me, "tell", root, models=models)
                        if ctx_pyval(t_) != P:
                            why.append("tell() is %s after the cursor has reached frame %d" % (t_, P))
                        continue
                    n_, s_ = a_.get("n_frames"), a_.get("stride") or 1
                    want = [f_ for f_ in range(P, NF, s_)]
                    if n_ is not None:
                        want = want[:n_]
                    sel = a_.get("atom_indices")
                    got = W.read_call(ctx, key, me, "read", root, models=models, **a_)
                    res = list(got) if isinstance(got, tuple) else [got]
                    xyz = res[0]
                    atoms = sel if sel is not None else list(range(na))
                    exp = [world.x.data[(f_ * na + at_) * 3 + k_] for f_ in want for at_ in atoms for k_ in range(3)]
                    ok = isinstance(xyz, Ten) and (list(xyz.shape) == [len(want), len(atoms), 3] or (not want and len(xyz.data) == 0)) and all(_same(a1, b1) for a1, b1 in zip(xyz.data, exp))
                    if not ok:
                        first = [repr(xyz.data[i_ * len(atoms) * 3]) for i_ in range(xyz.shape[0])] if isinstance(xyz, Ten) and xyz.ndim == 3 and xyz.shape[1:] == (len(atoms), 3) else getattr(xyz, "shape", xyz)
                        why.append("%s at frame %d returns %s, the definition is frames %s%s" % ("read(%s)" % ", ".join("%s=%s" % kv for kv in a_.items()), P, first, want, "" if sel is None else " of atoms %s" % sel))
                    # rows of cell / time belong to the same frames
                    if key == "mdcrd" and cell and want and len(res) > 1 and isinstance(res[1], Ten):
                        if not all(_same(a1, b1) for a1, b1 in zip(res[1].data, [world.L.data[f_ * 3 + k_] for f_ in want for k_ in range(3)])) or res[1].shape[0] != len(want):
                            why.append("the cell lengths returned are not those of frames %s" % want)
                    if key == "gro" and want and len(res) > 2 and isinstance(res[1], Ten):
                        if not all(_same(a1, b1) for a1, b1 in zip(res[1].data, [world.t.data[f_] for f_ in want])) or res[1].shape[0] != len(want):
                            why.append("the times returned are not those of frames %s" % want)
                    P = min(NF, P + (n_ * s_ if n_ is not None else NF))
                    if cursor_only:
                        # the cursor after every read: tell() is the number of frames consumed so far
                        try:
                            t_ = W.read_call(ctx, key, me, "tell", root, models=models)
                            if ctx_pyval(t_) != P:
                                why.append("tell() is %s after %s has consumed the frames up to %d" % (t_, "read(%s)" % ", ".join("%s=%s" % kv for kv in a_.items()), P))
                        except Raised as e:
                            if "NotImplementedError" not in (e.exc or ""):
                                raise
                if cursor_only:
                    why = None if why is None else [w_ for w_ in why if "tell()" in w_]
                if why is None:
                    ctx.note(rule, rfn, rel, q, desc, "seek() is not implemented by this format (NotImplementedError)")
                    continue
                ctx.decide(not why, rule, rfn, rel, q, desc, "", "; ".join(why[:2]))
            except Raised as e:
                ctx.violated(rule, rfn, rel, q, desc, "refused: %s" % (e.exc or e))
            except ShapeError as e:
                ctx.violated(rule, rfn, rel, q, desc, "raises IndexError / ValueError: %s" % e)
            except PUnsupported as e:
                ctx.undecided(rule, rfn, rel, q, desc, "not evaluable: %s" % e)


def _r13_arc_reader(ctx):
    """ArcTrajectoryFile.read / read_as_traj / _read evaluated (sa/tensym.py, sa/ttext.py) on a model TINKER archive of seven frames laid out as the
    format is (atom count and title; optionally a line of six cell numbers; one line per atom: number, name, x, y, z, type, bonded atoms), the
    coordinates symbolic.  The class has no writer, so the text is built here.  Decided by value for sequences of calls on one file object: read(n,
    stride=s) at frame P returns the frames P, P+s, ... (n of them or up to the end - also when the stride does not divide what is left), atoms
    selected by atom_indices, the cell rows of the same frames; read_as_traj gives them the times P, P+s, ... of the frames' positions in the file."""
    from .. import writers as W
    from ..tensym import Raised, Ten, FVal, Obj, TenSym, Rat, Poly
    from ..pysym import Unsupported as PUnsupported
    NF, NA = 7, 3
    rel, cls = F.rel_cls("arc")
    rfn = F.method(ctx, "arc", "read")
    q = cls + ".read"
    names = ["N", "CL", "H"]
    bonds = [[], [3], [2]]      # the first atom has no bonded partner: its record has six fields, as many as a cell line
    seqs = [
        ("all frames", [("read", dict())]),
        ("strided reads continue where the last one stopped", [("read", dict(n_frames=2, stride=2)), ("read", dict(n_frames=1)), ("read", dict(stride=3))]),
        ("a stride that does not divide the frames left", [("read", dict(stride=2))]),
        ("n_frames counts frames returned", [("read", dict(n_frames=2, stride=3)), ("read", dict())]),
        ("atom selection of strided frames", [("read", dict(stride=3, atom_indices=[2, 0]))]),
        ("times of chunks (iterload chunk=2, stride=2)", [("read_as_traj", dict(n_frames=2, stride=2)), ("read_as_traj", dict(n_frames=2, stride=2))]),
        ("times of a strided load", [("read_as_traj", dict(stride=3))]),
    ]
    for cell in (True, False):
        for title, seq in seqs:
            desc = "%s%s: %s" % (title, "" if cell else " (no cell line)", ", ".join("%s(%s)" % (m_, ", ".join("%s=%s" % kv for kv in a_.items())) for m_, a_ in seq))
            x = Ten.sym("x", (NF, NA, 3))
            L = Ten.sym("L", (NF, 3))
            A = Ten.sym("A", (NF, 3))
            pieces = []
            for f_ in range(NF):
                pieces += ["%6d  archive frame\n" % NA]
                if cell:
                    pieces += [FVal(v_, "12.6f") for v_ in L.data[f_ * 3: f_ * 3 + 3]] + [FVal(v_, "12.6f") for v_ in A.data[f_ * 3: f_ * 3 + 3]] + ["\n"]
                for a_ in range(NA):
                    pieces += ["%6d  %-3s" % (a_ + 1, names[a_])] + [FVal(x.data[(f_ * NA + a_) * 3 + k_], "12.6f") for k_ in range(3)] + ["%6d" % (8 + a_)] + ["%6d" % b_ for b_ in bonds[a_]] + ["\n"]
            try:
                root = W.new_root()
                fh = W.text_file(pieces)
                me = W.reader_object(ctx, "arc", fh, topology=None)
                tops, made = [], []

                def mktop(ev, call, _tops=tops):
                    t = Obj(tag="topology", _lenient=True)
                    t._atoms, t._bonds = [], []
                    t.add_chain = lambda *a_, **k_: Obj(tag="chain")
                    t.add_residue = lambda *a_, **k_: Obj(tag="residue")

                    def add_atom(name, element, residue, **k_):
                        a = Obj(tag="atom " + str(name), name=name, element=element, index=len(t._atoms))
                        t._atoms.append(a)
                        return a
                    t.add_atom = add_atom
                    t.add_bond = lambda a_, b_, **k_: t._bonds.append((a_.index, b_.index))
                    t._getters = {"atoms": lambda s_: list(s_._atoms), "n_atoms": lambda s_: len(s_._atoms)}
                    t.subset = lambda idx: Obj(tag="subset", n_atoms=len(idx), _of=list(idx), _lenient=True)
                    _tops.append(t)
                    return t

                def mktraj(ev, call, _made=made):
                    kw = {k.arg: ev.ex(k.value) for k in call.keywords}
                    _made.append(kw)
                    return Obj(tag="traj", _lenient=True)

                def by_symbol(sym):
                    if str(sym).upper() not in ("N", "C", "H", "O", "CL", "NA", "MG"):
                        raise Raised("the analysed path raises KeyError", "KeyError(%r)" % (sym,))
                    return Obj(tag="element " + str(sym), symbol=str(sym))
                models = {"Topology": mktop, "Trajectory": mktraj, "in_units_of": lambda ev, c: ev.ex(c.args[0])}
                env = {"Element": Obj(getBySymbol=by_symbol, _lenient=True), "virtual": Obj(tag="virtual"), "Trajectory": Obj(_distance_unit="nanometers")}
                P, why = 0, []
                for m_, a_ in seq:
                    n_, s_ = a_.get("n_frames"), a_.get("stride") or 1
                    want = [f_ for f_ in range(P, NF, s_)]
                    if n_ is not None:
                        want = want[:n_]
                    sel = a_.get("atom_indices")
                    atoms = sel if sel is not None else list(range(NA))
                    del made[:]
                    rel_, cls_ = F.rel_cls("arc")
                    mod = ctx.py.mod(rel_)
                    ts = TenSym(dict(env), funcs={q_: f_ for q_, f_ in mod.functions.items() if "." not in q_}, models=dict(models, **{"warnings.warn": lambda ev, c: None}), parent=root)
                    ts.module_env = dict(env)
                    ts.assume = W.assume
                    got = ts.run_fn(F.method(ctx, "arc", m_), self=me, **a_)
                    if m_ == "read_as_traj":
                        if len(made) != 1:
                            why.append("%s builds %d Trajectory objects" % (m_, len(made)))
                            break
                        xyz, lens, angs, tm = made[0].get("xyz"), made[0].get("unitcell_lengths"), made[0].get("unitcell_angles"), made[0].get("time")
                        if not (isinstance(tm, Ten) and tm.shape == (len(want),) and all(_same(p_, Rat(Poly.const(f_))) for p_, f_ in zip(tm.data, want))):
                            why.append("read_as_traj(%s) at frame %d gives the times %s; the frames are %s of the file" % (", ".join("%s=%s" % kv for kv in a_.items()), P, [str(v_) for v_ in tm.data] if isinstance(tm, Ten) else tm, want))
                    else:
                        res = list(got) if isinstance(got, tuple) else [got]
                        xyz, lens, angs = (res + [None, None])[:3]
                    exp = [x.data[(f_ * NA + at_) * 3 + k_] for f_ in want for at_ in atoms for k_ in range(3)]
                    ok = isinstance(xyz, Ten) and (list(xyz.shape) == [len(want), len(atoms), 3] or (not want and len(xyz.data) == 0)) and all(_same(a1, b1) for a1, b1 in zip(xyz.data, exp))
                    if not ok:
                        first = [repr(xyz.data[i_ * len(atoms) * 3]) for i_ in range(xyz.shape[0])] if isinstance(xyz, Ten) and xyz.ndim == 3 and xyz.shape[1:] == (len(atoms), 3) else getattr(xyz, "shape", xyz)
                        why.append("%s(%s) at frame %d returns %s, the definition is frames %s%s" % (m_, ", ".join("%s=%s" % kv for kv in a_.items()), P, first, want, "" if sel is None else " of atoms %s" % sel))
                    if want:
                        if cell:
                            for nm_, v_, src_ in (("lengths", lens, L), ("angles", angs, A)):
                                if not (isinstance(v_, Ten) and v_.shape == (len(want), 3) and all(_same(a1, b1) for a1, b1 in zip(v_.data, [src_.data[f_ * 3 + k_] for f_ in want for k_ in range(3)]))):
                                    why.append("the cell %s returned are not those of frames %s" % (nm_, want))
                        elif lens is not None or angs is not None:
                            why.append("a cell is returned for a file without cell lines")
                    P = min(NF, P + (n_ * s_ if n_ is not None else NF))
                if tops:
                    t0 = tops[0]
                    if [a_.name for a_ in t0._atoms] != names or sorted(t0._bonds) != [(1, 2)] or len(tops) != 1:
                        why.append("the topology built has atoms %s and bonds %s (%d built); the file has %s with the bond 2-3" % ([a_.name for a_ in t0._atoms], sorted(t0._bonds), len(tops), names))
                ctx.decide(not why, "C02-R8", rfn, rel, q, desc, "", "; ".join(why[:2]))
            except Raised as e:
                ctx.violated("C02-R8", rfn, rel, q, desc, "raises %s" % (e.exc or e))
            except ShapeError as e:
                ctx.violated("C02-R8", rfn, rel, q, desc, "raises IndexError / ValueError: %s" % e)
            except PUnsupported as e:
                ctx.undecided("C02-R8", rfn, rel, q, desc, "not evaluable: %s" % e)


def ctx_pyval(v):
    from ..tensym import Rat
    if isinstance(v, Rat):
        c = v.const_value()
        return int(c) if c is not None and c.denominator == 1 else v
    return v


# ---------------------------------------------------------------------------------------------
PDB_LOADERS = [("mdtraj/formats/pdb/pdbfile.py", "load_pdb", "PDBTrajectoryFile"), ("mdtraj/formats/pdbx.py", "load_pdbx", "PDBxTrajectoryFile")]


def _r9_whole_file_loaders(ctx):
    """load_pdb / load_pdbx hold all models in memory and do the frame / stride / atom selection themselves.  Evaluated (sa/tensym.py) with the file
    class summarised as an object holding positions[5 models, 4 atoms, 3], a topology and no cell, for frame in {None, 0, 3} x stride in {None, 2} x
    atom_indices in {None, [2, 0]}: the Trajectory built gets the coordinates, times and topology of the definition
        load(f, stride=s, atom_indices=a) = load(f)[::s] restricted to a;    load_frame(f, k, a) = load(f)[k] restricted to a   (time included)."""
    from ..tensym import TenSym, Obj, Raised, Ten, Rat, Poly
    from ..pysym import Unsupported as PUnsupported
    NF, NA = 5, 4
    for rel, lname, cls in PDB_LOADERS:
        lf = ctx.py.func(rel, lname)
        mod_funcs = {q_: f_ for q_, f_ in ctx.py.mod(rel).functions.items() if "." not in q_ and q_ != lname}
        pr = params(lf)
        for frame in (None, 0, 3):
            for stride in (None, 2):
                for ai in (None, [2, 0]):
                    if frame is not None and stride is not None:
                        continue
                    desc = "frame=%s, stride=%s, atom_indices=%s" % (frame, stride, ai)
                    pos = Ten.sym("x", (NF, NA, 3))
                    full = Obj(tag="full topology", n_atoms=NA, _numAtoms=NA, _lenient=True)
                    sub = Obj(tag="subset topology", n_atoms=2, _numAtoms=2, _lenient=True)
                    subs = []
                    full.subset = lambda a_, _s=subs, _sub=sub: (_s.append(a_), _sub)[1]
                    made = []

                    def mkfile(ev, call, _pos=pos, _full=full):
                        o = Obj(tag="file", positions=Ten(_pos.shape, list(_pos.data)), topology=_full, unitcell_lengths=None, unitcell_angles=None, distance_unit="angstroms", _lenient=True)
                        o.__enter__ = lambda: o
                        return o

                    def mktraj(ev, call, _made=made):
                        kw = {k.arg: ev.ex(k.value) for k in call.keywords}
                        for i_, a_ in enumerate(call.args):
                            kw[("xyz", "topology", "time")[i_]] = ev.ex(a_)
                        _made.append(kw)
                        return Obj(tag="traj", unitcell_lengths=None, _lenient=True)
                    ts = TenSym({"Trajectory": Obj(_distance_unit="nanometers")}, funcs=mod_funcs,
                                models={cls: mkfile, "Trajectory": mktraj, "in_units_of": lambda ev, c: ev.ex(c.args[0]), "cast_indices": lambda ev, c: ev.ex(c.args[0]),
                                        "_parse_topology": lambda ev, c: None, "warnings.warn": lambda ev, c: None, "open_maybe_zipped": lambda ev, c: None})
                    ts.module_env = {"os": Obj(PathLike="PathLike")}
                    given = {p_: v_ for p_, v_ in (("filename", "file.pdb"), ("stride", stride), ("atom_indices", ai), ("frame", frame), ("top", None)) if p_ in pr}
                    try:
                        ts.run_fn(lf, **given)
                    except Raised as e:
                        ctx.violated("C02-R4", lf, rel, lname, desc + ": the frames, atoms and times of the definition", "the loader raises %s" % (e.exc or e))
                        continue
                    except PUnsupported as e:
                        ctx.undecided("C02-R4", lf, rel, lname, desc + ": the frames, atoms and times of the definition", "not evaluable: %s" % e)
                        continue
                    frames = [frame] if frame is not None else list(range(0, NF, stride or 1))
                    atoms = ai if ai is not None else list(range(NA))
                    why = []
                    if len(made) != 1:
                        why.append("%d Trajectory objects are built" % len(made))
                    else:
                        kw = made[0]
                        x = kw.get("xyz")
                        exp = [pos.data[(f_ * NA + a_) * 3 + k_] for f_ in frames for a_ in atoms for k_ in range(3)]
                        if not (isinstance(x, Ten) and x.shape == (len(frames), len(atoms), 3) and all(_same(p_, q_) for p_, q_ in zip(x.data, exp))):
                            why.append("the coordinates are not those of models %s, atoms %s (shape %s)" % (frames, atoms, getattr(x, "shape", None)))
                        t = kw.get("time")
                        if not (isinstance(t, Ten) and t.shape == (len(frames),) and all(_same(p_, Rat(Poly.const(f_))) for p_, f_ in zip(t.data, frames))):
                            why.append("time is %s; the same frames of the fully loaded file carry %s" % ([str(v_) for v_ in t.data] if isinstance(t, Ten) else t, frames))
                        want_top = sub if ai is not None else full
                        if kw.get("topology") is not want_top or (ai is not None and subs != [ai]):
                            why.append("the topology handed over is the %s" % getattr(kw.get("topology"), "tag", kw.get("topology")))
                    ctx.decide(not why, "C02-R4", lf, rel, lname, desc + ": the frames, atoms and times of the definition", "", "; ".join(why))


# ---------------------------------------------------------------------------------------------
def _r10_xdr_readers(ctx):
    """XTCTrajectoryFile._read / TRRTrajectoryFile._read (Cython, desugared by sa/pyxfront.py) evaluated by sa/tensym.py on a model file of 7 frames:
    read_xtc / read_trr is summarised as "store the next frame of the file through the pointers given, or report end of file" (the assumption listed for
    this property), self.seek as "set the position".  For both ways the class strides - reading and discarding (no offsets cached) and seeking (offsets
    cached, i.e. after len() / seek()) - successive _read(n, atoms, stride) calls return the frames of the definition (P, P+s, ... from the cursor P) and
    end with an empty read; the sequence is what iterload(chunk, stride, skip) performs."""
    from ..tensym import TenSym, Ten, Obj, Raised
    from ..pysym import Unsupported as PUnsupported
    NF, NA = 7, 3
    for key, reader in (("xtc", "xdrlib.read_xtc"), ("trr", "trrlib.read_trr")):
        rel, cls = F.rel_cls(key)
        fn = F.method(ctx, key, "_read")
        q = cls + "._read"
        for efficient in (False, True):
            mode = "offsets cached (seek between the frames)" if efficient else "no offsets cached (frames in between are read and dropped)"
            desc = "%s: successive _read(n, atoms, stride) calls return the frames of the definition and come to an end" % mode
            why, undec, n_seq = [], None, 0
            for start, n, stride, sel in ((0, 2, 1, None), (2, 2, 2, None), (1, 2, 3, None), (2, 3, 2, [2, 0])):
                n_seq += 1
                sdesc = "_read(%d, %s, stride=%d) from frame %d of %d" % (n, "atoms %s" % sel if sel else "all atoms", stride, start, NF)
                X = Ten.sym("x", (NF, NA, 3))
                st = {"phys": start}
                me = Obj(tag="file", n_atoms=NA, frame_counter=start, _offsets=("offsets" if efficient else None), fh="FH", n_frames=NF, _lenient=True)

                def seek(offset, whence=0, _me=me, _st=st):
                    pos = offset if whence == 0 else _me.frame_counter + offset
                    _me.frame_counter = pos
                    _st["phys"] = pos
                me.seek = seek

                def rd(ev, call, _st=st, _X=X):
                    if _st["phys"] >= NF:
                        return 11
                    f = _st["phys"]
                    _st["phys"] += 1
                    for a in call.args[2:]:
                        if not isinstance(a, ast.Subscript):
                            continue
                        base = ev.ex(a.value)
                        if not isinstance(base, Ten):
                            continue
                        idx = a.slice.elts if isinstance(a.slice, ast.Tuple) else [a.slice]
                        k = ev.concrete(ev.ex(idx[0]))
                        if base.ndim == 3 and base.shape[1:] == (NA, 3) and "x" in src(a.value).lower().replace("box", ""):
                            for j in range(NA * 3):
                                base.data[k * NA * 3 + j] = _X.data[f * NA * 3 + j]
                        elif base.ndim == 2 and base.shape == (NA, 3):
                            for j in range(NA * 3):
                                base.data[j] = _X.data[f * NA * 3 + j]
                    return 0
                P = start
                try:
                    for it in range(6):
                        ts = TenSym({}, models={reader: rd})
                        ts.module_env = {"_EXDROK": 0, "_EXDRENDOFFILE": 11, "_EXDR_ERROR_MESSAGES": {}, "_EXDRHEADER": 1, "NULL": None}
                        r = ts.run_fn(fn, self=me, n_frames=n, atom_indices=sel, stride=stride)
                        xyz = r[0]
                        want = [f_ for f_ in range(P, NF, stride)][:n]
                        atoms = sel if sel is not None else list(range(NA))
                        exp = [X.data[(f_ * NA + a_) * 3 + k_] for f_ in want for a_ in atoms for k_ in range(3)]
                        ok = isinstance(xyz, Ten) and xyz.shape[0] == len(want) and all(_same(p_, q_) for p_, q_ in zip(xyz.data, exp)) and len(xyz.data) == len(exp)
                        if not ok:
                            firsts = [("uninitialised memory" if "undef" in repr(xyz.data[i_ * len(atoms) * 3]) else "frame " + repr(xyz.data[i_ * len(atoms) * 3]).split("[")[1].split(",")[0]) for i_ in range(xyz.shape[0])] \
                                if isinstance(xyz, Ten) and xyz.ndim == 3 else getattr(xyz, "shape", xyz)
                            why.append("%s: call %d returns %s, the definition gives frames %s" % (sdesc, it + 1, firsts, want))
                            break
                        P = min(NF, P + n * stride)
                        if not want:
                            break
                    else:
                        why.append("%s: the reads never come to an end" % sdesc)
                except Raised as e:
                    why.append("%s: raises %s" % (sdesc, e.exc or e))
                except PUnsupported as e:
                    undec = "%s: not evaluable: %s" % (sdesc, e)
            if undec and not why:
                ctx.undecided("C02-R3", fn, rel, q, desc, undec)
            else:
                ctx.decide(not why, "C02-R3", fn, rel, q, desc, "%d sequences" % n_seq,
                           "; ".join(why[:3]) + ": iterload(chunk, stride, skip) / repeated read() return frames that slicing the whole file does not, and need not terminate")


# ---------------------------------------------------------------------------------------------
def _r11_array_store_readers(ctx):
    """HDF5TrajectoryFile.read / NetCDFTrajectoryFile.read (and seek / tell) evaluated on model files of 7 frames (sa/stores.py, sa/h5model.py) that the
    class's own write() filled from symbolic frames: sequences of read(n, stride, atom_indices) return the frames, atoms, time and cell rows of the
    definition and leave the cursor at the end of the window consumed; seek(k) makes the next read start at frame k."""
    from .. import stores as S, h5model as H
    from ..tensym import TenSym, Ten, Raised, Obj
    from ..pysym import Unsupported as PUnsupported
    NF, NA = 7, 4
    seqs = [
        ("strided reads continue where the last one stopped", [("read", dict(n_frames=2, stride=2)), ("read", dict(n_frames=1)), ("read", dict(stride=3)), ("read", dict())]),
        ("n_frames counts frames returned", [("read", dict(n_frames=3, stride=3)), ("read", dict())]),
        ("single strided frames (iterload chunk=1)", [("read", dict(n_frames=1, stride=2)), ("read", dict(n_frames=1, stride=2)), ("read", dict(n_frames=1, stride=3)), ("read", dict())]),
        ("atom selection of strided frames", [("read", dict(stride=2, atom_indices=[2, 0]))]),
        ("the remainder read twice with a selection (the loop that reads until nothing comes)", [("read", dict(n_frames=5, atom_indices=[2, 0])), ("read", dict(atom_indices=[2, 0])), ("read", dict(atom_indices=[2, 0]))]),
        ("seek, then read", [("seek", 5), ("read", dict()), ("seek", 1), ("read", dict(n_frames=2, stride=2)), ("tell", None)]),
        ("seek to the end (iterload skip = number of frames), then read", [("seek", 7), ("tell", None), ("read", dict())]),
    ]
    for key in ("h5", "nc"):
        rel, cls = F.rel_cls(key)
        rfn = F.method(ctx, key, "read")
        q = cls + ".read"
        for title, seq in seqs:
            desc = "%s: %s" % (title, ", ".join("%s(%s)" % (m_, ", ".join("%s=%s" % kv for kv in a_.items()) if isinstance(a_, dict) else ("" if a_ is None else a_)) for m_, a_ in seq))
            try:
                arr = H.arrays(NF, NA)
                if key == "h5":
                    w = H.h5_file(ctx, "w", n_atoms=NA)
                    _, exc = H.call(ctx, w, "write", **arr)
                    me = H.h5_file(ctx, "r", n_atoms=NA, nodes=w._nodes, first_write=False)
                    me.mode = "r"
                else:
                    w = S.netcdf_file(ctx, "w")
                    S.run_method(ctx, key, w, "write", **arr)
                    exc = None
                    me = S.netcdf_file(ctx, "r", n_atoms=NA, variables=w._handle.variables)
                if exc:
                    ctx.undecided("C02-R8", rfn, rel, q, desc, "the model file could not be written: %s" % exc[:80])
                    continue

                def call(method, **kw):
                    if key == "h5":
                        r_, e_ = H.call(ctx, me, method, **kw)
                        if e_:
                            raise Raised(e_, e_)
                        return r_
                    return S.run_method(ctx, key, me, method, **kw)
                P, why = 0, []
                for m_, a_ in seq:
                    if m_ == "seek":
                        call("seek", offset=a_)
                        P = a_
                        continue
                    if m_ == "tell":
                        t_ = ctx_pyval(call("tell"))
                        if t_ != P:
                            why.append("tell() is %s after the cursor has reached frame %d" % (t_, P))
                        continue
                    n_, s_ = a_.get("n_frames"), a_.get("stride") or 1
                    want = [f_ for f_ in range(P, NF, s_)]
                    if n_ is not None:
                        want = want[:n_]
                    sel = a_.get("atom_indices")
                    atoms = sel if sel is not None else list(range(NA))
                    got = call("read", **a_)
                    if key == "h5":
                        fields = {f_: getattr(got, f_, None) for f_ in ("coordinates", "time", "cell_lengths", "cell_angles")} if isinstance(got, Obj) else {}
                        empty = isinstance(got, list) and not got
                    else:
                        fields = dict(zip(("coordinates", "time", "cell_lengths", "cell_angles"), got)) if isinstance(got, tuple) else {}
                        empty = isinstance(got, tuple) and isinstance(got[0], Ten) and len(got[0].data) == 0
                    if not want:
                        if not empty:
                            why.append("a read at the end of the file returns %s" % (getattr(fields.get("coordinates"), "shape", got),))
                    else:
                        x = fields.get("coordinates")
                        exp = [arr["coordinates"].data[(f_ * NA + at_) * 3 + k_] for f_ in want for at_ in atoms for k_ in range(3)]
                        if not (isinstance(x, Ten) and x.shape == (len(want), len(atoms), 3) and all(_same(p_, q_) for p_, q_ in zip(x.data, exp))):
                            first = [repr(x.data[i_ * len(atoms) * 3]).split("[")[1].split(",")[0] for i_ in range(x.shape[0])] if isinstance(x, Ten) and x.ndim == 3 and x.shape[1:] == (len(atoms), 3) else getattr(x, "shape", x)
                            why.append("read(%s) at frame %d returns frames %s, the definition is %s%s" % (", ".join("%s=%s" % kv for kv in a_.items()), P, first, want, "" if sel is None else " of atoms %s" % sel))
                        for f_, width in (("time", 1), ("cell_lengths", 3), ("cell_angles", 3)):
                            v = fields.get(f_)
                            expf = [arr[f_].data[fr_ * width + k_] for fr_ in want for k_ in range(width)]
                            if not (isinstance(v, Ten) and v.shape[0] == len(want) and all(_same(p_, q_) for p_, q_ in zip(v.data, expf))):
                                why.append("the %s rows returned are not those of frames %s" % (f_, want))
                    P = min(NF, P + (n_ * s_ if n_ is not None else NF))
                    if me._frame_index != P:
                        why.append("the cursor is %s after the read, the window consumed ends at %d" % (me._frame_index, P))
                        P = me._frame_index if isinstance(me._frame_index, int) else P
                ctx.decide(not why, "C02-R8", rfn, rel, q, desc, "", "; ".join(why[:2]))
            except Raised as e:
                ctx.violated("C02-R8", rfn, rel, q, desc, "refused: %s" % (e.exc or e))
            except ShapeError as e:
                ctx.violated("C02-R8", rfn, rel, q, desc, "raises IndexError / ValueError: %s" % e)
            except PUnsupported as e:
                ctx.undecided("C02-R8", rfn, rel, q, desc, "not evaluable: %s" % e)


# ---------------------------------------------------------------------------------------------
def _iterload_by_evaluation(ctx):
    """iterload evaluated (sa/tensym.py) as the generator it is, for every kind of file it distinguishes (a format that needs top=, one that carries its
    topology, PDB, mdcrd which is opened with n_atoms) x chunk in {0, 2, 3, 20} x stride in {1, 2, 3} x skip in {0, 1, 4}: `load` is summarised as "all
    11 frames", the file object as a cursor whose read_as_traj(n_frames, stride) behaves as the definition (the file classes are held to that by R1 - R8).
    The chunks yielded are, put together, frames skip, skip+stride, ... of the file; each but the last has `chunk` frames (one chunk when chunk is 0);
    atom_indices reaches every load / read_as_traj; a format that needs a topology gets it."""
    from ..tensym import TenSym, Obj, Raised
    from ..pysym import Unsupported as PUnsupported
    fn = ctx.py.func(TRAJ, "iterload")
    NF = 11
    topo_exts = None
    ta = ctx.py.mod(TRAJ).module_assign("_TOPOLOGY_EXTS")
    if ta is not None:
        try:
            topo_exts = [c.value for c in ast.walk(ta) if isinstance(c, ast.Constant) and isinstance(c.value, str)]
        except Exception:
            topo_exts = None
    if not topo_exts:
        raise AnalysisError("_TOPOLOGY_EXTS not found in trajectory.py")
    for ext, kind in ((".xtc", "a format that needs top="), (".h5", "a format that carries its topology"), (".pdb", "PDB"), (".mdcrd", "mdcrd (opened with n_atoms)")):
        problems, undec, n_cfg = [], None, 0
        for chunk in (0, 2, 3, 20):
            for stride in (1, 2, 3):
                for skip in (0, 1, 4):
                    n_cfg += 1
                    log = {"load": [], "open": [], "rat": []}
                    topo = Obj(tag="top", n_atoms=5)

                    def load(ev, call, _log=log):
                        kw = {k.arg: ev.ex(k.value) for k in call.keywords if k.arg}
                        for k in call.keywords:
                            if k.arg is None:
                                kw.update(ev.ex(k.value))
                        _log["load"].append(kw)
                        fr = list(range(NF))
                        s_ = kw.get("stride") or 1
                        return fr[::s_]       # load(stride=s) = every s-th frame of the file (C02-R1 .. R5)

                    def opener(ev, call, _log=log):
                        kw = {k.arg: ev.ex(k.value) for k in call.keywords if k.arg}
                        _log["open"].append(kw)
                        f = Obj(tag="file", _lenient=True)
                        st = {"pos": 0}

                        def seek(o, whence=0):
                            st["pos"] = o if whence == 0 else st["pos"] + o

                        def rat(*a, n_frames=None, stride=None, atom_indices=None, **k):
                            _log["rat"].append((a, n_frames, stride, atom_indices, k))
                            s_ = stride or 1
                            fr = list(range(st["pos"], NF, s_))
                            if n_frames is not None:
                                fr = fr[:n_frames]
                            st["pos"] = min(NF, st["pos"] + (n_frames * s_ if n_frames is not None else NF))
                            return fr
                        f.seek, f.read_as_traj, f.__enter__ = seek, rat, (lambda: f)
                        return f
                    ts = TenSym({}, models={"load": load, "open": opener, "_get_extension": lambda ev, c, _e=ext: _e, "_parse_topology": lambda ev, c, _t=topo: _t,
                                            "cast_indices": lambda ev, c: ev.ex(c.args[0])})
                    ts.module_env = {"_TOPOLOGY_EXTS": list(topo_exts)}
                    cfg = "chunk=%d, stride=%d, skip=%d" % (chunk, stride, skip)
                    try:
                        got = ts.run_fn(fn, filename="f" + ext, chunk=chunk, kwargs={"stride": stride, "atom_indices": "AI", "top": "TOP", "skip": skip})
                    except Raised as e:
                        problems.append("%s: raises %s" % (cfg, e.exc or e))
                        continue
                    except PUnsupported as e:
                        undec = "%s: not evaluable: %s" % (cfg, e)
                        continue
                    want = list(range(NF))[skip::stride]
                    flat = [x for c_ in got for x in c_] if all(isinstance(c_, list) for c_ in got) else None
                    if flat != want:
                        problems.append("%s: the chunks hold frames %s, the definition is %s" % (cfg, flat if flat is not None else got, want))
                        continue
                    sizes = [len(c_) for c_ in got]
                    if chunk == 0:
                        if len(got) != 1:
                            problems.append("%s: %d chunks instead of one" % (cfg, len(got)))
                    elif any(z_ != chunk for z_ in sizes[:-1]) or (sizes and not (0 < sizes[-1] <= chunk)):
                        problems.append("%s: chunk sizes %s" % (cfg, sizes))
                    for kw in log["load"]:
                        if kw.get("atom_indices") != "AI":
                            problems.append("%s: load() does not get the caller's atom_indices" % cfg)
                        if ext not in topo_exts and kw.get("top") != "TOP":
                            problems.append("%s: load() does not get the caller's top" % cfg)
                    for (a_, nfr, st_, ai_, k_) in log["rat"]:
                        if ai_ != "AI":
                            problems.append("%s: read_as_traj does not get the caller's atom_indices" % cfg)
                        if ext not in topo_exts and not (a_ and a_[0] is topo):
                            problems.append("%s: read_as_traj does not get the parsed topology" % cfg)
                    if ext == ".mdcrd" and any(o_.get("n_atoms") != 5 for o_ in log["open"]):
                        problems.append("%s: the mdcrd file is opened without the number of atoms of the topology" % cfg)
        desc = "%s: the chunks are frames skip, skip+stride, ... in pieces of `chunk`; atom_indices / top passed on (%d combinations of chunk, stride, skip)" % (kind, n_cfg)
        if undec and not problems:
            ctx.undecided("C02-R6", fn, TRAJ, "iterload", desc, undec)
        else:
            seen, uniq = set(), []
            for p_ in problems:
                k_ = p_.split(": ", 1)[1][:40]
                if k_ not in seen:
                    seen.add(k_)
                    uniq.append(p_)
            ctx.decide(not problems, "C02-R6", fn, TRAJ, "iterload", desc, "", "; ".join(uniq[:3]))


# ---------------------------------------------------------------------------------------------
def _r12_dcd_reader(ctx):
    """DCDTrajectoryFile.read / seek / tell (Cython, desugared) evaluated on a model DCD file (sa/dcdmodel.py) of 7 frames written by the class's own write():
    sequences of calls return the frames, atoms and cell rows of the definition and leave the read position at the end of the window consumed."""
    from .. import dcdmodel as D, writers as W
    from ..tensym import Ten, Raised
    from ..pysym import Unsupported as PUnsupported
    NF, NA = 7, 4
    rel, cls = F.rel_cls("dcd")
    rfn = F.method(ctx, "dcd", "read")
    q = cls + ".read"
    seqs = [
        ("strided reads continue where the last one stopped", [("read", dict(n_frames=2, stride=2)), ("read", dict(n_frames=1)), ("read", dict(stride=3)), ("read", dict())]),
        ("n_frames counts frames returned", [("read", dict(n_frames=3, stride=3)), ("read", dict())]),
        ("single strided frames (iterload chunk=1)", [("read", dict(n_frames=1, stride=2)), ("read", dict(n_frames=1, stride=2)), ("read", dict(n_frames=1, stride=3)), ("read", dict())]),
        ("atom selection of strided frames", [("read", dict(stride=2, atom_indices=[2, 0]))]),
        ("the remainder read twice with a selection (the loop that reads until nothing comes)", [("read", dict(n_frames=5, atom_indices=[2, 0])), ("read", dict(atom_indices=[2, 0])), ("read", dict(atom_indices=[2, 0]))]),
        ("seek, then read", [("seek", 5), ("read", dict()), ("seek", 1), ("read", dict(n_frames=2, stride=2)), ("tell", None)]),
        ("seek to the end (iterload skip = number of frames), then read", [("seek", 7), ("tell", None), ("read", dict())]),
    ]
    for title, seq in seqs:
        desc = "%s: %s" % (title, ", ".join("%s(%s)" % (m_, ", ".join("%s=%s" % kv for kv in a_.items()) if isinstance(a_, dict) else ("" if a_ is None else a_)) for m_, a_ in seq))
        try:
            x, L, A = Ten.sym("x", (NF, NA, 3)), Ten.sym("L", (NF, 3)), Ten.sym("A", (NF, 3))
            df = D.DcdFile()
            D.call(ctx, df, D.file_object(ctx, df, "w"), "write", assume=W.assume, xyz=x, cell_lengths=L, cell_angles=A)
            me = D.file_object(ctx, df, "r")
            P, why = 0, []
            for m_, a_ in seq:
                if m_ == "seek":
                    D.call(ctx, df, me, "seek", assume=W.assume, offset=a_)
                    P = a_
                    continue
                if m_ == "tell":
                    t_ = ctx_pyval(D.call(ctx, df, me, "tell"))
                    if t_ != P:
                        why.append("tell() is %s after the position has reached frame %d" % (t_, P))
                    continue
                n_, s_ = a_.get("n_frames"), a_.get("stride") or 1
                want = [f_ for f_ in range(P, NF, s_)]
                if n_ is not None:
                    want = want[:n_]
                sel = a_.get("atom_indices")
                atoms = sel if sel is not None else list(range(NA))
                got = D.call(ctx, df, me, "read", assume=W.assume, **a_)
                xyz, cl, ca = got
                exp = [x.data[(f_ * NA + at_) * 3 + k_] for f_ in want for at_ in atoms for k_ in range(3)]
                if not (isinstance(xyz, Ten) and xyz.shape[0] == len(want) and len(xyz.data) == len(exp) and all(_same(p_, q_) for p_, q_ in zip(xyz.data, exp))):
                    first = [repr(xyz.data[i_ * len(atoms) * 3]).split("[")[1].split(",")[0] for i_ in range(xyz.shape[0])] if isinstance(xyz, Ten) and xyz.ndim == 3 and xyz.shape[1:] == (len(atoms), 3) else getattr(xyz, "shape", xyz)
                    why.append("read(%s) at frame %d returns frames %s, the definition is %s" % (", ".join("%s=%s" % kv for kv in a_.items()), P, first, want))
                elif want:
                    for nm, arr, src_ in (("lengths", cl, L), ("angles", ca, A)):
                        expc = [src_.data[f_ * 3 + k_] for f_ in want for k_ in range(3)]
                        if not (isinstance(arr, Ten) and arr.shape[0] == len(want) and all(_same(p_, q_) for p_, q_ in zip(arr.data, expc))):
                            why.append("the cell %s returned are not those of frames %s" % (nm, want))
                P = min(NF, P + (n_ * s_ if n_ is not None else NF))
                if df.fh.setsread != P:
                    why.append("the read position is %s after the read, the window consumed ends at %d" % (df.fh.setsread, P))
                    P = df.fh.setsread
            ctx.decide(not why, "C02-R8", rfn, rel, q, desc, "", "; ".join(why[:2]))
        except Raised as e:
            ctx.violated("C02-R8", rfn, rel, q, desc, "refused: %s" % (e.exc or e))
        except PUnsupported as e:
            ctx.undecided("C02-R8", rfn, rel, q, desc, "not evaluable: %s" % e)
