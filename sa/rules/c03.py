"""C03  Slicing, joining, stacking act like array indexing on all fields.

R1 freshness of constructor arguments at every Trajectory(...) construction site
R2 co-indexing: every per-frame field carried by slice() is subscripted by the same key
R3 every write to the coordinates that bypasses the xyz setter resets the cached traces
R4 join/stack concatenate every per-frame field over the same list, behind the validating raises
R5 analysis / save functions do not mutate their input (effect analysis across .py/.pyx/C prototypes)
"""
from __future__ import annotations

import ast
import re

from ..core import AnalysisError
from ..cfg import CFG
from ..flow import AbsInterp, FRESH, UNKNOWN
from ..pyfront import dotted, call_name, kwarg, params, src, walk_no_nested, const
from .. import effects

EXPLANATION = (
    "Ownership and paired-update analysis of mdtraj/core/trajectory.py: a path-sensitive forward abstract "
    "interpretation (freshness/alias lattice FRESH < ALIAS(root) < UNKNOWN with origin tracking, branch atoms such "
    "as copy / inplace / `x is None`) evaluates every argument of every Trajectory construction site; cache "
    "discipline is a CFG must-pass-through check (mutation of the coordinates -> reset of _rmsd_traces before normal "
    "exit); non-mutation of inputs by analysis/save functions is an inter-procedural effect analysis over .py and "
    ".pyx with const-ness taken from the extern prototypes.")
NOT_DECIDED = ["numerical equality beyond the operations and key shapes evaluated by C03-R7 (join, stack, slice with slice / index-list keys, atom_slice, center_coordinates); boolean-mask keys",
               "exceptional exits (a kernel raising between an in-place update and the cache reset)"]
ASSUMPTIONS = ["numpy semantics of the modelled functions (np.array copies, np.asarray / ensure_type may return the argument, "
               "basic indexing returns a view)", "Topology.subset/join/copy return new objects (C04 decides their content)"]
FLOORS = {"C03-R1": 12, "C03-R2": 5, "C03-R3": 3, "C03-R4": 8, "C03-R5": 40, "C03-R6": 6, "C03-R7": 12}

TRAJ = "mdtraj/core/trajectory.py"
ALL_FIELDS = ["xyz", "topology", "time", "unitcell_lengths", "unitcell_angles"]
PER_FRAME = {"xyz": ("xyz", "_xyz"), "time": ("time", "_time"),
             "unitcell_lengths": ("unitcell_lengths", "_unitcell_lengths"),
             "unitcell_angles": ("unitcell_angles", "_unitcell_angles")}
REQ = {
    "slice": {"assume": {("true", "copy"): True}, "fresh": ALL_FIELDS, "post": ["_rmsd_traces"]},
    "join": {"assume": {}, "fresh": ALL_FIELDS, "post": []},
    "stack": {"assume": {}, "fresh": ["xyz"], "post": []},
    "atom_slice": {"assume": {("true", "inplace"): False}, "fresh": ALL_FIELDS, "post": []},
    "smooth": {"assume": {}, "fresh": ["xyz"], "post": []},
}
XYZ_ROOTS = ("self._xyz", "self.xyz")
R3_NOTES = {
    "image_molecules": "outside the operation set C03 quantifies over (re-imaging); cache left stale after inplace use",
    "make_molecules_whole": "outside the operation set C03 quantifies over (re-imaging); cache left stale after inplace use",
}


def _self_root(d):
    return d == "self" or d.startswith("self.")


def check(ctx):
    ctx.rule("C03-R1", "at every Trajectory(...) construction site the arguments required fresh (slice(copy=True), join, "
                       "atom_slice(inplace=False): all; stack, smooth, others: xyz) evaluate to FRESH in every path world")
    ctx.rule("C03-R2", "in slice(), every per-frame field reaching the new object (xyz, time, unitcell_lengths, "
                       "unitcell_angles, cached traces) originates from self.<field>[key] with the same key")
    ctx.rule("C03-R3", "every method that writes the coordinates without the xyz setter (self._xyz = ..., in-place numpy op "
                       "on an alias, mutating kernel) assigns self._rmsd_traces / self.xyz on every path to normal exit")
    ctx.rule("C03-R4", "join concatenates xyz, time, unitcell_lengths, unitcell_angles over one list, dominated by the "
                       "atom-count and unit-cell-presence raises; stack hstacks (self.xyz, other.xyz) behind the frame-count raise")
    ctx.rule("C03-R6", "a method with an `inplace` parameter returns `self` only on paths where inplace is true")
    from .c05 import flag_identity
    flag_identity(ctx, "C03-R6", [TRAJ], name_filter=lambda q: q.startswith("Trajectory.") and q.count(".") == 1, floor=10)
    r6_inplace_returns(ctx)
    ctx.rule("C03-R7", "join / stack / slice / atom_slice on model trajectories: each array of the result equals the numpy concatenation / indexing of the operands' arrays, element for element")
    r7_values(ctx)
    r7_module_join(ctx)
    r7_traces(ctx)
    ctx.rule("C03-R5", "public analysis and save functions never store into their trajectory argument nor pass an alias of "
                       "its arrays to a parameter that a callee (Python, Cython or C via non-const pointer) writes")
    mod = ctx.py.mod(TRAJ)
    init = ctx.py.func(TRAJ, "Trajectory.__init__")
    init_params = [p for p in params(init) if p != "self"]
    for f in ALL_FIELDS:
        if f not in init_params:
            raise AnalysisError("Trajectory.__init__ no longer has parameter %s" % f)

    methods = mod.methods("Trajectory")
    nsites = 0
    for mname, fn in sorted(methods.items()):
        if mname.endswith((".getter", ".setter", ".deleter")):
            continue
        q = "Trajectory." + mname
        sites = [n for n in walk_no_nested(fn) if isinstance(n, ast.Call) and _is_ctor(n)]
        if not sites:
            continue
        ctx.analysed_functions.add(TRAJ + ":" + q)
        req = REQ.get(mname, {"assume": {}, "fresh": ["xyz"], "post": []})
        cfg = CFG(fn)
        ai = AbsInterp(cfg, _self_root, assume=req["assume"])
        for site in sites:
            nsites += 1
            node = cfg.node_containing(site)
            states = ai.states_at(node)
            if not states:
                ctx.note("C03-R1", site, TRAJ, q, "construction site", "unreachable under %s" % req["assume"])
                continue
            argmap = _argmap(site, init_params)
            for field in ALL_FIELDS:
                e = argmap.get(field)
                if field not in req["fresh"]:
                    continue
                desc = "%s arg of %s" % (field, src(site.func))
                if e is None:
                    ctx.holds("C03-R1", site, TRAJ, q, desc, "not passed (None)")
                    continue
                _decide_fresh(ctx, ai, states, e, site, q, desc)
            # attribute stores on the new object after construction
            tgt = _assigned_name(mod, site)
            for post in req["post"]:
                for n in walk_no_nested(fn):
                    if isinstance(n, ast.Assign) and any(dotted(t) == "%s.%s" % (tgt, post) for t in n.targets):
                        nd = cfg.node_of.get(n)
                        _decide_fresh(ctx, ai, ai.states_at(nd), n.value, n, q, "%s.%s store" % ("new", post))
        # ---- R2 (slice only) -------------------------------------------------------------
        if mname == "slice":
            key = [p for p in params(fn) if p != "self"][0]
            rekeys = [n for n in walk_no_nested(fn) if isinstance(n, (ast.Assign, ast.AugAssign)) and
                      any(dotted(t) == key for t in (n.targets if isinstance(n, ast.Assign) else [n.target]))]
            for n in rekeys:
                v = n.value if isinstance(n, ast.Assign) else None
                ident = isinstance(v, ast.Call) and call_name(v) in ("np.asarray", "np.array", "np.asanyarray") and len(v.args) == 1 \
                    and dotted(v.args[0]) == key and not any(k.arg in ("dtype",) for k in v.keywords)
                ctx.decide(ident, "C03-R2", n, TRAJ, q, "key reaches the subscripts unmodified", "identity-preserving conversion",
                           "`%s` changes the meaning of the key before it is applied (a list of booleans is a mask for numpy but becomes "
                           "the indices 0/1 after dtype coercion): t[key] no longer equals numpy indexing" % src(n))
            if not rekeys:
                ctx.holds("C03-R2", fn, TRAJ, q, "key reaches the subscripts unmodified", "key is never reassigned")
            ai2 = AbsInterp(cfg, _self_root)
            for site in sites:
                node = cfg.node_containing(site)
                argmap = _argmap(site, init_params)
                for field, names in PER_FRAME.items():
                    e = argmap.get(field)
                    _decide_coindex(ctx, ai2, ai2.states_at(node), e, site, q, field, names, key)
                tgt = _assigned_name(mod, site)
                found = False
                for n in walk_no_nested(fn):
                    if isinstance(n, ast.Assign) and any(dotted(t) == "%s._rmsd_traces" % tgt for t in n.targets):
                        found = True
                        nd = cfg.node_of.get(n)
                        _decide_coindex(ctx, ai2, ai2.states_at(nd), n.value, n, q, "_rmsd_traces",
                                        ("_rmsd_traces",), key)
                if not found:
                    # dropping the cache is safe (recomputed); carrying it unindexed is not
                    ctx.holds("C03-R2", site, TRAJ, q, "_rmsd_traces", "cache not carried over (recomputed on demand)")
    if nsites < 5:
        raise AnalysisError("only %d Trajectory construction sites found in %s (5 confirmed by hand)" % (nsites, TRAJ))

    _r3(ctx, mod, methods)
    _r4(ctx, mod)
    effects.check_r5(ctx)


def _is_ctor(call):
    d = call_name(call)
    return d in ("self.__class__", "Trajectory", "cls", "type(self)") or (
        isinstance(call.func, ast.Call) and call_name(call.func) == "type")


def _argmap(call, init_params):
    m = {}
    for i, a in enumerate(call.args):
        if i < len(init_params):
            m[init_params[i]] = a
    for k in call.keywords:
        if k.arg:
            m[k.arg] = k.value
    return m


def _assigned_name(mod, call):
    p = mod.parents.get(call)
    if isinstance(p, ast.Assign) and len(p.targets) == 1 and isinstance(p.targets[0], ast.Name):
        return p.targets[0].id
    return "\0"


EVALUATED_FOR_SHARING = {"Trajectory.slice"}


def _decide_fresh(ctx, ai, states, e, site, q, desc):
    bad, unk = [], []
    for st in states:
        tags, orig = ai.value(e, st)
        al = [t for t in tags if isinstance(t, tuple)]
        if al:
            bad.append((al, st))
        elif UNKNOWN in tags:
            unk.append(orig)
    if bad:
        al, st = bad[0]
        ctx.violated("C03-R1", site, TRAJ, q, desc,
                     "`%s` may share memory with %s (path: %s)" % (src(e), sorted({a[1] for a in al}), _fmt_state(st)))
    elif unk:
        # a value that comes out of a function defined inside the method itself: the lattice does not look into it; for the methods that
        # are also evaluated as a whole (r7_values states the memory-sharing obligations under C03-R1) that evaluation decides
        local_fns = {n.name for n in ast.walk(ai.cfg.fn) if isinstance(n, ast.FunctionDef) and n is not ai.cfg.fn}
        only_local = all(all(o.startswith("call:") and o[5:] in local_fns for o in orig if o.startswith("call:")) and any(o.startswith("call:") for o in orig) for orig in unk)
        if only_local and q in EVALUATED_FOR_SHARING:
            ctx.holds("C03-R1", site, TRAJ, q, desc, "`%s` comes out of the local function %s; memory sharing is decided by the whole-function evaluation (the C03-R1 obligations `slice(.., copy=True): no array shares memory`)" % (src(e), sorted(unk[0])))
        else:
            ctx.undecided("C03-R1", site, TRAJ, q, desc, "`%s` comes from an unmodelled call %s" % (src(e), sorted(unk[0])))
    else:
        ctx.holds("C03-R1", site, TRAJ, q, desc, "FRESH in all %d path worlds" % len(states))


def _decide_coindex(ctx, ai, states, e, site, q, field, names, key):
    desc = "%s co-indexed by %s" % (field, key)
    if e is None:
        ctx.violated("C03-R2", site, TRAJ, q, desc, "field is not carried into the slice")
        return
    pats = ["self.%s[%s]" % (n, key) for n in names]
    bad = None
    for st in states:
        tags, orig = ai.value(e, st)
        for o in orig:
            if o == "const:None":
                continue
            if o not in pats:
                bad = (o, st)
    local_fns = {n.name for n in ast.walk(ai.cfg.fn) if isinstance(n, ast.FunctionDef) and n is not ai.cfg.fn}
    if bad and bad[0].startswith("call:") and bad[0][5:].split("[")[0] in local_fns and q in EVALUATED_FOR_SHARING:
        # the value comes out of a function defined inside the method: what it is, is decided by the whole-function evaluation (C03-R7: every per-frame array = self.<array>[key])
        ctx.holds("C03-R2", site, TRAJ, q, desc, "the value comes out of the local function %s; that it is self.<array>[key] is decided on the values by C03-R7 (a failure is reported there)" % bad[0][5:])
    elif bad:
        ctx.violated("C03-R2", site, TRAJ, q, desc,
                     "value reaching the new object originates from `%s`, not from %s (path: %s)" % (bad[0], " / ".join(pats), _fmt_state(bad[1])))
    else:
        ctx.holds("C03-R2", site, TRAJ, q, desc, "origin is %s or None in all %d path worlds" % (pats[0], len(states)))


def _fmt_state(st):
    f = []
    for k, v in sorted(st.items(), key=str):
        if isinstance(k, tuple) and k[0] == "val":
            continue
        f.append("%s=%s" % ("/".join(str(x) for x in k) if isinstance(k, tuple) else k, v))
    return "{" + ", ".join(f) + "}"


# ---------------------------------------------------------------------------------------------
def _r3(ctx, mod, methods):
    mut_kernels = effects.kernel_mutation_table(ctx)   # {'_rmsd._center_inplace_atom_major': {0}, ...} by simple name
    count = 0
    for mname, fn in sorted(methods.items()):
        if mname.endswith((".getter", ".deleter")) or mname in ("__init__",):
            continue
        if mname == "xyz.setter" or mname == "xyz":
            continue
        q = "Trajectory." + mname
        body_nodes = list(walk_no_nested(fn))
        interesting = any(isinstance(n, ast.Attribute) and n.attr in ("xyz", "_xyz") for n in body_nodes)
        if not interesting:
            continue
        cfg = CFG(fn)
        ai = AbsInterp(cfg, _self_root)

        def aliases_xyz(e, node):
            for st in ai.states_at(node):
                tags, _ = ai.value(e, st)
                for t in tags:
                    if isinstance(t, tuple) and (t[1] in XYZ_ROOTS or t[1].startswith(XYZ_ROOTS[0] + "[") or t[1].startswith(XYZ_ROOTS[1] + "[")):
                        return True
            return False

        resets = set()
        muts = []
        for n in cfg.nodes():
            st = cfg.stmt[n]
            if cfg.kind[n] != "stmt" or st is None:
                continue
            tg = []
            if isinstance(st, ast.Assign):
                tg = st.targets
            elif isinstance(st, ast.AugAssign):
                tg = [st.target]
            for t in tg:
                d = dotted(t)
                if d in ("self._rmsd_traces", "self.xyz"):
                    resets.add(n)
                if d == "self._xyz":
                    muts.append((n, st, "self._xyz = ..."))
                if isinstance(t, ast.Subscript) and aliases_xyz(t.value, n):
                    muts.append((n, st, "%s[...] store" % src(t.value)))
                if isinstance(st, ast.AugAssign) and isinstance(t, ast.Name) and aliases_xyz(t, n):
                    muts.append((n, st, "in-place %s on alias of coordinates" % src(st)[:40]))
            for e in cfg.own_exprs(n):
                for c in ast.walk(e):
                    if isinstance(c, ast.Call):
                        d = call_name(c)
                        if d is None:
                            continue
                        tail = d.split(".")[-1]
                        if tail in mut_kernels:
                            for idx in mut_kernels[tail]:
                                if idx < len(c.args) and aliases_xyz(c.args[idx], n):
                                    muts.append((n, c, "%s(arg %d) writes the coordinates" % (d, idx)))
                        out = kwarg(c, "out")
                        if out is not None and aliases_xyz(out, n):
                            muts.append((n, c, "%s(out=alias of coordinates)" % d))
        for (n, st, what) in muts:
            count += 1
            if n in resets:
                ctx.holds("C03-R3", st, TRAJ, q, what, "same statement assigns the cache / goes through the setter")
                continue
            reach = cfg.reachable(n, removed=resets)
            if cfg.exit in reach:
                if mname in R3_NOTES:
                    ctx.note("C03-R3", st, TRAJ, q, what, R3_NOTES[mname])
                else:
                    ctx.violated("C03-R3", st, TRAJ, q, what,
                                 "a path from this write to the normal exit assigns neither self._rmsd_traces nor self.xyz: "
                                 "rmsd(precentered=True) would use stale traces")
            else:
                ctx.holds("C03-R3", st, TRAJ, q, what, "every path to the normal exit resets the cache")
    # xyz setter itself must reset
    setter = ctx.py.func(TRAJ, "Trajectory.xyz.setter")
    scfg = CFG(setter)
    resets = {n for n in scfg.nodes() if scfg.kind[n] == "stmt" and isinstance(scfg.stmt[n], ast.Assign)
              and any(dotted(t) == "self._rmsd_traces" for t in scfg.stmt[n].targets)
              and isinstance(scfg.stmt[n].value, ast.Constant) and scfg.stmt[n].value.value is None}
    ok = bool(resets) and scfg.exit not in scfg.reachable(scfg.entry, removed=resets)
    ctx.decide(ok, "C03-R3", setter, TRAJ, "Trajectory.xyz.setter", "setter resets cache on every path",
               "every normal exit of the setter passes self._rmsd_traces = None",
               "the xyz setter can return without clearing self._rmsd_traces (e.g. an early return): `t.xyz *= s` mutates the array in place "
               "and then re-assigns the same object, so the cached traces stay stale")


# ---------------------------------------------------------------------------------------------
def _r4(ctx, mod):
    fn = ctx.py.func(TRAJ, "Trajectory.join")
    q = "Trajectory.join"
    cfg = CFG(fn)
    dom = cfg.dominators()
    concats = [n for n in walk_no_nested(fn) if isinstance(n, ast.Call) and call_name(n) in ("np.concatenate", "np.vstack")]
    fields = {}
    iters = set()
    for c in concats:
        if c.args and isinstance(c.args[0], (ast.ListComp, ast.GeneratorExp)):
            lc = c.args[0]
            it = src(lc.generators[0].iter)
            iters.add(it)
            d = dotted(lc.elt)
            tv = lc.generators[0].target.id if isinstance(lc.generators[0].target, ast.Name) else None
            if d and tv and d.startswith(tv + "."):
                fields[d[len(tv) + 1:]] = c
    for f in ("xyz", "time", "unitcell_lengths", "unitcell_angles"):
        ok = f in fields or ("_" + f) in fields
        ctx.decide(ok, "C03-R4", fields.get(f, fn), TRAJ, q, "concatenate %s" % f,
                   "concatenated over %s" % sorted(iters), "per-frame field %s is not concatenated over the joined list" % f)
    ctx.decide(len(iters) == 1, "C03-R4", fn, TRAJ, q, "one list", "all fields iterate %s" % sorted(iters),
               "fields are concatenated over different lists: %s" % sorted(iters))
    # validating raises dominate the first concatenation
    first = None
    for c in concats:
        nd = cfg.node_containing(c)
        if nd is not None and (first is None or c.lineno < first[1].lineno):
            first = (nd, c)
    if first is None:
        raise AnalysisError("no concatenation found in Trajectory.join")
    for what, pat in (("atom count", "n_atoms"), ("unit-cell presence", "_have_unitcell")):
        guards = []
        for n in cfg.nodes():
            st = cfg.stmt[n]
            if cfg.kind[n] == "test" and isinstance(st, ast.If) and pat in src(st.test) and any(isinstance(s, ast.Raise) for s in st.body):
                guards.append(n)
        # the guard sits under `if isinstance(other, list)` whose else raises: it must lie on every path to the concatenation
        ok = bool(guards) and all(first[0] not in cfg.reachable(cfg.entry, removed={g}) for g in guards[:1])
        ctx.decide(ok, "C03-R4", first[1], TRAJ, q, "%s raise dominates concatenation" % what,
                   "every path to np.concatenate passes the %s check" % what,
                   "np.concatenate is reachable without passing the %s check" % what)
    # every per-frame argument of the constructor originates from the concatenation on every path
    # (time: always; unit cell: None only when self has no unit cell)
    init = ctx.py.func(TRAJ, "Trajectory.__init__")
    init_params = [p for p in params(init) if p != "self"]
    ai = AbsInterp(cfg, _self_root)
    for site in [n for n in walk_no_nested(fn) if isinstance(n, ast.Call) and _is_ctor(n)]:
        node = cfg.node_containing(site)
        am = _argmap(site, init_params)
        for field in ("xyz", "time", "unitcell_lengths", "unitcell_angles"):
            e = am.get(field)
            bad = None
            for st in ai.states_at(node):
                tags, orig = ai.value(e, st) if e is not None else (set(), {"const:None"})
                none_ok = field.startswith("unitcell") and st.get(("true", "self._have_unitcell")) is False
                for o in orig:
                    if o == "const:None" and not none_ok:
                        bad = st
                    elif o != "const:None" and not o.startswith("f("):
                        bad = st
            ctx.decide(bad is None, "C03-R4", site, TRAJ, q, "%s of the result is the concatenation on every path" % field, "",
                       "on some path (%s) the joined trajectory's %s is not the concatenation of the inputs' %s (e.g. None -> default "
                       "arange): times assigned to the pieces are lost" % (_fmt_state(bad) if bad else "", field, field))
    # Trajectory.stack: by value in R7 (xyz concatenated atom-wise, other fields from self, another number of frames refused)


def r6_inplace_returns(ctx):
    """Methods with an `inplace` parameter: the receiver itself may be returned only on paths where `inplace` is true."""
    from ..cfg import CFG
    mod = ctx.py.mod(TRAJ)
    n_methods = 0
    for q, fn in sorted(mod.functions.items()):
        if not q.startswith("Trajectory.") or q.count(".") != 1 or "inplace" not in params(fn):
            continue
        n_methods += 1
        cfg = CFG(fn)

        def atom_of(e):
            if isinstance(e, ast.Name) and e.id == "inplace":
                return "inplace"
            if isinstance(e, ast.Compare) and isinstance(e.left, ast.Name) and e.left.id == "inplace" and len(e.ops) == 1 and isinstance(e.comparators[0], ast.Constant):
                v = e.comparators[0].value
                if isinstance(e.ops[0], (ast.Is, ast.Eq)) and v in (True, False):
                    return "inplace" if v else ("~", "inplace")
            return None
        W = cfg.worlds_at(atom_of)
        # names that alias self: `result = self` / `traj = self` under some condition
        rets = [n for n in cfg.nodes() if cfg.kind[n] == "stmt" and isinstance(cfg.stmt[n], ast.Return) and cfg.stmt[n].value is not None]
        n_self = 0
        for r in rets:
            v = cfg.stmt[r].value
            if not (isinstance(v, ast.Name) and v.id == "self"):
                continue
            n_self += 1
            worlds = [dict(w) for w in W[r]]
            ok = bool(worlds) and all(w.get("inplace") is True for w in worlds)
            ctx.decide(ok, "C03-R6", cfg.stmt[r], TRAJ, q, "`return self` only where inplace is true", "",
                       "`return self` at line %d is reachable with inplace false (path facts %s): the caller is handed the input object instead of an independent result, so later edits of the 'copy' change the original"
                       % (cfg.stmt[r].lineno, worlds[:2]))
        if n_self == 0:
            ctx.holds("C03-R6", fn, TRAJ, q, "no `return self`", "the result is built by a callee or is a new object")
    if n_methods < 5:
        raise AnalysisError("only %d Trajectory methods with an `inplace` parameter found" % n_methods)


# ---------------------------------------------------------------------------------------------------
USE_REAL_CLASS = True


def r7_values(ctx):
    """join / stack / slice / atom_slice evaluated on model trajectories (sa/tensym.py): every array of the result is, element for element,
    what numpy indexing / concatenation of the operands' arrays gives; lengths travel with angles; the topology is the copy / join / subset
    the operation calls for.  The constructor is summarised as "keeps what it is given"."""
    from ..tensym import TenSym, Ten, Obj, Unsupported as TUnsupported, ShapeError
    from ..poly import Poly, Rat
    A = 3

    # Trajectory itself is instantiated from its source (constructor, property getters and setters evaluated by sa/tensym.py); what is
    # summarised: ensure_type returns its argument (validation and casts do not change exact values), deepcopy gives a tagged copy
    tmod = ctx.py.mod(TRAJ)
    tcls = next((n for n in tmod.tree.body if isinstance(n, ast.ClassDef) and n.name == "Trajectory"), None)
    if tcls is None:
        raise AnalysisError("class Trajectory not found in %s" % TRAJ)
    base_models = {"ensure_type": lambda ev, call: ev.ex(call.args[0]), "warnings.warn": lambda ev, call: None}

    def real_ctor(xyz, topology, time=None, unitcell_lengths=None, unitcell_angles=None, **extra):
        if extra:
            raise TUnsupported("constructor called with unknown arguments %s" % sorted(extra))
        ev0 = TenSym({}, models=dict(base_models, **models()))
        ev0.classes = {"Trajectory": tcls}
        o = ev0.instantiate("Trajectory", [xyz, topology], {"time": time, "unitcell_lengths": unitcell_lengths, "unitcell_angles": unitcell_angles})
        o._built = True
        o._ctor = real_ctor
        return o

    def ctor(xyz, topology, time=None, unitcell_lengths=None, unitcell_angles=None, **extra):
        if USE_REAL_CLASS:
            return real_ctor(xyz, topology, time=time, unitcell_lengths=unitcell_lengths, unitcell_angles=unitcell_angles, **extra)
        if extra:
            raise TUnsupported("constructor called with unknown arguments %s" % sorted(extra))
        o = Obj(_xyz=xyz, _topology=topology, _time=time, _unitcell_lengths=unitcell_lengths, _unitcell_angles=unitcell_angles, _rmsd_traces=None, _isa=("Trajectory",), _built=True)
        # the public names are properties of the class: reads go to the private fields, the xyz setter drops the cached traces (read off the class, C03-R3)
        o._getters = {"xyz": lambda s_: s_._xyz, "time": lambda s_: s_._time, "topology": lambda s_: s_._topology, "top": lambda s_: s_._topology,
                      "unitcell_lengths": lambda s_: s_._unitcell_lengths, "unitcell_angles": lambda s_: s_._unitcell_angles}

        def set_xyz(s_, v):
            s_._xyz = v
            s_._rmsd_traces = None
        o._setters = {"xyz": set_xyz, "time": lambda s_, v: setattr(s_, "_time", v), "topology": lambda s_, v: setattr(s_, "_topology", v),
                      "unitcell_lengths": lambda s_, v: setattr(s_, "_unitcell_lengths", v), "unitcell_angles": lambda s_, v: setattr(s_, "_unitcell_angles", v)}
        return o

    def traj(name, F, atoms=A, top=None, traces=False, views=False):
        top = top or Obj(tag=name + ".top")
        if not hasattr(top, "join"):
            top.join = lambda other, keep_resSeq=True, _t=top: Obj(tag=("join", _t, other, keep_resSeq), _numAtoms=(_t._numAtoms or 0) + (getattr(other, "_numAtoms", 0) or 0))
            def _subset(idx, _t=top):
                ids = tuple(int(x_.const_value()) if hasattr(x_, "const_value") and x_.const_value() is not None else x_ for x_ in (idx.data if isinstance(idx, Ten) else idx))
                return Obj(tag=("subset", _t, ids), _numAtoms=len(ids))
            top.subset = _subset
        if not hasattr(top, "_numAtoms"):
            top._numAtoms, top.n_atoms = atoms, atoms
        o = ctor(Ten.sym(name + ".x", (F, atoms, 3)), top, Ten.sym(name + ".t", (F,)), Ten.sym(name + ".len", (F, 3)), Ten.sym(name + ".ang", (F, 3)))
        if not USE_REAL_CLASS:
            o.n_frames, o.n_atoms, o._have_unitcell = F, atoms, True
            o._ctor = ctor
        o._rmsd_traces = Ten.sym(name + ".tr", (F,)) if traces else None
        if views:
            # the arrays of the trajectory are themselves views of larger buffers (built from a reshaped table, loaded with a stride ...):
            # numpy collapses chains of views, a slice of them is a view of the outer buffer
            ev_ = TenSym({})
            for f_, shp in (("_xyz", (F + 1, atoms, 3)), ("_time", (F + 1,)), ("_unitcell_lengths", (F + 1, 3)), ("_unitcell_angles", (F + 1, 3)), ("_rmsd_traces", (F + 1,))):
                if getattr(o, f_) is not None:
                    setattr(o, f_, ev_.getitem(Ten.sym(name + ".buffer" + f_, shp), slice(1, None)))
        return o

    def models():
        def deepcopy(ev, call):
            v = ev.ex(call.args[0])
            return Obj(tag=("copy", v), _numAtoms=getattr(v, "_numAtoms", None))

        def construct(ev, call):
            return ctor(*[ev.ex(a) for a in call.args], **{k.arg: ev.ex(k.value) for k in call.keywords})
        return {"deepcopy": deepcopy, "copy.deepcopy": deepcopy, "Trajectory": construct}

    def cat(ev, parts, axis=0):
        import ast as _ast
        node = _ast.parse("np.concatenate(p, axis=%d)" % axis, mode="eval").body
        sub = TenSym({"p": parts})
        return sub.ex(node)

    def fld(o, name):
        g = o.__dict__.get("_getters", {})
        if name in g:
            return g[name](o)
        if name in (o.__dict__.get("_props") or {}) and name not in o.__dict__:
            ev_ = TenSym({"__o": o}, models=dict(base_models, **models()))
            ev_.classes = {"Trajectory": tcls}
            return ev_.ex(ast.parse("__o.%s" % name, mode="eval").body)
        return getattr(o, name)

    def same(ev, got, want):
        if want is None or got is None:
            return None if got is want else "is %r, expected %r" % (got, want)
        try:
            return ev.first_difference(got, want)
        except TUnsupported as e:
            return str(e)

    def report(q, what, problems, fn):
        ctx.decide(not problems, "C03-R7", fn, TRAJ, q, what, "", "; ".join(problems)[:500])

    def run(q, what, build, spec):
        fn = ctx.py.func(TRAJ, q)
        ctx.analysed_functions.add(TRAJ + ":" + q)
        ev = TenSym({}, models=models())
        try:
            me, kwargs = build()
            got = ev.run_fn(fn, self=me, **kwargs)
            report(q, what, spec(ev, me, kwargs, got), fn)
        except ShapeError as e:
            ctx.violated("C03-R7", fn, TRAJ, q, what, "array operations do not fit: %s" % e)
        except TUnsupported as e:
            ctx.undecided("C03-R7", fn, TRAJ, q, what, "not evaluable: %s" % e)

    # ---- join
    def b_join():
        top = Obj(tag="top")
        a, b, c = traj("a", 2, top=top), traj("b", 1, top=top), traj("c", 2, top=top)
        return a, {"other": [b, c]}

    def s_join(ev, me, kw, got):
        ts_ = [me] + kw["other"]
        pr = []
        if not (isinstance(got, Obj) and getattr(got, "_built", False)):
            return ["join does not return a new Trajectory"]
        for field in ("xyz", "time", "unitcell_lengths", "unitcell_angles"):
            d = same(ev, fld(got, field), cat(ev, [fld(t, field) for t in ts_]))
            if d:
                pr.append("%s of the result is not the concatenation of the operands' %s in order (%s)" % (field, field, d))
        tag = getattr(fld(got, 'topology'), "tag", None)
        if not (isinstance(tag, tuple) and tag[0] == "copy" and tag[1] is me._topology):
            pr.append("the topology of the result is not a deep copy of self's")
        return pr
    run("Trajectory.join", "join([b, c]): xyz / time / lengths / angles concatenated frame-wise in order self, b, c; topology a deep copy", b_join, s_join)

    def b_join1():
        top = Obj(tag="top")
        return traj("a", 2, top=top), {"other": traj("b", 2, top=top)}
    run("Trajectory.join", "join(b) with a single trajectory", b_join1, lambda ev, me, kw, got: s_join(ev, me, {"other": [kw["other"]]}, got))

    # ---- stack
    def b_stack():
        return traj("a", 2, atoms=3), {"other": traj("b", 2, atoms=2)}

    def s_stack(ev, me, kw, got):
        o = kw["other"]
        pr = []
        if not (isinstance(got, Obj) and getattr(got, "_built", False)):
            return ["stack does not return a new Trajectory"]
        d = same(ev, fld(got, 'xyz'), cat(ev, [fld(me, 'xyz'), fld(o, 'xyz')], axis=1))
        if d:
            pr.append("xyz is not the atom-wise concatenation of self and other (%s)" % d)
        for field in ("time", "unitcell_lengths", "unitcell_angles"):
            d = same(ev, fld(got, field), fld(me, field))
            if d:
                pr.append("%s of the result is not self's (%s)" % (field, d))
        tag = getattr(fld(got, 'topology'), "tag", None)
        if not (isinstance(tag, tuple) and tag[0] == "join" and tag[1] is fld(me, 'topology') and tag[2] is fld(o, 'topology') and tag[3] is True):
            pr.append("the topology is not self.topology.join(other.topology, keep_resSeq=keep_resSeq)")
        return pr
    run("Trajectory.stack", "stack(b): xyz concatenated atom-wise; time and the whole cell from self; topology = join of the two", b_stack, s_stack)
    # a trajectory with another number of frames is refused (before anything is built)
    fn_s = ctx.py.func(TRAJ, "Trajectory.stack")
    try:
        from ..tensym import Raised as _Raised
        ev_ = TenSym({}, models=models())
        try:
            r_ = ev_.run_fn(fn_s, self=traj("a", 2, atoms=3), other=traj("b", 3, atoms=2))
            ctx.violated("C03-R7", fn_s, TRAJ, "Trajectory.stack", "stack(b) with another number of frames is refused", "a trajectory of 3 frames is stacked onto one of 2 frames: %s is returned" % ("a Trajectory" if isinstance(r_, Obj) else r_))
        except (_Raised, ShapeError) as e_:
            ctx.holds("C03-R7", fn_s, TRAJ, "Trajectory.stack", "stack(b) with another number of frames is refused", str(getattr(e_, "exc", "") or e_)[:60])
    except TUnsupported as e_:
        ctx.undecided("C03-R7", fn_s, TRAJ, "Trajectory.stack", "stack(b) with another number of frames is refused", "not evaluable: %s" % e_)

    # ---- slice
    for key, kdesc, views in ((slice(0, 2), "0:2", False), (slice(None, None, 2), "::2", False), ([2, 0], "[2, 0]", False), (slice(1, 2), "1:2", False),
                              (slice(0, 2), "0:2 of a trajectory whose arrays are views of larger buffers", True), ([2, 0], "[2, 0] of a trajectory whose arrays are views of larger buffers", True)):
        for copy in (True, False):
            def b_slice(key=key, copy=copy, views=views):
                return traj("a", 3, traces=True, views=views), {"key": key, "copy": copy}

            def s_slice(ev, me, kw, got, key=key, copy=copy, kdesc_=kdesc):
                pr = []
                if not (isinstance(got, Obj) and getattr(got, "_built", False)):
                    return ["slice does not return a new Trajectory"]
                for field in ("xyz", "time", "unitcell_lengths", "unitcell_angles", "_rmsd_traces"):
                    want = ev.getitem(fld(me, field), key if not isinstance(key, list) else (key,))
                    d = same(ev, fld(got, field), want)
                    if d:
                        pr.append("%s of the result is not self.%s[key] (%s)" % (field, field, d))
                tag = getattr(fld(got, 'topology'), "tag", None)
                if copy and not (isinstance(tag, tuple) and tag[0] == "copy" and tag[1] is me._topology):
                    pr.append("copy=True: the topology is not a deep copy")
                if not copy and fld(got, 'topology') is not me._topology:
                    pr.append("copy=False: the topology is not shared")
                # memory: with copy=True no array of the result may share memory with the array it was taken from
                if copy:
                    def root(t):
                        d_ = getattr(t, "data", None)
                        return getattr(d_, "root", d_)
                    shared = [f for f in ("xyz", "time", "unitcell_lengths", "unitcell_angles", "_rmsd_traces")
                              if fld(got, f) is not None and (fld(got, f) is fld(me, f) or root(fld(got, f)) is root(fld(me, f)))]
                    ctx.decide(not shared, "C03-R1", ctx.py.func(TRAJ, "Trajectory.slice"), TRAJ, "Trajectory.slice", "slice(%s, copy=True): no array of the result shares memory with self" % kdesc_, "",
                               "%s of the result %s a view of / the same array as self's: an in-place edit of the slice changes the original" % (", ".join(shared), "is" if len(shared) == 1 else "are"))
                return pr
            run("Trajectory.slice", "slice(%s, copy=%s): every per-frame array (incl. cached traces) is self.<array>[key]" % (kdesc, copy), b_slice, s_slice)

    # ---- atom_slice
    def b_aslice():
        return traj("a", 2, atoms=4, traces=True), {"atom_indices": [2, 0]}

    def s_aslice(ev, me, kw, got):
        pr = []
        if not (isinstance(got, Obj) and getattr(got, "_built", False)) or got is me:
            return ["atom_slice(inplace=False) does not return a new Trajectory"]
        d = same(ev, fld(got, 'xyz'), ev.getitem(fld(me, 'xyz'), (slice(None), [2, 0])))
        if d:
            pr.append("xyz is not self.xyz[:, atom_indices] (%s)" % d)
        for field in ("time", "unitcell_lengths", "unitcell_angles"):
            d = same(ev, fld(got, field), fld(me, field))
            if d:
                pr.append("%s is not self's (%s)" % (field, d))
        tag = getattr(fld(got, 'topology'), "tag", None)
        if not (isinstance(tag, tuple) and tag[0] == "subset" and tag[1] is me._topology and tag[2] == (2, 0)):
            pr.append("the topology is not self._topology.subset(atom_indices)")
        if got._rmsd_traces is not None:
            pr.append("cached traces of the full atom set are carried over")
        return pr
    run("Trajectory.atom_slice", "atom_slice([2, 0]): xyz[:, [2, 0]], same times and cell, subset topology, no cached traces", b_aslice, s_aslice)

    def b_aslice_in():
        return traj("a", 2, atoms=4, traces=True), {"atom_indices": [2, 0], "inplace": True}

    def s_aslice_in(ev, me, kw, got):
        pr = []
        if got is not me:
            pr.append("inplace=True does not return self")
        orig = Ten.sym("a.x", (2, 4, 3))
        d = same(ev, me._xyz, ev.getitem(orig, (slice(None), [2, 0])))
        if d:
            pr.append("self._xyz is not the atom subset (%s)" % d)
        if me._rmsd_traces is not None:
            pr.append("the cached traces survive the in-place atom slice")
        tag = getattr(me._topology, "tag", None)
        if not (isinstance(tag, tuple) and tag[0] == "subset"):
            pr.append("the topology is not replaced by its subset")
        return pr
    run("Trajectory.atom_slice", "atom_slice([2, 0], inplace=True): self updated, cached traces dropped, returns self", b_aslice_in, s_aslice_in)


def r7_module_join(ctx):
    """md.join(trajs, check_topology, discard_overlapping_frames) evaluated with the pieces as recorders: whatever way it combines them (pairwise
    reduction, one n-ary call), the pieces end up in the order given and every Trajectory.join it calls receives the caller's two options - each
    under its own name."""
    from ..tensym import TenSym, Obj, Raised
    from ..pysym import Unsupported as PUnsupported
    fn = ctx.py.func(TRAJ, "join")
    for ct, do in ((True, False), (False, True), (True, True)):
        desc = "md.join of three pieces, check_topology=%s, discard_overlapping_frames=%s: the pieces in order, both options passed on under their own names" % (ct, do)
        calls = []

        def piece(parts):
            o = Obj(tag="traj%s" % (parts,), parts=list(parts), _lenient=True)

            def join(other, check_topology=True, discard_overlapping_frames=False, _o=o):
                others = other if isinstance(other, (list, tuple)) else [other]
                calls.append((check_topology, discard_overlapping_frames))
                return piece(_o.parts + [p_ for x_ in others for p_ in x_.parts])
            o.join = join
            return o

        def reduce_(ev, call):
            f_, seq = ev.ex(call.args[0]), list(ev.iterate(ev.ex(call.args[1])))
            acc = seq[0] if len(call.args) < 3 else ev.ex(call.args[2])
            for y in (seq[1:] if len(call.args) < 3 else seq):
                if isinstance(f_, tuple) and f_ and f_[0] == "<lambda>":
                    acc = ev.apply_lambda(f_, [acc, y])
                elif isinstance(f_, tuple) and f_ and f_[0] == "<closure>":
                    # a local function: called with the two values bound to fresh names
                    ev.env["__red_f"], ev.env["__red_a"], ev.env["__red_b"] = f_, acc, y
                    acc = ev.ex(ast.parse("__red_f(__red_a, __red_b)", mode="eval").body)
                else:
                    raise PUnsupported("functools.reduce with something that is neither a lambda nor a local function")
            return acc
        try:
            ts = TenSym({}, models={"functools.reduce": reduce_, "reduce": reduce_})
            got = ts.run_fn(fn, trajs=[piece([0]), piece([1]), piece([2])], check_topology=ct, discard_overlapping_frames=do)
            why = []
            if not (isinstance(got, Obj) and getattr(got, "parts", None) == [0, 1, 2]):
                why.append("the result holds the pieces %s" % (getattr(got, "parts", got),))
            bad = [c_ for c_ in calls if c_ != (ct, do)]
            if bad or not calls:
                why.append("Trajectory.join is called with (check_topology, discard_overlapping_frames) = %s" % (calls,))
            ctx.decide(not why, "C03-R7", fn, TRAJ, "join", desc, "", "; ".join(why))
        except Raised as e:
            ctx.violated("C03-R7", fn, TRAJ, "join", desc, "raises %s" % (e.exc or e))
        except PUnsupported as e:
            ctx.undecided("C03-R7", fn, TRAJ, "join", desc, "not evaluable: %s" % e)


def r7_traces(ctx):
    """The cached traces are the per-frame sums of squares of coordinates centred on the *geometric* centre (that is what rmsd(precentered=True)
    takes them for).  center_coordinates and join are evaluated on model trajectories: whenever the result carries traces they must be those
    sums for its own frames, in frame order, and the frames must be centred on the geometric centre."""
    from ..tensym import TenSym, Ten, Obj, Unsupported as TUnsupported, ShapeError, run_paths
    from ..poly import Poly, Rat
    F_, A_ = 2, 3
    zero = Rat(Poly.const(0))

    def sym(n):
        return Rat(Poly.var(n))

    def build(name, F=F_, traces=None, top=None):
        masses = [sym("m[%d]" % i) for i in range(A_)]
        atoms = [Obj(index=i, element=Obj(mass=masses[i])) for i in range(A_)]
        top = top or Obj(atoms=atoms, n_atoms=A_)
        top.atom = lambda i: atoms[int(i)]
        o = Obj(_xyz=Ten.sym(name + ".x", (F, A_, 3)), _topology=top, _time=Ten.sym(name + ".t", (F,)), _unitcell_lengths=Ten.sym(name + ".len", (F, 3)),
                _unitcell_angles=Ten.sym(name + ".ang", (F, 3)), _rmsd_traces=traces, _isa=("Trajectory",), n_frames=F, n_atoms=A_, _have_unitcell=True)
        o._getters = {"xyz": lambda s_: s_._xyz, "time": lambda s_: s_._time, "topology": lambda s_: s_._topology, "top": lambda s_: s_._topology,
                      "unitcell_lengths": lambda s_: s_._unitcell_lengths, "unitcell_angles": lambda s_: s_._unitcell_angles}

        def set_xyz(s_, v):
            s_._xyz = v
            s_._rmsd_traces = None
        o._setters = {"xyz": set_xyz}
        return o, masses

    def center_model(ev, call):
        x = ev.ex(call.args[0])
        if not isinstance(x, Ten) or x.ndim != 3:
            raise TUnsupported("_center_inplace_atom_major on %r" % (x,))
        F, A, _ = x.shape
        tr = []
        for f in range(F):
            mean = [sum((x.at([f, a, c]) for a in range(A)), zero) / A for c in range(3)]
            tot = zero
            for a in range(A):
                for c in range(3):
                    v = x.at([f, a, c]) - mean[c]
                    ev.setitem(x, (f, a, c), v)
                    tot = tot + v * v
            tr.append(tot)
        return Ten((F,), tr)
    fn = ctx.py.func(TRAJ, "Trajectory.center_coordinates")
    ctx.analysed_functions.add(TRAJ + ":Trajectory.center_coordinates")
    com = ctx.py.func("mdtraj/geometry/distance.py", "compute_center_of_mass")
    for mw in (False, True):
        what = "center_coordinates(mass_weighted=%s): if traces are cached they are sum |r|^2 of frames centred on the geometric centre" % mw
        me, masses = build("a")
        x0 = Ten(me._xyz.shape, me._xyz.data)
        ev = TenSym({}, models={"_rmsd._center_inplace_atom_major": center_model}, funcs={"distance.compute_center_of_mass": com, "compute_center_of_mass": com})
        try:
            got = ev.run_fn(fn, self=me, mass_weighted=mw)
            pr = []
            if got is not me:
                pr.append("does not return self")
            x = me._xyz
            M = sum(masses, zero)
            for f in range(F_):
                for c in range(3):
                    centre = (sum((masses[a] * x0.at([f, a, c]) for a in range(A_)), zero) / M) if mw else (sum((x0.at([f, a, c]) for a in range(A_)), zero) / A_)
                    for a in range(A_):
                        if not ev.equal(x.at([f, a, c]), x0.at([f, a, c]) - centre) and not pr:
                            pr.append("coordinates are not r - %s centre (frame %d atom %d)" % ("mass" if mw else "geometric", f, a))
            tr = me._rmsd_traces
            if tr is not None:
                for f in range(F_):
                    s2 = sum((x.at([f, a, c]) * x.at([f, a, c]) for a in range(A_) for c in range(3)), zero)
                    cen = [sum((x.at([f, a, c]) for a in range(A_)), zero) for c in range(3)]
                    if not ev.equal(ev.to_ten(tr).at([f]), s2):
                        pr.append("cached trace of frame %d is not the sum of squares of its coordinates" % f)
                        break
                    if any(not ev.equal(v, zero) for v in cen):
                        pr.append("traces are cached although the frames are centred on the centre of mass, not on the geometric centre that rmsd(precentered=True) assumes")
                        break
            ctx.decide(not pr, "C03-R7", fn, TRAJ, "Trajectory.center_coordinates", what, "", "; ".join(pr))
        except ShapeError as e:
            ctx.violated("C03-R7", fn, TRAJ, "Trajectory.center_coordinates", what, "array operations do not fit: %s" % e)
        except TUnsupported as e:
            ctx.undecided("C03-R7", fn, TRAJ, "Trajectory.center_coordinates", what, "not evaluable: %s" % e)
    # ---- join of pre-centred pieces, with and without discarding an overlapping frame
    jf = ctx.py.func(TRAJ, "Trajectory.join")

    def ctor(xyz, topology, time=None, unitcell_lengths=None, unitcell_angles=None, **extra):
        o = Obj(_xyz=xyz, _topology=topology, _time=time, _unitcell_lengths=unitcell_lengths, _unitcell_angles=unitcell_angles, _rmsd_traces=None, _isa=("Trajectory",), _built=True)
        o._getters = {"xyz": lambda s_: s_._xyz, "time": lambda s_: s_._time}
        return o

    def frames_of(t, pat):
        import re as _re
        out = []
        t = t if isinstance(t, Ten) else None
        if t is None:
            return None
        per = len(t.data) // t.shape[0] if t.shape[0] else 1
        for f in range(t.shape[0]):
            m = _re.match(pat, repr(t.data[f * per]))
            out.append((m.group(1), int(m.group(2))) if m else None)
        return out
    for discard in (False, True):
        what = "join(b, discard_overlapping_frames=%s) of pre-centred pieces: traces carried over belong to the frames of the result, in order" % discard

        def make():
            top = Obj(tag="top")
            ts_ = []
            for nm in ("a", "b"):
                o, _ = build(nm, traces=Ten.sym(nm + ".tr", (F_,)), top=top)
                o._ctor = ctor

                def getitem(s_, key, nm=nm):
                    ev_ = TenSym({})
                    n = Obj(_xyz=ev_.getitem(s_._xyz, key), _time=ev_.getitem(s_._time, key), _unitcell_lengths=ev_.getitem(s_._unitcell_lengths, key), _unitcell_angles=ev_.getitem(s_._unitcell_angles, key),
                            _rmsd_traces=ev_.getitem(s_._rmsd_traces, key) if s_._rmsd_traces is not None else None, _topology=s_._topology, _isa=("Trajectory",), n_atoms=A_, _have_unitcell=True)
                    n._getters = s_._getters
                    return n
                o._getitem = getitem
                ts_.append(o)

            def deepcopy(ev_, call):
                return Obj(tag=("copy", ev_.ex(call.args[0])))
            ev_ = TenSym({}, models={"deepcopy": deepcopy, "copy.deepcopy": deepcopy})
            return ev_, {"self": ts_[0], "other": ts_[1], "discard_overlapping_frames": discard}
        try:
            pr = []
            for taken, ev_, got in run_paths(make, jf):
                cond = " and ".join(("" if t else "not ") + "(" + c + ")" for c, t in taken)
                if isinstance(got, Exception):
                    raise got
                fx = frames_of(got._xyz, r"^(\w+)\.x\[(\d+),")
                tr = got._rmsd_traces
                if tr is None:
                    continue
                ft = frames_of(ev_.to_ten(tr), r"^(\w+)\.tr\[(\d+)\]")
                if fx != ft:
                    pr.append("%sthe result has the frames %s but carries the traces of %s" % (("when " + cond + ": ") if cond else "", fx, ft))
            ctx.decide(not pr, "C03-R7", jf, TRAJ, "Trajectory.join", what, "", "; ".join(pr)[:400])
        except ShapeError as e:
            ctx.violated("C03-R7", jf, TRAJ, "Trajectory.join", what, "array operations do not fit: %s" % e)
        except TUnsupported as e:
            ctx.undecided("C03-R7", jf, TRAJ, "Trajectory.join", what, "not evaluable: %s" % e)
