"""C04  Topology transformations preserve atoms, residues, chains and bonds.

R1 field preservation in every rebuilder (dependence of add_* arguments on the source entity's fields;
   writer keys = reader keys for serialised carriers, each preserved field needs a slot)
R2 bond endpoints of a rebuilt topology come from an old->new mapping / index lookup on the new topology
R3 fields read by __hash__ (transitively) are compared by __eq__  (equality => equal hash)
R4 tautological comparisons (NOTE)
R5 counters follow lists (_numAtoms/_numResidues updated on every path that edits _atoms/_residues)
R6 no falsy-zero default on preserved integers (`x.resSeq or ...`)
R7 PDB numbering: the serial printed on ATOM and the number used in CONECT follow the same scheme
"""
from __future__ import annotations

import ast

from ..core import AnalysisError
from ..cfg import CFG
from ..flow import Defs, deps
from ..pyfront import dotted, call_name, kwarg, params, src, walk_no_nested, const

EXPLANATION = (
    "Dependence analysis (backward slices through local definitions) of every topology rebuilder: each argument of "
    "add_chain/add_residue/add_atom/add_bond must depend on the corresponding field of the source entity; bond "
    "endpoints must come through an old->new mapping; serialised carriers (HDF5 JSON, data frame) are compared key by "
    "key between writer and reader and against the list of fields the property says are preserved; hash/eq field-set "
    "inclusion is computed transitively through Topology/Chain/Residue/Atom/Bond; counter/list pairing is a CFG "
    "must-pass-through check; the PDB ATOM/CONECT numbering schemes are summarised as affine counters and compared.  In addition the classes Topology, Chain, Residue and Atom are instantiated from their source by the checker's own evaluator (sa/tensym.py) and copy / subset / join / insert_atom / delete_atom_by_index are evaluated on model topologies built through the class's own add_* methods: structure, preserved fields (resSeq 0, serial 0, chain_id None, bond type / order), renumbering, counters, back-pointers and the absence of shared objects are compared with the definition.")
NOT_DECIDED = ["pickle round trip (delegated to Python's pickle over the same classes)",
               "that index renumbering after subset yields contiguous indices (run-time list arithmetic)"]
ASSUMPTIONS = ["Atom objects are usable as dict keys for old->new maps (Atom.__hash__ = index)"]
FLOORS = {"C04-R1": 30, "C04-R2": 5, "C04-R3": 6, "C04-R5": 5, "C04-R6": 3, "C04-R7": 3, "C04-R8": 6, "C04-R9": 8}

TOP = "mdtraj/core/topology.py"
H5 = "mdtraj/formats/hdf5.py"
PDB = "mdtraj/formats/pdb/pdbfile.py"

# what each add_* argument must depend on:  {callee: {param: [accepted source field suffixes]}}
REQUIRED = {
    "add_chain": {"chain_id": ["chain_id"]},
    "add_residue": {"name": ["name", "get_name", "resName"], "resSeq": ["resSeq", "number"], "segment_id": ["segment_id", "segmentID"]},
    "add_atom": {"name": ["name", "get_name"], "element": ["element", "symbol"], "serial": ["serial", "serial_number"]},
    "add_bond": {"type": ["type"], "order": ["order"]},
}
# rebuilders: (file, qualname, exemptions {callee.param: reason})
REBUILDERS = [
    (TOP, "Topology.copy", {}),
    (TOP, "Topology.join", {}),
    (TOP, "_topology_from_subset", {}),
    (PDB, "PDBTrajectoryFile._read_models", {
        "add_bond.type": "PDB CONECT records cannot hold bond type (stated in the property)",
        "add_bond.order": "PDB CONECT records cannot hold bond order (stated in the property)"}),
]


def _sig(ctx, name):
    fn = ctx.py.func(TOP, "Topology." + name)
    return [p for p in params(fn) if p != "self"]


def _arg(call, sig, pname):
    for k in call.keywords:
        if k.arg == pname:
            return k.value
    if pname in sig:
        i = sig.index(pname)
        if i < len(call.args) and not any(isinstance(a, ast.Starred) for a in call.args):
            return call.args[i]
    return None


def check(ctx):
    ctx.rule("C04-R1", "in every rebuilder each add_chain/add_residue/add_atom/add_bond argument depends on the same-named field of the "
                       "source entity; serialised carriers have a slot for, and read back, every preserved field")
    ctx.rule("C04-R2", "atom arguments of add_bond in a rebuilder are looked up in an old->new map or on the new topology, never the source's atoms")
    ctx.rule("C04-R3", "fields read by Topology.__hash__ (through Chain/Residue/Atom/Bond.__hash__) are a subset of the fields compared by Topology.__eq__ "
                       "(positional index fields excepted: containers are compared element-wise in order)")
    ctx.rule("C04-R5", "every path that edits _atoms/_residues updates _numAtoms/_numResidues before normal exit")
    ctx.rule("C04-R6", "a preserved integer (resSeq, serial, order) is never defaulted with `or` (0 is falsy)")
    r3_order_insensitive_hash(ctx)
    ctx.rule("C04-R8", "copy / subset / join / _topology_from_subset never return their input; chains and residues are renumbered after the empty ones were removed")
    r8_fresh_and_renumbered(ctx)
    r9_rebuilders_by_evaluation(ctx)
    ctx.rule("C04-R9", "copy / subset / join evaluated on a model topology built through the class's own add_* methods (the classes Topology, Chain, Residue, Atom are "
                       "instantiated from their source): the result has exactly the chains, residues, atoms and bonds the operation calls for, every preserved field "
                       "(chain_id, name, resSeq incl. 0, segment_id, element, serial incl. 0, bond type and order) carried over, indices renumbered, and shares no object with its input")
    ctx.rule("C04-R7", "the atom number written in CONECT is produced by the same scheme as the serial on ATOM (same use of atom.serial, same counter start and TER increments)")
    sigs = {k: _sig(ctx, k) for k in REQUIRED}

    # ---------------- R1 / R2 / R6 on object rebuilders ------------------------------------------
    for (rel, q, exempt) in REBUILDERS:
        fn = ctx.py.func(rel, q)
        cfg = CFG(fn)
        defs = Defs(cfg)
        seen_kinds = set()
        for n in walk_no_nested(fn):
            if not isinstance(n, ast.Call) or not isinstance(n.func, ast.Attribute):
                continue
            kind = n.func.attr
            if kind not in REQUIRED:
                continue
            seen_kinds.add(kind)
            node = cfg.node_containing(n)
            if kind == "add_bond" and q == "PDBTrajectoryFile._read_models":
                pass
            for pname, fields in REQUIRED[kind].items():
                desc = "%s(%s=)" % (kind, pname)
                key = "%s.%s" % (kind, pname)
                if key in exempt:
                    ctx.note("C04-R1", n, rel, q, desc, "exempt: " + exempt[key])
                    continue
                e = _arg(n, sigs[kind], pname)
                if e is None:
                    ctx.violated("C04-R1", n, rel, q, desc,
                                 "%s is not passed: the rebuilt %s loses its %s" % (pname, kind[4:], pname))
                    continue
                ds = deps(e, node, defs)
                ok = any(d.replace("[*]", "").split(".")[-1] in fields or any(("." + f) in d for f in fields)
                         or any(("'%s'" % f) in d for f in fields) for d in ds)
                # strings such as getattr(residue, "resSeq", None)
                if not ok:
                    for c in ast.walk(e if not isinstance(e, ast.Name) else _def_value(defs, node, e.id) or e):
                        if isinstance(c, ast.Constant) and c.value in fields:
                            ok = True
                ctx.decide(ok, "C04-R1", n, rel, q, desc, "depends on %s" % sorted(ds)[:4],
                           "`%s` does not depend on the source's %s (depends on %s)" % (src(e), "/".join(fields), sorted(ds)[:5]))
            if kind == "add_bond":
                for i in (0, 1):
                    a = n.args[i] if i < len(n.args) else None
                    desc = "add_bond atom%d" % (i + 1)
                    if a is None:
                        ctx.undecided("C04-R2", n, rel, q, desc, "atom argument not positional")
                        continue
                    _decide_endpoint(ctx, a, n, node, defs, rel, q, desc)
        need = {"Topology.copy": {"add_chain", "add_residue", "add_atom", "add_bond"},
                "Topology.join": {"add_chain", "add_residue", "add_atom", "add_bond"},
                "_topology_from_subset": {"add_chain", "add_residue", "add_atom", "add_bond"},
                "PDBTrajectoryFile._read_models": {"add_chain", "add_residue", "add_atom"}}[q]
        if not need <= seen_kinds:
            raise AnalysisError("%s no longer calls %s" % (q, sorted(need - seen_kinds)))
    # R6: rebuilders and the readers of the serialised carriers
    r6 = [(rel, q) for (rel, q, _) in REBUILDERS] + [(H5, "HDF5TrajectoryFile.topology.getter"), (TOP, "Topology.from_dataframe"),
                                                      (TOP, "Topology.to_dataframe"), (H5, "HDF5TrajectoryFile.topology.setter")]
    for (rel, q) in r6:
        fn = ctx.py.func(rel, q)
        if _falsy_zero(ctx, rel, q, fn) == 0:
            ctx.holds("C04-R6", fn, rel, q, "no truth test / `or` default on resSeq/serial/order/element", "")

    _dataframe(ctx)
    r1_bond_type_codec(ctx)
    r1_element_identity(ctx)
    _hdf5(ctx)
    _r3(ctx)
    _r5(ctx)
    _r7(ctx)


PRESERVED_INTS = ("resSeq", "serial", "order", "resseq")


def _falsy_fields(ctx):
    """Preserved fields with a legal falsy value: the integers (0) and, when Element defines __bool__/__len__, the element (virtual sites are falsy)."""
    fields = list(PRESERVED_INTS)
    try:
        m = ctx.py.mod("mdtraj/core/element.py")
        if any(k in m.functions for k in ("Element.__bool__", "Element.__len__")):
            fields.append("element")
    except Exception:
        pass
    return tuple(fields)


def _falsy_zero(ctx, rel, q, fn):
    """`x or d` / `if not x` / `if x` on a value that carries a preserved integer (or element): 0 / the virtual site is a legal value."""
    falsy = _falsy_fields(ctx)
    cfg = CFG(fn)
    defs = Defs(cfg)
    hits = 0
    for n in cfg.nodes():
        for e in cfg.own_exprs(n):
            for c in ast.walk(e):
                cand = None
                if isinstance(c, ast.BoolOp) and isinstance(c.op, ast.Or) and isinstance(c.values[0], (ast.Name, ast.Attribute, ast.Subscript, ast.Call)):
                    cand = c.values[0]
                elif isinstance(c, ast.UnaryOp) and isinstance(c.op, ast.Not) and isinstance(c.operand, (ast.Name, ast.Attribute, ast.Subscript, ast.Call)):
                    cand = c.operand
                elif isinstance(c, ast.IfExp) and isinstance(c.test, (ast.Name, ast.Attribute, ast.Subscript)):
                    cand = c.test
                elif cfg.kind[n] == "test" and c is cfg.stmt[n].test and isinstance(c, (ast.Name, ast.Attribute, ast.Subscript)):
                    cand = c
                if cand is None:
                    continue
                ds = deps(cand, n, defs)
                txt = " ".join(sorted(ds)) + " " + src(cand)
                # string keys such as residue_dict.get("resSeq") / atom["serial"]
                for k in ast.walk(cand):
                    if isinstance(k, ast.Constant) and isinstance(k.value, str):
                        txt += " " + k.value
                if isinstance(cand, ast.Name):
                    for df in defs.reaching(n, cand.id):
                        if df.value is not None:
                            for k in ast.walk(df.value):
                                if isinstance(k, ast.Constant) and isinstance(k.value, str):
                                    txt += " " + k.value
                import re as _re
                toks = set(_re.split(r"[^A-Za-z0-9_]+", txt))
                if any(f in toks for f in falsy):
                    hits += 1
                    ctx.violated("C04-R6", c, rel, q, "`%s`" % src(c)[:60],
                                 "truth-testing a preserved field that has a legal falsy value (integer 0, the virtual-site element whose __bool__ is False): that value is silently replaced / dropped")
    return hits


def _def_value(defs, node, name):
    rd = [d for d in defs.reaching(node, name) if d.value is not None and d.kind == "assign"]
    return rd[0].value if len(rd) == 1 else None


def _decide_endpoint(ctx, a, call, node, defs, rel, q, desc, _depth=0):
    if isinstance(a, ast.Name) and _depth < 3:
        # a local that holds the looked-up atom: new_first = atom_mapping[a1]
        v = _def_value(defs, node, a.id)
        if isinstance(v, (ast.Subscript, ast.Call)):
            return _decide_endpoint(ctx, v, call, node, defs, rel, q, desc, _depth + 1)
    if isinstance(a, ast.Subscript):
        base = dotted(a.value) or src(a.value)
        ctx.holds("C04-R2", call, rel, q, desc, "looked up in `%s`" % base)
        return
    if isinstance(a, ast.Call) and isinstance(a.func, ast.Attribute) and a.func.attr in ("atom", "atoms"):
        ctx.holds("C04-R2", call, rel, q, desc, "index lookup %s" % src(a))
        return
    ds = deps(a, node, defs)
    src_atoms = [d for d in ds if ".bonds" in d or d.endswith("bonds[*]") or "bondsiter" in d]
    if src_atoms:
        ctx.violated("C04-R2", call, rel, q, desc,
                     "`%s` is the *source* topology's atom (from %s): the new bond points into the old topology" % (src(a), src_atoms[0]))
    else:
        # e.g. tuple elements of a list built from mapped atoms
        mapped = any("[" in d or "atomByNumber" in d or "mapping" in d for d in ds)
        ctx.decide(mapped, "C04-R2", call, rel, q, desc, "derives from %s" % sorted(ds)[:3],
                   "`%s` does not come from an old->new mapping (%s)" % (src(a), sorted(ds)[:3]))


# -------------------------------------------------------------------------------------------------
PRESERVED = {"chain": ["chain_id"], "residue": ["name", "resSeq", "segment_id"], "atom": ["name", "element", "serial"]}


def _dataframe(ctx):
    q = "Topology.to_dataframe"
    fn = ctx.py.func(TOP, q)
    # the tuple of per-atom values and the columns list
    tup = None
    cols = None
    for n in walk_no_nested(fn):
        if isinstance(n, ast.Call) and call_name(n) in ("pd.DataFrame", "DataFrame"):
            c = kwarg(n, "columns", 1)
            if isinstance(c, ast.Name):
                from ..pyfront import local_defs as _ld
                ds_ = _ld(fn).get(c.id, [])
                c = ds_[0] if len(ds_) == 1 and ds_[0] is not None else c
            cols = const(c) if c is not None else None
    # the per-atom row: the tuple with one element per column - the element of a comprehension over the atoms, or built in a loop and appended
    cands = [n for n in walk_no_nested(fn) if isinstance(n, ast.Tuple) and cols is not None and len(n.elts) == len(cols) and any(isinstance(x, ast.Attribute) for e in n.elts for x in ast.walk(e))
             and not all(isinstance(e, ast.Constant) for e in n.elts)]
    tup = cands[0] if len(cands) == 1 else None
    if tup is None or cols is None or len(tup.elts) != len(cols):
        ctx.undecided("C04-R1", fn, TOP, q, "columns", "cannot pair the per-atom tuple with the columns list")
        return
    from ..pyfront import inline_locals
    written = {c: inline_locals(fn, e) for c, e in zip(cols, tup.elts)}
    fq = "Topology.from_dataframe"
    ffn = ctx.py.func(TOP, fq)
    read = set()
    for n in walk_no_nested(ffn):
        if isinstance(n, ast.Subscript) and dotted(n.value) == "atom":
            k = const(n.slice)
            if isinstance(k, str):
                read.add(k)
    for k in sorted(read):
        ctx.decide(k in written, "C04-R1", ffn, TOP, fq, "reads column %r" % k, "written by to_dataframe as %s" % written.get(k),
                   "from_dataframe reads column %r which to_dataframe does not write" % k)
    want = {"atom.serial": "serial", "atom.name": "name", "atom.element": "element", "residue.resSeq": "resSeq",
            "residue.name": "resName", "residue.segment_id": "segment", "chain.chain_id": "chain_id"}
    for field, hint in want.items():
        ent, f = field.split(".")
        col = [c for c, e in written.items() if e.endswith("." + f) or ("." + f + ".") in e or (f == "segment_id" and "segment_id" in e)]
        desc = "data frame slot for %s" % field
        if not col:
            ctx.violated("C04-R1", fn, TOP, q, desc, "no column carries %s: it is lost by to_dataframe/from_dataframe" % field)
        else:
            ctx.decide(col[0] in read, "C04-R1", fn, TOP, q, desc, "column %r written and read back" % col[0],
                       "column %r is written but never read by from_dataframe" % col[0])
    # bonds: 4 columns written, 4 read
    bw = [n for n in walk_no_nested(fn) if isinstance(n, ast.Assign) and isinstance(n.targets[0], ast.Subscript)
          and dotted(n.targets[0].value) == "bonds" and isinstance(n.value, ast.Tuple)]
    if bw:
        elts = [src(e) for e in bw[0].value.elts]
        ok = len(elts) == 4 and "atom1.index" in elts[0] and "atom2.index" in elts[1] and "type" in elts[2] and "order" in elts[3]
        ctx.decide(ok, "C04-R1", bw[0], TOP, q, "bond row (i, j, type, order)", str(elts), "bond row is %s" % elts)
        idx = set()
        for n in walk_no_nested(ffn):
            if isinstance(n, ast.Subscript) and dotted(n.value) == "bond":
                k = const(n.slice)
                if isinstance(k, int):
                    idx.add(k)
        ctx.decide(idx == {0, 1, 2, 3}, "C04-R1", ffn, TOP, fq, "bond columns read", "0..3", "from_dataframe reads bond columns %s" % sorted(idx))
    # grouping: a new chain forces a new residue; residues split on resSeq and resName; chains split on chainID
    mod = None
    for n in walk_no_nested(ffn):
        if isinstance(n, ast.If):
            body_calls = [call_name(c) or "" for st in n.body for c in ast.walk(st) if isinstance(c, ast.Call)]
            t = src(n.test)
            if any(b.endswith(".add_residue") for b in body_calls):
                ok = "resSeq" in t and "resName" in t and ("n_atoms == 0" in t or "chainID" in t or "n_residues == 0" in t)
                ctx.decide(ok, "C04-R1", n, TOP, fq, "new residue on resSeq / resName / new chain", t[:80],
                           "the residue-boundary test `%s` does not start a new residue when a new chain starts (or ignores resSeq/resName): "
                           "atoms of the next chain are appended to the previous chain's residue" % t[:100])
            if any(b.endswith(".add_chain") for b in body_calls):
                ctx.decide("chainID" in t, "C04-R1", n, TOP, fq, "new chain on chainID change", t[:60], "chains are not split on the chainID column")
    # from_dataframe bonds re-pointed through out.atom(i)
    cfg = CFG(ffn)
    defs = Defs(cfg)
    for n in walk_no_nested(ffn):
        if isinstance(n, ast.Call) and isinstance(n.func, ast.Attribute) and n.func.attr == "add_bond":
            for i in (0, 1):
                _decide_endpoint(ctx, n.args[i], n, cfg.node_containing(n), defs, TOP, fq, "add_bond atom%d" % (i + 1))


def _hdf5(ctx):
    """The HDF5 topology node: the setter is evaluated (sa/tensym.py) on the model topology up to json.dumps, the getter on what the setter
    produced (json.loads returns that very structure), with Topology / Chain / Residue / Atom instantiated from their source; the topology
    that comes back is compared with the one that went in, field by field of the list the property says is preserved."""
    from ..tensym import Obj, Raised
    from ..pysym import Unsupported as PUnsupported
    import copy as _copy
    sq = "HDF5TrajectoryFile.topology.setter"
    gq = "HDF5TrajectoryFile.topology.getter"
    sfn = ctx.py.func(H5, sq)
    gfn = ctx.py.func(H5, gq)
    W = _TopWorld(ctx)
    h5funcs = {q: f for q, f in ctx.py.mod(H5).functions.items() if "." not in q}

    class _Captured(Exception):
        pass
    cap = {}

    def dumps(ev, call):
        cap["doc"] = ev.ex(call.args[0])
        raise _Captured()
    ts = W.evaluator(models={"json.dumps": dumps, "_check_mode": lambda ev, c: None})
    ts.funcs = dict(W.funcs, **h5funcs)
    top = W.build(ts)
    me = Obj(mode="w", _lenient=True, tables=Obj(NoSuchNodeError="NoSuchNodeError"), _remove_node=lambda **k: None)
    try:
        try:
            ts.run_fn(sfn, self=me, topology_object=top)
            ctx.undecided("C04-R1", sfn, H5, sq, "JSON document", "the setter finishes without calling json.dumps")
            return
        except _Captured:
            pass
    except Raised as e:
        ctx.violated("C04-R1", sfn, H5, sq, "JSON document", "the setter raises %s on the model topology" % (e.exc or e))
        return
    except PUnsupported as e:
        ctx.undecided("C04-R1", sfn, H5, sq, "JSON document", "setter not evaluable: %s" % e)
        return
    doc = cap["doc"]

    def jsonable(x):
        return isinstance(x, (str, int, bool, type(None))) or (isinstance(x, (list, tuple)) and all(jsonable(y) for y in x)) or (isinstance(x, dict) and all(isinstance(k, str) and jsonable(v) for k, v in x.items()))
    ctx.decide(jsonable(doc), "C04-R1", sfn, H5, sq, "the document handed to json.dumps holds only strings, integers, lists and dicts", "", "the document contains values json cannot carry (model objects / arrays)")
    by_symbol = {e_.symbol: e_ for e_ in W.EL.values()}

    def get_by_symbol(ev, call):
        sym = ev.pyval(ev.ex(call.args[0]))
        if sym not in by_symbol:
            raise Raised("KeyError", "KeyError(%r)" % (sym,))
        return by_symbol[sym]

    def itemgetter(ev, call):
        k_ = ev.pyval(ev.ex(call.args[0]))
        return ("<lambda>", ast.parse("lambda d: d[%r]" % (k_,), mode="eval").body, ev)
    tg = W.evaluator(models={"json.loads": lambda ev, c: _copy.deepcopy(doc), "elem.get_by_symbol": get_by_symbol, "operator.itemgetter": itemgetter})
    tg.funcs = dict(W.funcs, **h5funcs)
    from .c12 import _module_constants
    modstate = {k_: v_ for k_, v_ in _module_constants(ctx, H5).items() if isinstance(v_, (dict, list, set, int, float, str))}      # module-level state the getter may keep (a cache ...)
    tg.module_env = dict(getattr(tg, "module_env", None) or {}, **modstate)
    reader = Obj(mode="r", _lenient=True, tables=Obj(NoSuchNodeError="NoSuchNodeError"), _get_node=lambda *a, **k: ["RAW"])
    try:
        back = tg.run_fn(gfn, self=reader)
        # a second reader of the same stored document, in the same process
        tg2 = W.evaluator(models=dict(tg.models))
        tg2.funcs = dict(tg.funcs)
        tg2.module_env = tg.module_env
        back2 = tg2.run_fn(gfn, self=Obj(mode="r", _lenient=True, tables=Obj(NoSuchNodeError="NoSuchNodeError"), _get_node=lambda *a, **k: ["RAW"]))
        if isinstance(back, Obj) and isinstance(back2, Obj):
            def objs(t_):
                return [t_] + list(getattr(t_, "_chains", [])) + list(getattr(t_, "_residues", [])) + list(getattr(t_, "_atoms", [])) + list(getattr(t_, "_bonds", []))
            shared = [o_ for o_ in objs(back2) if any(o_ is x_ for x_ in objs(back))]
            ctx.decide(not shared, "C04-R1", gfn, H5, gq, "two reads of the same stored topology give independent objects", "",
                       "the second read returns %s of the first (%d shared objects): editing one loaded topology edits the other, and later loads of the untouched file return the edited one"
                       % ("the very Topology object" if back2 is back else "parts", len(shared)))
    except Raised as e:
        ctx.violated("C04-R1", gfn, H5, gq, "the getter rebuilds a topology from what the setter wrote", "the getter raises %s on the setter's own document (a key it reads is not written)" % (e.exc or e))
        return
    except PUnsupported as e:
        ctx.undecided("C04-R1", gfn, H5, gq, "the getter rebuilds a topology from what the setter wrote", "getter not evaluable: %s" % e)
        return
    if not (isinstance(back, Obj) and "Topology" in getattr(back, "_isa", ())):
        ctx.violated("C04-R1", gfn, H5, gq, "the getter rebuilds a topology from what the setter wrote", "the getter returns %r" % (back,))
        return
    same_shape = [len(c._residues) for c in back._chains] == [len(c._residues) for c in top._chains] and \
        [len(r._atoms) for r in back._residues] == [len(r._atoms) for r in top._residues] and len(back._atoms) == len(top._atoms)
    ctx.decide(same_shape, "C04-R1", gfn, H5, gq, "same chains / residues / atoms in the same order after save + load", "",
               "structure %s instead of %s" % ([[len(r._atoms) for r in c._residues] for c in back._chains], [[len(r._atoms) for r in c._residues] for c in top._chains]))
    if same_shape:
        ents = {"chain": (top._chains, back._chains), "residue": (top._residues, back._residues), "atom": (top._atoms, back._atoms)}
        for lvl, fields in PRESERVED.items():
            for f in fields:
                a_, b_ = ents[lvl]
                diff = [(getattr(x, f), getattr(y, f, None)) for x, y in zip(a_, b_) if not (getattr(x, f) is getattr(y, f, None) or getattr(x, f) == getattr(y, f, None))]
                desc = "HDF5 JSON slot for %s.%s" % (lvl, f)
                show = lambda v: getattr(v, "tag", v)      # noqa: E731
                ctx.decide(not diff, "C04-R1", sfn, H5, sq, desc, "comes back unchanged for every %s of the model topology" % lvl,
                           "%s.%s does not survive save + load through the HDF5 topology node: %r comes back as %r" % (lvl, f, show(diff[0][0]) if diff else None, show(diff[0][1]) if diff else None))
        bo = sorted((b.atom1.index, b.atom2.index) for b in top._bonds)
        bb = sorted((b.atom1.index, b.atom2.index) for b in back._bonds)
        ctx.decide(bo == bb and all(b.atom1 is back._atoms[b.atom1.index] and b.atom2 is back._atoms[b.atom2.index] for b in back._bonds), "C04-R1", gfn, H5, gq,
                   "bonds come back as the same index pairs, pointing into the new topology's atoms", "", "bonds %s come back as %s" % (bo, bb))
        for b in back._bonds[:1]:
            ctx.note("C04-R1", gfn, H5, gq, "add_bond(type=, order=)", "the HDF5 topology JSON stores bonds as index pairs only (carrier limitation named in the property)")


# -------------------------------------------------------------------------------------------------
ELEM_CLASS = {"_chains": "Chain", "_atoms": "Atom", "_bonds": "Bond", "_residues": "Residue"}


def _hash_fields(ctx, cls, seen=None):
    seen = seen or set()
    if cls in seen:
        return set()
    seen.add(cls)
    fn = ctx.py.func(TOP, cls + ".__hash__")
    out = set()
    for n in walk_no_nested(fn):
        if isinstance(n, ast.Attribute) and isinstance(n.value, ast.Name) and n.value.id == "self":
            if n.attr in ELEM_CLASS:
                out |= _hash_fields(ctx, ELEM_CLASS[n.attr], seen)
            else:
                out.add("%s.%s" % (cls, n.attr))
        if isinstance(n, ast.Subscript) and isinstance(n.value, ast.Name) and n.value.id == "self" and cls == "Bond":
            out |= {"Bond.atom." + f.split(".")[1] for f in _hash_fields(ctx, "Atom", set(seen) - {"Atom"})}
    return out


def _r3(ctx):
    hf = _hash_fields(ctx, "Topology")
    eq = ctx.py.func(TOP, "Topology.__eq__")
    cmp_fields = set()
    var_cls = {"c": "Chain", "r": "Residue", "a": "Atom"}
    for n in walk_no_nested(eq):
        if isinstance(n, ast.Compare) and len(n.comparators) == 1:
            l, r = n.left, n.comparators[0]
            for x, y in ((l, r),):
                dx, dy = dotted(x), dotted(y)
                if dx and dy and "." in dx and "." in dy:
                    bx, fx = dx.split(".", 1)
                    by, fy = dy.split(".", 1)
                    if fx == fy and bx != by and bx[:-1] == by[:-1] and bx[0] in var_cls:
                        cmp_fields.add("%s.%s" % (var_cls[bx[0]], fx.split(".")[0]))
                    elif fx == fy and bx == by:
                        ctx.note("C04-R4", n, TOP, "Topology.__eq__", "`%s`" % src(n),
                                 "tautological comparison (both operands are the same object); harmless here because "
                                 "residue indices are positions in containers compared element-wise")
    # bonds compared through Bond.__eq__ -> _equality_tuple
    et = ctx.py.func(TOP, "Bond._equality_tuple")
    txt = src(et)
    if "self[0].index" in txt and "self[1].index" in txt:
        cmp_fields.add("Bond.atom.index")
    if "self.type" in txt:
        cmp_fields.add("Bond.type")
    if "self.order" in txt:
        cmp_fields.add("Bond.order")
    uses_bond_eq = any(isinstance(n, ast.Compare) and "bond" in src(n) for n in walk_no_nested(eq))
    if not uses_bond_eq:
        cmp_fields -= {"Bond.atom.index", "Bond.type", "Bond.order"}
    if len(hf) < 6:
        raise AnalysisError("hash field extraction found only %s" % sorted(hf))
    for f in sorted(hf):
        desc = "hash reads %s" % f
        if f.endswith(".index"):
            ctx.holds("C04-R3", eq, TOP, "Topology.__eq__", desc,
                      "positional: equal container lengths (compared) imply equal indices" + (
                          "; also compared" if f in cmp_fields else ""))
        else:
            ctx.decide(f in cmp_fields, "C04-R3", eq, TOP, "Topology.__eq__", desc, "compared by __eq__",
                       "%s takes part in Topology.__hash__ but is ignored by Topology.__eq__: equal topologies can hash differently" % f)


# -------------------------------------------------------------------------------------------------
def _r5(ctx):
    m = ctx.py.mod(TOP)
    pairs = {"_atoms": "_numAtoms", "_residues": "_numResidues"}
    for mname in ("add_atom", "insert_atom", "delete_atom_by_index", "add_residue"):
        q = "Topology." + mname
        fn = ctx.py.func(TOP, q)
        cfg = CFG(fn)
        for lst, cnt in pairs.items():
            edits = []
            updates = set()
            for n in cfg.nodes():
                st = cfg.stmt[n]
                if cfg.kind[n] != "stmt" or st is None:
                    continue
                for c in ast.walk(st):
                    if isinstance(c, ast.Call) and isinstance(c.func, ast.Attribute) and c.func.attr in ("append", "insert", "remove", "pop", "extend") \
                            and dotted(c.func.value) == "self." + lst:
                        edits.append((n, c))
                if isinstance(st, (ast.AugAssign, ast.Assign)):
                    tg = [st.target] if isinstance(st, ast.AugAssign) else st.targets
                    if any(dotted(t) == "self." + cnt for t in tg):
                        updates.add(n)
                        if isinstance(st, ast.AugAssign):
                            sign = "+" if isinstance(st.op, ast.Add) else "-"
            for (n, c) in edits:
                desc = "self.%s.%s -> self.%s" % (lst, c.func.attr, cnt)
                # the update may precede or follow the edit; every entry->exit path through the edit must contain an update
                before = any(cfg.dominates(u, n) for u in updates)
                after = cfg.exit not in cfg.reachable(n, removed=updates)
                ok = before or after
                if ok:
                    want = "-" if c.func.attr in ("remove", "pop") else "+"
                    ups = [cfg.stmt[u] for u in updates if isinstance(cfg.stmt[u], ast.AugAssign)]
                    dirs = {("+" if isinstance(u.op, ast.Add) else "-") for u in ups}
                    if dirs and dirs != {want}:
                        ok = False
                ctx.decide(ok, "C04-R5", c, TOP, q, desc, "counter updated on every path, in the right direction",
                           "self.%s is edited but self.%s is not updated (or in the wrong direction) on some path" % (lst, cnt))
    # insert_atom / delete_atom_by_index evaluated (sa/tensym.py) on a topology of 5 atoms in one residue, at the first, a middle and the last
    # position: afterwards the k-th atom of the list carries index k, the counter is the length of the list, and the residue's list follows.
    # How the renumbering is written (index loop, slice loop, comprehension) does not matter.
    from ..tensym import TenSym, Obj
    from ..pysym import Unsupported

    def world(n=5):
        res = Obj(tag="res", _atoms=[])
        atoms = [Obj(tag="atom%d" % k, index=k, residue=res) for k in range(n)]
        res._atoms = list(atoms)
        return Obj(tag="top", _atoms=list(atoms), _numAtoms=n), res, atoms

    def mk_atom(ev, call):
        args = [ev.ex(x) for x in call.args]
        return Obj(tag="new", name=args[0], element=args[1], index=args[2], residue=args[3])

    def as_int(v):
        c = v.const_value() if hasattr(v, "const_value") else v
        return int(c) if c is not None and c == int(c) else None
    for mname, positions in (("insert_atom", (0, 2, 5, None)), ("delete_atom_by_index", (0, 2, 4))):
        q = "Topology." + mname
        fn = ctx.py.func(TOP, q)
        for pos in positions:
            top, res, atoms = world()
            desc = "%s at position %s of 5 atoms: atom k carries index k afterwards" % (mname, "end (index=None)" if pos is None else pos)
            ts = TenSym(models={"Atom": mk_atom})
            try:
                if mname == "insert_atom":
                    ts.run_fn(fn, self=top, name="X", element=Obj(tag="el"), residue=res, index=pos)
                else:
                    ts.run_fn(fn, self=top, index=pos)
            except Unsupported as e:
                ctx.undecided("C04-R5", fn, TOP, q, desc, "not evaluable: %s" % e)
                continue
            idx = [as_int(a_.index) for a_ in top._atoms]
            want_n = 6 if mname == "insert_atom" else 4
            why = None
            if idx != list(range(len(top._atoms))):
                why = "the atoms carry the indices %s" % idx
            elif len(top._atoms) != want_n or as_int(top._numAtoms) != want_n:
                why = "%d atoms in the list, counter %s" % (len(top._atoms), top._numAtoms)
            elif len(res._atoms) != want_n:
                why = "the residue lists %d atoms, the topology %d" % (len(res._atoms), want_n)
            elif mname == "delete_atom_by_index" and any(x is atoms[pos] for x in top._atoms):
                why = "the atom removed is not the one at the requested position"
            ctx.decide(why is None, "C04-R5", fn, TOP, q, desc, "indices 0..%d, counter %d" % (want_n - 1, want_n), why or "")


# -------------------------------------------------------------------------------------------------
def _counter_scheme(fn, counter, assigned_pred):
    """Summarise a running counter in a loop nest:
    init constant, per-atom increments (after/before use), increments conditional on `ter`."""
    init = None
    incs = []
    for n in walk_no_nested(fn):
        if isinstance(n, ast.Assign) and any(dotted(t) == counter for t in n.targets):
            c = const(n.value)
            if isinstance(c, int) and init is None:
                init = c
    parents = {}
    for p in ast.walk(fn):
        for ch in ast.iter_child_nodes(p):
            parents[ch] = p

    def context(n):
        conds = []
        loops = 0
        x = n
        while x in parents and parents[x] is not fn:
            p = parents[x]
            if isinstance(p, ast.If) and x in p.body:
                conds.append(src(p.test))
            if isinstance(p, ast.For):
                loops += 1
            x = p
        return conds, loops

    for n in walk_no_nested(fn):
        if isinstance(n, ast.AugAssign) and dotted(n.target) == counter and isinstance(n.op, ast.Add) and const(n.value) == 1:
            conds, loops = context(n)
            incs.append((tuple(conds), loops, n.lineno))
    return init, incs


def _r7(ctx):
    """PDBTrajectoryFile.write followed by _write_footer evaluated (sa/tensym.py, sa/writers.py) on model topologies with bonds that go to CONECT records
    (non-standard residues), the printed lines recorded.  By value: the number a CONECT record uses for an atom is the serial printed on that atom's
    ATOM line, for one chain with its own serials and for several chains - among them a chain whose only residue has lost its atoms and a chain
    without residues, which shift the TER numbering - with and without TER records; the CONECT pairs are exactly the bonds."""
    from .. import writers as W
    from ..tensym import Ten, Raised
    from ..ttext import TText
    from ..pysym import Unsupported as PUnsupported
    wq, fq = "PDBTrajectoryFile.write", "PDBTrajectoryFile._write_footer"
    f = ctx.py.func(PDB, fq)
    lig = lambda n_, k_: ("LIG", n_, [("C%d" % i_, "C") for i_ in range(k_)])
    worlds = [
        ("one chain, serials 10 20 35 40", [("A", [lig(1, 2), ("ALA", 2, [("CA", "C")]), lig(3, 1)])], [10, 20, 35, 40], [(0, 1), (1, 3)]),
        ("one chain, one atom without a serial (inserted after loading)", [("A", [lig(1, 2), lig(2, 2)])], [10, None, 35, 40], [(0, 1), (1, 2), (2, 3)]),
        ("one chain, no serials", [("A", [lig(1, 2), lig(2, 2)])], None, [(0, 1), (2, 3), (1, 2)]),
        ("three chains", [("A", [lig(1, 2), ("ALA", 2, [("CA", "C")])]), ("B", [lig(3, 2)]), ("C", [lig(4, 2)])], [7, 8, 9, 10, 11, 12, 13], [(0, 1), (3, 4), (5, 6), (1, 5)]),
        ("a chain whose residue has no atoms, between two others", [("A", [lig(1, 2)]), ("B", [("NA", 2, [])]), ("C", [lig(3, 2)])], None, [(0, 1), (2, 3), (1, 3)]),
        ("a chain without residues, between two others", [("A", [lig(1, 2)]), ("B", []), ("C", [lig(3, 2)])], None, [(0, 1), (2, 3), (0, 2)]),
        ("more than four bonds on one atom", [("A", [lig(1, 7)])], None, [(0, k_) for k_ in range(1, 7)]),
    ]
    for title, spec, serials, bonds in worlds:
        for ter in (True, False):
            desc = "%s, ter=%s: CONECT numbers are the serials on the ATOM lines; the pairs are the bonds" % (title, ter)
            try:
                top = W.pdb_topology(spec, serials=serials)
                at = top.atoms
                top.bonds = [(at[i_], at[j_]) for i_, j_ in bonds]
                top._bonds = top.bonds
                top.n_bonds = len(bonds)
                lines, me = W.pdb_written(ctx, top, [Ten.sym("x", (len(at), 3))], W.new_root(), ter=ter, footer=True)
            except Raised as e:
                ctx.violated("C04-R7", f, PDB, fq, desc, "refused: %s" % (e.exc or e))
                continue
            except PUnsupported as e:
                ctx.undecided("C04-R7", f, PDB, fq, desc, "not evaluable: %s" % e)
                continue
            ser = []
            try:
                for l_ in lines:
                    if (l_.startswith("ATOM") or l_.startswith("HETATM")):
                        t_ = l_.slice(6, 11) if isinstance(l_, TText) else l_[6:11]
                        t_ = t_.literal() if isinstance(t_, TText) else t_
                        ser.append(int(t_))
                con = set()
                for l_ in lines:
                    if isinstance(l_, str) and l_.startswith("CONECT"):
                        nums = [int(l_[k_:k_ + 5]) for k_ in range(6, len(l_.rstrip("\n")), 5)]
                        con |= {(nums[0], m_) for m_ in nums[1:]}
            except (TypeError, ValueError, AttributeError, PUnsupported) as e:
                ctx.undecided("C04-R7", f, PDB, fq, desc, "the serial column of the lines printed is not a number: %s" % e)
                continue
            why = []
            if len(ser) != len(at):
                why.append("%d ATOM lines for %d atoms" % (len(ser), len(at)))
            else:
                want = {(ser[i_], ser[j_]) for i_, j_ in bonds} | {(ser[j_], ser[i_]) for i_, j_ in bonds}
                if con != want:
                    miss, extra = sorted(want - con), sorted(con - want)
                    why.append("ATOM serials are %s and the bonds join serials %s, but the CONECT records %s%s" % (
                        ser, sorted({tuple(sorted(p_)) for p_ in want}), ("lack %s" % miss[:3]) if miss else "", ((" and " if miss else "") + "name %s" % extra[:3]) if extra else ""))
            ctx.decide(not why, "C04-R7", f, PDB, fq, desc, "", "; ".join(why))


def r8_fresh_and_renumbered(ctx):
    """Rebuilders return a new object on every path; index renumbering runs over the lists as they are after all deletions."""
    # (a) no rebuilder hands back its input
    for q, inputs in (("Topology.copy", {"self"}), ("Topology.subset", {"self"}), ("_topology_from_subset", {"topology"}), ("Topology.join", {"self", "other"})):
        fn = ctx.py.func(TOP, q)
        rets = [n for n in walk_no_nested(fn) if isinstance(n, ast.Return) and n.value is not None]
        bad = [r for r in rets if isinstance(r.value, ast.Name) and r.value.id in inputs]
        ctx.decide(bool(rets) and not bad, "C04-R8", bad[0] if bad else fn, TOP, q, "never returns its input object (%d returns)" % len(rets), "",
                   "`return %s` at line %d: on that path the 'new' topology is the source itself, so editing one (add_bond, insert_atom, delete_atom_by_index) edits the other"
                   % (bad[0].value.id if bad else "?", bad[0].lineno if bad else 0))
    # (b) renumbering after the deletions
    fn = ctx.py.func(TOP, "_topology_from_subset")
    body = fn.body
    idx = {id(s): i for i, s in enumerate(body)}
    for lst, attr in (("_chains", "chains"), ("_residues", "residues")):
        filters = [i for i, s in enumerate(body) if isinstance(s, ast.Assign) and (dotted(s.targets[0]) or "").endswith("newTopology." + lst) and isinstance(s.value, ast.ListComp)]
        renum = []
        for i, s in enumerate(body):
            if isinstance(s, ast.For) and isinstance(s.iter, ast.Call) and call_name(s.iter) == "enumerate" and s.iter.args and \
                    (dotted(s.iter.args[0]) or "") in ("newTopology." + lst, "newTopology." + attr):
                if any(isinstance(x, ast.Assign) and isinstance(x.targets[0], ast.Attribute) and x.targets[0].attr == "index" for x in ast.walk(s)):
                    renum.append(i)
        if not filters and len(renum) == 1:
            # the removal of the empty ones does not stand in this body as a list comprehension (moved into a helper, written as a loop ...):
            # the order is decided by value in C04-R9 (subset worlds that empty a residue and a chain: indices contiguous afterwards), not here
            ctx.decide(True, "C04-R8", body[renum[0]], TOP, "_topology_from_subset", "%s renumbered once; the removal is not in this body - its effect is decided by evaluation (C04-R9)" % attr, "", "")
            continue
        ok = len(renum) == 1 and bool(filters) and max(filters) < renum[0]
        ctx.decide(ok, "C04-R8", body[renum[0]] if renum else fn, TOP, "_topology_from_subset", "%s renumbered once, after the empty ones were removed" % attr, "",
                   "the index renumbering of %s (statement %s) does not come after the removal of the empty ones (statement %s): the indices of the survivors keep gaps, `top.%s(i).index != i`"
                   % (attr, renum, filters, attr[:-1]))


def r3_order_insensitive_hash(ctx):
    """A field that __eq__ compares after sorting (the order is 'somewhat ambiguous') must enter __hash__ order-insensitively, otherwise equal topologies hash differently."""
    eq = ctx.py.func(TOP, "Topology.__eq__")
    hs = ctx.py.func(TOP, "Topology.__hash__")
    sorted_fields = set()
    for n in walk_no_nested(eq):
        if isinstance(n, ast.Call) and call_name(n) == "sorted" and n.args:
            for a in ast.walk(n.args[0]):
                if isinstance(a, ast.Attribute) and isinstance(a.value, ast.Name) and a.value.id in ("self", "other"):
                    sorted_fields.add(a.attr.lstrip("_"))
    if not sorted_fields:
        ctx.holds("C04-R3", eq, TOP, "Topology.__eq__", "no field is compared after sorting", "")
        return
    for f in sorted(sorted_fields):
        uses = [a for a in ast.walk(hs) if isinstance(a, ast.Attribute) and a.attr.lstrip("_") == f and isinstance(a.value, ast.Name) and a.value.id == "self"]
        m = ctx.py.mod(TOP)
        bad = []
        for u in uses:
            x = u
            ok = False
            while x in m.parents and m.parents[x] is not hs:
                x = m.parents[x]
                if isinstance(x, ast.Call) and call_name(x) in ("sorted", "frozenset", "set"):
                    ok = True
                    break
            if not ok:
                bad.append(u)
        ctx.decide(bool(uses) and not bad, "C04-R3", bad[0] if bad else hs, TOP, "Topology.__hash__", "`%s` is compared after sorting, so it is hashed order-insensitively" % f, "",
                   "Topology.__eq__ compares `%s` after sorting but Topology.__hash__ hashes them in list order: two topologies whose %s were added in a different order compare equal and hash differently" % (f, f))


def r1_bond_type_codec(ctx):
    """Bond types travel through data frames / HDF5 tables as floats: the codes of the types are pairwise distinct, the decoder tries every type
    that has a code, and it compares the stored value *as it is* - rounding or truncating it first merges codes (Amide 1.25 -> 1.2 matches nothing)."""
    m = ctx.py.mod(TOP)
    codes = {}
    for q, fn in m.functions.items():
        if q.endswith(".__float__") and q.count(".") == 1:
            rets = [n for n in walk_no_nested(fn) if isinstance(n, ast.Return) and n.value is not None]
            v = const(rets[0].value) if len(rets) == 1 else None
            codes[q.split(".")[0]] = v
    dec = m.functions.get("float_to_bond_type")
    if dec is None or not codes:
        ctx.undecided("C04-R1", m.tree, TOP, "float_to_bond_type", "bond type codec", "decoder or __float__ methods not found")
        return
    vals = [v for v in codes.values()]
    ctx.decide(all(isinstance(v, (int, float)) for v in vals) and len(set(vals)) == len(vals), "C04-R1", dec, TOP, "float_to_bond_type", "bond type codes %s are pairwise distinct constants" % sorted(codes.items(), key=str), "",
               "two bond types share a float code or a code is not a constant: %s" % codes)
    lists = [n for n in walk_no_nested(dec) if isinstance(n, (ast.List, ast.Tuple)) and n.elts and all(isinstance(e, ast.Name) for e in n.elts)]
    listed = {e.id for n in lists for e in n.elts}
    ctx.decide(set(codes) <= listed, "C04-R1", lists[0] if lists else dec, TOP, "float_to_bond_type", "the decoder tries every bond type that has a float code", "", "bond types with a code that the decoder never tries: %s" % sorted(set(codes) - listed))
    ps = params(dec)
    cmps = [n for n in walk_no_nested(dec) if isinstance(n, ast.Compare) and len(n.ops) == 1 and isinstance(n.ops[0], ast.Eq)]
    cfg = CFG(dec)
    defs = Defs(cfg)
    ok, why = bool(cmps), "no equality test found"
    for c in cmps:
        node = cfg.node_containing(c)
        for side in (c.left, c.comparators[0]):
            ds = deps(side, node, defs)
            if ps and ps[0] in ds:
                # the stored value reaches the comparison through float() only
                bad = [x for x in ast.walk(side) if isinstance(x, (ast.BinOp, ast.Call)) and not (isinstance(x, ast.Call) and call_name(x) == "float")]
                chain = []
                if isinstance(side, ast.Name):
                    for df in defs.reaching(node, side.id):
                        if df.value is not None:
                            chain += [x for x in ast.walk(df.value) if isinstance(x, (ast.BinOp, ast.Call)) and not (isinstance(x, ast.Call) and call_name(x) == "float")]
                if bad or chain:
                    ok, why = False, "the stored value is transformed by `%s` before it is compared with the codes" % src((bad or chain)[0])
    ctx.decide(ok, "C04-R1", cmps[0] if cmps else dec, TOP, "float_to_bond_type", "the stored float is compared with the codes as it is (through float() only)", "", why + ": codes that differ below the rounding step (1.25 vs 1.0 / 1.5) decode to the wrong type or to None")


def r1_element_identity(ctx):
    """deepcopy / pickle of a Topology recreate its elements through Element.__reduce__.  Elements are singletons looked up by a key on load:
    the key must tell all elements of the table apart (the name does; the atomic number does not - deuterium shares 1 with hydrogen)."""
    EL = "mdtraj/core/element.py"
    m = ctx.py.mod(EL)
    ctx.analysed_files.add(EL)
    red = m.functions.get("Element.__reduce__")
    init = m.functions.get("Element.__init__") or m.functions.get("Element.__new__")
    if red is None or init is None:
        ctx.undecided("C04-R1", m.tree, EL, "Element.__reduce__", "singleton key", "Element.__reduce__ / constructor not found")
        return
    fields = [p for p in params(init) if p not in ("self", "cls")]
    table = []
    for st in m.tree.body:
        if isinstance(st, ast.Assign) and isinstance(st.value, ast.Call) and call_name(st.value) == "Element" and isinstance(st.targets[0], ast.Name):
            vals = [const(a) if isinstance(a, ast.Constant) else src(a) for a in st.value.args]
            table.append((st.targets[0].id, dict(zip(fields, vals))))
    if len(table) < 100:
        raise AnalysisError("element table: only %d entries found" % len(table))
    rets = [n for n in walk_no_nested(red) if isinstance(n, ast.Return) and n.value is not None]
    used = sorted({a.attr for r in rets for a in ast.walk(r.value) if isinstance(a, ast.Attribute) and isinstance(a.value, ast.Name) and a.value.id == "self"})
    if not used:
        ctx.undecided("C04-R1", red, EL, "Element.__reduce__", "singleton key", "no field of self in the value returned")
        return
    keyf = [f for f in used if f in fields or f == "atomic_number" and "number" in fields]
    col = lambda f: "number" if f == "atomic_number" and "number" in fields and f not in fields else f      # noqa: E731
    keys = [tuple(row.get(col(f)) for f in keyf) for _, row in table]
    dup = sorted({k for k in keys if keys.count(k) > 1}, key=str)
    ok = bool(keyf) and not dup
    if ok and used == ["name"]:
        # a bare string is resolved as a module attribute: the attribute must be spelled like the name
        alias = {st.targets[0].id: st.value.id for st in m.tree.body if isinstance(st, ast.Assign) and isinstance(st.targets[0], ast.Name) and isinstance(st.value, ast.Name)}
        ok = all(nm == row.get("name") or alias.get(row.get("name")) == nm for nm, row in table)
    ctx.decide(ok, "C04-R1", red, EL, "Element.__reduce__", "elements are re-created from `%s`, which is unique in the table of %d elements" % (", ".join(used), len(table)), "",
               "the key `%s` does not tell the elements apart (%s): a deep-copied or unpickled topology has the first element registered under that key in place of the original" % (", ".join(used), [k for k in dup][:3] if dup else "module attribute and name differ"))


# -------------------------------------------------------------------------------------------------
class _TopWorld:
    """Topology / Chain / Residue / Atom instantiated from the source of mdtraj/core/topology.py by the checker's own evaluator, and a model
    topology built through the class's own add_* methods."""
    SPEC = [("A", [("ALA", 0, "S1", [("N", "N", 0), ("CA", "C", 10)]), ("GLY", 7, "", [("N", "N", None)])]),
            ("X", [("HOH", 5, "W", [("O", "O", 3), ("H1", "H", 4)])]),
            (None, [("NA", 0, "", [("NA", "Na", 0)])])]

    def __init__(self, ctx):
        from ..tensym import TenSym, Obj
        self.TenSym, self.Obj = TenSym, Obj
        mod = ctx.py.mod(TOP)
        self.classes = {n.name: n for n in mod.tree.body if isinstance(n, ast.ClassDef) and n.name in ("Topology", "Chain", "Residue", "Atom")}
        self.funcs = {n.name: n for n in mod.tree.body if isinstance(n, ast.FunctionDef)}
        if set(self.classes) != {"Topology", "Chain", "Residue", "Atom"}:
            raise AnalysisError("topology.py: classes Topology / Chain / Residue / Atom not all found")
        self.EL = {s_: Obj(symbol=s_, name=s_, mass=m_, tag="element " + s_) for s_, m_ in (("N", 14), ("C", 12), ("O", 16), ("H", 1), ("Na", 23))}
        self.SINGLE, self.DOUBLE = Obj(tag="Single"), Obj(tag="Double")
        self.BONDS = [(1, 0, self.SINGLE, 1), (2, 1, None, None), (3, 4, self.DOUBLE, 2)]

    def bond_model(self, ev, call):
        Obj = self.Obj
        args = [ev.ex(a) for a in call.args]
        kw = {k.arg: ev.ex(k.value) for k in call.keywords}
        a1, a2 = args[0], args[1]
        return Obj(tag="bond", _isa=("Bond",), atom1=a1, atom2=a2, type=kw.get("type", args[2] if len(args) > 2 else None), order=kw.get("order", args[3] if len(args) > 3 else None),
                   _iter=lambda: [a1, a2], _getitem=lambda s_, k: [a1, a2][k], _contains_ev=lambda ev_, x_: self.tuple_contains(ev_, x_, (a1, a2)))

    def tuple_contains(self, ev, x, items):
        """`x in (a1, a2)` as Python decides it: identity first, then x == a with the class's own __eq__ (evaluated from its source)"""
        for a in items:
            if x is a:
                return True
            eq = (getattr(x, "_methods", None) or {}).get("__eq__")
            if eq is not None and isinstance(a, self.Obj):
                r = self.TenSym(ev.globals_env(), funcs=self.funcs, parent=ev).run_fn(eq, self=x, other=a)
                if ev.truth(r) if not isinstance(r, bool) else r:
                    return True
        return False

    def evaluator(self, env=None, models=None):
        Obj = self.Obj
        e = {"elem": Obj(virtual=Obj(symbol="VS", name="virtual", tag="virtual"))}
        e.update(env or {})
        m = {"Bond": self.bond_model, "ilen": lambda ev, c: len(ev.iterate(ev.ex(c.args[0]))), "warnings.warn": lambda ev, c: None}
        m.update(models or {})
        ts = self.TenSym(e, funcs=self.funcs, models=m)
        ts.classes = dict(self.classes)
        return ts

    def call(self, ts, o, m, *args, **kw):
        f = o._methods[m]
        pn = [a.arg for a in f.args.args][1:]
        given = {"self": o}
        given.update(dict(zip(pn, args)))
        given.update(kw)
        return self.TenSym(ts.globals_env(), funcs=self.funcs, parent=ts).run_fn(f, **given)

    def build(self, ts, spec=None, bonds=None):
        spec = self.SPEC if spec is None else spec
        bonds = self.BONDS if bonds is None else bonds
        top = ts.instantiate("Topology", [], {})
        atoms = []
        for cid, residues in spec:
            c = self.call(ts, top, "add_chain", cid)
            for (rn, rs, seg, ats) in residues:
                r = self.call(ts, top, "add_residue", rn, c, rs, seg)
                for (an, el, ser) in ats:
                    atoms.append(self.call(ts, top, "add_atom", an, self.EL[el], r, serial=ser))
        for i, j, ty, od in bonds:
            self.call(ts, top, "add_bond", atoms[i], atoms[j], type=ty, order=od)
        return top


# -------------------------------------------------------------------------------------------------
def r9_rebuilders_by_evaluation(ctx):
    from ..tensym import TenSym, Obj, Raised
    from ..pysym import Unsupported as PUnsupported
    W = _TopWorld(ctx)
    SPEC, BONDS, DOUBLE = W.SPEC, W.BONDS, W.DOUBLE
    evaluator, call, build = W.evaluator, W.call, W.build

    def signature(top):
        return ([(c.index, c.chain_id, [(r.index, r.name, r.resSeq, r.segment_id, [(a.index, a.name, a.element.tag, a.serial) for a in r._atoms]) for r in c._residues]) for c in top._chains],
                sorted((b.atom1.index, b.atom2.index, getattr(b.type, "tag", None), b.order) for b in top._bonds))

    def expected(spec, bonds, keep=None, resseq=None):
        """signature of the topology with the atoms in `keep` (all when None); resseq: optional {(chain position, residue position): value}"""
        chains, k_atom, k_res, newidx = [], 0, 0, {}
        old = 0
        for ci, (cid, residues) in enumerate(spec):
            rs_out = []
            for ri, (rn, rs, seg, ats) in enumerate(residues):
                as_out = []
                for (an, el, ser) in ats:
                    if keep is None or old in keep:
                        newidx[old] = k_atom
                        as_out.append((k_atom, an, "element " + el, ser))
                        k_atom += 1
                    old += 1
                if as_out:
                    rs_out.append((k_res, rn, rs if resseq is None else resseq.get((ci, ri), rs), seg, as_out))
                    k_res += 1
            if rs_out:
                chains.append((len(chains), cid, rs_out))
        bs = sorted((min(newidx[i], newidx[j]), max(newidx[i], newidx[j]), getattr(ty, "tag", None), od) for i, j, ty, od in bonds if i in newidx and j in newidx)
        return chains, bs

    def objects(top):
        out = [top] + list(top._chains) + list(top._residues) + list(top._atoms) + list(top._bonds)
        for c in top._chains:
            out += list(c._residues)
            for r in c._residues:
                out += list(r._atoms)
        return out

    def consistent(top):
        pr = []
        if [a.index for a in top._atoms] != list(range(len(top._atoms))) or top._numAtoms != len(top._atoms):
            pr.append("atom k does not carry index k / _numAtoms is %s for %d atoms" % (top._numAtoms, len(top._atoms)))
        if [r.index for r in top._residues] != list(range(len(top._residues))) or top._numResidues != len(top._residues):
            pr.append("residue k does not carry index k / _numResidues is %s for %d residues" % (top._numResidues, len(top._residues)))
        flat = [a for c in top._chains for r in c._residues for a in r._atoms]
        if len(flat) != len(top._atoms) or any(x is not y for x, y in zip(flat, top._atoms)):
            pr.append("the atom list is not the atoms of the chains' residues in order")
        if any(r.chain is not c for c in top._chains for r in c._residues) or any(a.residue is not r for c in top._chains for r in c._residues for a in r._atoms):
            pr.append("a residue / atom points to another chain / residue than the one that lists it")
        if any(b.atom1 is not top._atoms[b.atom1.index] or b.atom2 is not top._atoms[b.atom2.index] for b in top._bonds if b.atom1.index < len(top._atoms) and b.atom2.index < len(top._atoms)):
            pr.append("a bond refers to an atom object that is not in this topology's atom list")
        return pr

    def decide(desc, fnode, q, thunk, want):
        try:
            ts = evaluator()
            src_top, out = thunk(ts)
        except Raised as e:
            ctx.violated("C04-R9", fnode, TOP, q, desc, "the operation raises %s on the model topology" % (e.exc or e))
            return
        except PUnsupported as e:
            ctx.undecided("C04-R9", fnode, TOP, q, desc, "not evaluable: %s" % e)
            return
        pr = []
        if not (isinstance(out, Obj) and "Topology" in getattr(out, "_isa", ())):
            pr.append("the result is not a Topology")
        else:
            got = signature(out)
            if got != want:
                def diff(a, b):
                    for x, y in zip(a[0], b[0]):
                        if x != y:
                            return "chain %s: got %s, expected %s" % (x[0], x, y)
                    if len(a[0]) != len(b[0]):
                        return "%d chains, expected %d" % (len(a[0]), len(b[0]))
                    return "bonds %s, expected %s" % (a[1], b[1])
                pr.append(diff(got, want))
            pr += consistent(out)
            for s_ in src_top:
                shared = [o for o in objects(out) if any(o is x for x in objects(s_))]
                if shared:
                    pr.append("the result shares %d object(s) with its input (e.g. %s): editing one topology edits the other" % (len(shared), getattr(shared[0], "tag", shared[0])))
                    break
        ctx.decide(not pr, "C04-R9", fnode, TOP, q, desc, "", "; ".join(pr)[:700])
    fn_copy = ctx.py.func(TOP, "Topology.copy")
    decide("copy(): same chains, residues, atoms, bonds and fields; no shared object", fn_copy, "Topology.copy",
           lambda ts: (lambda t: ([t], call(ts, t, "copy")))(build(ts)), expected(SPEC, BONDS))
    fn_sub = ctx.py.func(TOP, "_topology_from_subset")
    for keep in ([1, 2, 3], [0, 5], [4, 3, 0], list(range(6))):
        decide("subset(%s): the atoms kept in topology order, empty residues and chains dropped, indices renumbered, fields and bonds between kept atoms preserved" % keep, fn_sub, "Topology.subset",
               lambda ts, keep=keep: (lambda t: ([t], call(ts, t, "subset", list(keep))))(build(ts)), expected(SPEC, BONDS, keep=set(keep)))
    fn_join = ctx.py.func(TOP, "Topology.join")
    SPEC2 = [("B", [("LYS", 0, "S2", [("N", "N", 0), ("CA", "C", None)])]), ("A", [("HOH", 2, "", [("O", "O", 1)])])]
    BONDS2 = [(1, 0, DOUBLE, 2)]
    for keep_resseq in (True, False):
        last = SPEC[-1][1][-1][1]
        rs2 = None if keep_resseq else {(0, 0): last + 1, (1, 0): last + 2}
        w1, w2 = expected(SPEC, BONDS), expected(SPEC2, BONDS2, resseq=rs2)
        n_a, n_r, n_c = 6, 4, 3
        joined = (w1[0] + [(ci + n_c, cid, [(ri + n_r, rn, rs, seg, [(ai + n_a, an, el, ser) for ai, an, el, ser in ats]) for ri, rn, rs, seg, ats in rss]) for ci, cid, rss in w2[0]],
                  sorted(w1[1] + [(i + n_a, j + n_a, ty, od) for i, j, ty, od in w2[1]]))
        decide("join(other, keep_resSeq=%s): the chains of self followed by those of other, %s, atom indices of other shifted, bonds of both" % (keep_resseq, "resSeq kept" if keep_resseq else "resSeq of other continuing after the last of self"),
               fn_join, "Topology.join", lambda ts, k=keep_resseq: (lambda a, b: ([a, b], call(ts, a, "join", b, keep_resSeq=k)))(build(ts), build(ts, SPEC2, BONDS2)), joined)
    try:
        ts = evaluator()
        call(ts, build(ts), "join", Obj(tag="not a topology"))
        ctx.violated("C04-R9", fn_join, TOP, "Topology.join", "join refuses something that is not a Topology", "no error is raised")
    except Raised as e:
        ctx.holds("C04-R9", fn_join, TOP, "Topology.join", "join refuses something that is not a Topology", "raises %s" % (e.exc or "")[:40])
    except PUnsupported as e:
        ctx.undecided("C04-R9", fn_join, TOP, "Topology.join", "join refuses something that is not a Topology", "not evaluable: %s" % e)
