"""C05  Periodic distances and displacements are true minimum-image values (structural part).

R1 dispatch agreement between the Python dispatchers and the Cython wrappers (periodic predicate, orthogonal flag, box orientation)
R2 the wrap is applied to coordinate differences, with the same sign convention in all displacement-returning variants
R3 sibling kernels agree (dist_mic_triclinic vs dist_mic_triclinic_t; the numpy reference trio)
R4 the image search enumerates exactly {-1,0,1}^3 on a reduced box
R5 FFI call conformance of _geometry.pyx against the real C prototypes
"""
from __future__ import annotations

import ast
import re

from ..core import AnalysisError
from .. import cfront as C
from ..pyfront import dotted, call_name, kwarg, params, src, walk_no_nested, const

EXPLANATION = (
    'The numpy reference functions behind opt=False (_distance_mic, _distance_mic_t, _displacement_mic, _displacement) are evaluated on symbolic frames with `round` and the norm opaque and compared with the documented scheme; every dispatcher is evaluated on a model trajectory over periodic x cell x opt; the C kernels are decided by value numbering.  Further: '
    "The minimum-image machinery is decided structurally on three layers: the Python dispatchers (same periodic predicate, "
    "orthogonality from the cell angles, box handed over in the same orientation to the optimised and the reference path), the "
    "Cython wrappers (orthogonal -> *_mic, otherwise *_mic_triclinic; every argument of every extern call is matched against the "
    "parameter of the real C prototype obtained from clang), and the C++ / numpy kernels (wrap applied to pos2 - pos1, box reduced "
    "c<-b, c<-a, b<-a before use, wrap order c,b,a, the three image loops evaluated to exactly {-1,0,1}, sibling kernels compared "
    "statement by statement after alpha-normalisation).")
NOT_DECIDED = ["that the value found is the minimum over all images for every cell (numerical)", "float32 rounding at half-box distances",
               "find_closest_contact neither reduces the box nor searches images (only matters for skewed cells; numerical)"]
ASSUMPTIONS = ["round()/roundf() return the nearest integer", "fvec4 operators are element-wise"]
FLOORS = {"C05-R1": 20, "C05-R2": 2, "C05-R3": 1, "C05-R4": 22, "C05-R5": 44, "C05-R6": 20}

DIST = "mdtraj/geometry/distance.py"
GEO = "mdtraj/geometry/src/geometry.cpp"
PYX = "mdtraj/geometry/src/_geometry.pyx"


def check(ctx):
    ctx.rule("C05-R1", "every dispatcher takes the periodic path iff `periodic` is truthy and a unit cell exists, derives `orthogonal` from the cell angles (allclose 90), passes "
                       "box.transpose(0,2,1) to the optimised and the reference path; every wrapper maps orthogonal to *_mic and its negation to *_mic_triclinic")
    ctx.rule("C05-R2", "in every kernel the value entering round() is a component of pos2 - pos1 (xyz[b] - xyz[a])")
    ctx.rule("C05-R3", "dist_mic_triclinic and dist_mic_triclinic_t are identical after the load of the two positions; the numpy reference functions share one wrap / search scheme")
    ctx.rule("C05-R4", "box reduced (c -= b*round(c_y/b_y); c -= a*round(c_x/a_x); b -= a*round(b_x/a_x)), wrap order c,b,a, image loops enumerate exactly {-1,0,1}^3, candidate = r + x*a + y*b + z*c")
    ctx.rule("C05-R5", "at every extern call in _geometry.pyx the k-th argument is the variable the k-th C parameter names (alias table for out / n_times); pointer const-ness is respected")
    dispatch_eval(ctx, "C05-R1", [(DIST, "compute_distances_core"), (DIST, "compute_distances_t"), (DIST, "compute_displacements")])
    wrappers(ctx, "C05-R1", ["_dist_mic", "_dist_mic_t", "_dist_mic_displacement"])
    _kernels(ctx)
    kernels_value(ctx)
    ffi(ctx, "C05-R5", ["_dist", "_dist_displacement", "_dist_mic", "_dist_t", "_dist_mic_t", "_dist_mic_displacement", "_find_closest_contact"])
    ctx.rule("C05-R6", "every geometry function with a `periodic` parameter forwards it to every package callee that has one")
    flag_identity(ctx, "C05-R1", ["mdtraj/geometry/distance.py", "mdtraj/geometry/angle.py", "mdtraj/geometry/dihedral.py", "mdtraj/geometry/contact.py", "mdtraj/geometry/rdf.py", "mdtraj/geometry/hbond.py"], floor=10)
    no_foreign_attribute_stores(ctx, "C05-R1", ["mdtraj/geometry/distance.py", "mdtraj/geometry/contact.py", "mdtraj/geometry/rdf.py"], floor=10)
    periodic_plumbing(ctx, "C05-R6", floor=20)


# ---------------------------------------------------------------------------------------------------
def dispatch(ctx, rule, funcs):
    for rel, q in funcs:
        fn = ctx.py.func(rel, q)
        # the periodic branch
        per = None
        for n in walk_no_nested(fn):
            if isinstance(n, ast.If) and "periodic" in src(n.test):
                per = n
                break
        if per is None:
            ctx.violated(rule, fn, rel, q, "periodic branch", "no branch on `periodic`: the unit cell is ignored")
            continue
        t = src(per.test)
        ok = isinstance(per.test, ast.BoolOp) and isinstance(per.test.op, ast.And) and dotted(per.test.values[0]) == "periodic" and \
            ("_have_unitcell" in t or "unitcell_vectors is not None" in t) and len(per.test.values) == 2
        ctx.decide(ok, rule, per, rel, q, "periodic predicate `periodic and <has cell>`", t,
                   "the periodic path is chosen by `%s`: the dispatchers disagree for truthy values of `periodic` that are not the object True "
                   "(e.g. numpy.bool_): some observables are then periodic and others are not" % t)
        body = ast.Module(body=per.body, type_ignores=[])
        bs = src(body)
        orth = [n for n in ast.walk(body) if isinstance(n, ast.Assign) and dotted(n.targets[0]) == "orthogonal"]
        ok = bool(orth) and "np.allclose(" in src(orth[0].value) and src(orth[0].value).rstrip(")").endswith(", 90") and "angles" in src(orth[0].value)
        # the flag selects one kernel for the whole trajectory: it must look at the angles of every frame
        if ok:
            a0 = orth[0].value.args[0] if isinstance(orth[0].value, ast.Call) and orth[0].value.args else None
            ok = a0 is not None and not any(isinstance(x, ast.Subscript) for x in ast.walk(a0))
        ctx.decide(ok, rule, orth[0] if orth else per, rel, q, "orthogonal = allclose(cell angles of all frames, 90)", "",
                   "orthogonal flag is %s: it must be allclose(<angles of every frame>, 90) - a trajectory whose later frames are triclinic would be sent through the orthorhombic kernel" % (src(orth[0].value) if orth else "missing"))
        # box orientation to both paths
        calls = [n for n in ast.walk(body) if isinstance(n, ast.Call) and ((call_name(n) or "").startswith("_geometry.") or (call_name(n) or "").startswith(("_distance_mic", "_displacement_mic", "_angle", "_dihedral")))]
        boxargs = []
        for c in calls:
            for a in c.args:
                if "box" in src(a):
                    boxargs.append((c, re.sub(r"\.copy\(\)$", "", src(a))))
        if boxargs:
            ok = all(b == "box.transpose(0, 2, 1)" for _, b in boxargs)
            ctx.decide(ok, rule, boxargs[0][0], rel, q, "box passed as box.transpose(0,2,1) to every path (%d)" % len(boxargs), "",
                       "the optimised and the reference path receive the box in different orientations: %s" % sorted({b for _, b in boxargs}))
        optcalls = [c for c in calls if (call_name(c) or "").startswith("_geometry.")]
        for c in optcalls:
            last = c.args[-1] if c.args else None
            ctx.decide(last is not None and dotted(last) == "orthogonal", rule, c, rel, q, "%s receives the orthogonal flag" % call_name(c), "", "the orthogonal flag is not passed to %s" % call_name(c))
        # non-periodic path exists and does not receive a box
        after = [n for n in walk_no_nested(fn) if isinstance(n, ast.Call) and (call_name(n) or "") in ("_geometry._dist", "_geometry._dist_t", "_geometry._dist_displacement", "_geometry._angle", "_geometry._dihedral")]
        ctx.decide(bool(after) and all("box" not in src(c) for c in after), rule, after[0] if after else fn, rel, q, "non-periodic path uses the plain kernel", "", "no plain (non-periodic) kernel call")


def wrappers(ctx, rule, names):
    for w in names:
        fn = ctx.py.func(PYX, w)
        ifs = [n for n in walk_no_nested(fn) if isinstance(n, ast.If) and src(n.test) == "orthogonal"]
        if not ifs:
            ctx.violated(rule, fn, PYX, w, "orthogonal dispatch", "wrapper does not branch on `orthogonal`")
            continue
        tcall = [call_name(c) for s in ifs[0].body for c in ast.walk(s) if isinstance(c, ast.Call)]
        ecall = [call_name(c) for s in ifs[0].orelse for c in ast.walk(s) if isinstance(c, ast.Call)]
        ok = len(tcall) == 1 and len(ecall) == 1 and tcall[0].endswith("_mic" if not w.endswith("_t") else "_mic_t") and "triclinic" in ecall[0] and "triclinic" not in tcall[0] and \
            ecall[0].replace("_triclinic", "") == tcall[0]
        ctx.decide(ok, rule, ifs[0], PYX, w, "orthogonal -> %s, else -> %s" % (tcall, ecall), "", "wrapper %s dispatches orthogonal -> %s, triclinic -> %s" % (w, tcall, ecall))
        # both branches pass the same arguments
        ta = [src(a) for s in ifs[0].body for c in ast.walk(s) if isinstance(c, ast.Call) for a in c.args]
        ea = [src(a) for s in ifs[0].orelse for c in ast.walk(s) if isinstance(c, ast.Call) for a in c.args]
        ctx.decide(ta == ea, rule, ifs[0], PYX, w, "both branches pass identical arguments", "", "argument lists differ: %s vs %s" % (ta, ea))


# ---------------------------------------------------------------------------------------------------
def _norm(t):
    return re.sub(r"\s", "", t)


def _loop_values(loop):
    """Set of values of a `for (int v = a; v < b; v++)` loop with literal bounds, else None."""
    ks = C.kids(loop)
    init, cond, inc = ks[0], ks[1], ks[2]
    v0 = None
    if init["kind"] == "DeclStmt":
        vd = C.kids(init)[0]
        t = _norm(C.text(C.kids(vd)[-1]))
        m = re.match(r"^\(?(-?)\(?(\d+)\)?\)?$", t.replace("(-", "-(")) or re.match(r"^\((-)(\d+)\)$", t) or re.match(r"^(-?)(\d+)$", t)
        if m:
            v0 = int(m.group(2)) * (-1 if m.group(1) else 1)
        name = vd.get("name")
    else:
        return None, None
    c = C.strip(cond)
    if v0 is None or c.get("kind") != "BinaryOperator":
        return name, None
    rhs = _norm(C.text(C.kids(c)[1]))
    try:
        b = int(rhs.strip("()"))
    except ValueError:
        return name, None
    op = c.get("opcode")
    if C.strip(inc).get("kind") != "UnaryOperator" or C.strip(inc).get("opcode") != "++":
        return name, None
    if op == "<":
        return name, set(range(v0, b))
    if op == "<=":
        return name, set(range(v0, b + 1))
    return name, None


def _kernel_facts(ctx, cf, fname):
    fn = cf.function(GEO, fname)
    ctx.analysed_functions.add(GEO + ":" + fname)
    stmts = []   # normalised statements of the pair loop from `r12 = ...` on
    started = False

    def rec(n):
        nonlocal started
        k = n["kind"]
        if k in ("DeclStmt",):
            for v in C.kids(n):
                if v["kind"] == "VarDecl":
                    t = "%s=%s" % (v.get("name"), _norm(C.text(C.kids(v)[-1])) if C.kids(v) else "")
                    if v.get("name") == "r12":
                        started = True
                    if started:
                        stmts.append(t)
            return
        if k in ("CXXOperatorCallExpr", "BinaryOperator", "CompoundAssignOperator") and started:
            stmts.append(_norm(C.text(n)))
            return
        if k == "ForStmt" and started:
            name, vals = _loop_values(n)
            stmts.append("for %s in %s" % (name, sorted(vals) if vals is not None else "?"))
        if k == "IfStmt" and started:
            stmts.append("if " + _norm(C.text(C.kids(n)[0])))
        for c in C.kids(n):
            rec(c)
    rec(C.body_of(fn))
    return fn, stmts


def _kernels(ctx):
    cf = C.get(ctx.repo)
    ctx.analysed_files.add(GEO)
    # The C kernels are decided by value numbering (kernels_value below): the statement-text comparisons that stood here
    # (r12 definition, wrap statements, box loads and reduction, candidate construction, sibling equality) fired on renamed locals.
    # ---- numpy reference trio (opt=False): evaluated, see reference_trio_by_value
    reference_trio_by_value(ctx)


def reference_trio_by_value(ctx):
    """_distance_mic, _distance_mic_t, _displacement_mic and _displacement (the numpy paths behind opt=False) evaluated (sa/tensym.py) on two
    symbolic frames and one pair, with `round` and the norm as opaque functions, and compared with the scheme they document: the box is reduced
    (c -= b round(c_y / b_y); c -= a round(c_x / a_x); b -= a round(b_x / a_x)), the displacement x_q - x_p is wrapped along c, b, a by the
    reduced diagonal, and for a non-orthogonal cell the shortest of the 27 neighbouring images is taken (`min` as a function of the set)."""
    from ..tensym import TenSym, Ten
    from ..pysym import Unsupported as PUnsupported
    from ..poly import Poly, Rat
    mod = ctx.py.mod(DIST)
    funcs = {q: f for q, f in mod.functions.items() if "." not in q}
    F_, N_ = 2, 3
    rat = lambda v: Rat(Poly.const(v))      # noqa: E731

    def vec(t, *idx):
        base = 0
        st_ = t.strides()
        for k, i in enumerate(idx):
            base += i * st_[k]
        return [t.data[base + c * st_[len(idx)]] for c in range(3)] if len(idx) < t.ndim else None

    def col(t, f, k):       # column k of box_vectors[f]
        return [t.data[(f * 3 + r_) * 3 + k] for r_ in range(3)]

    def definition(ts, r, a, b, c, orthogonal):
        rnd = lambda v: ts.fn("round", v)      # noqa: E731
        sub = lambda u, v, k: [u[i] - v[i] * k for i in range(3)]      # noqa: E731
        c1 = sub(c, b, rnd(c[1] / b[1]))
        c2 = sub(c1, a, rnd(c1[0] / a[0]))
        b1 = sub(b, a, rnd(b[0] / a[0]))
        r1 = sub(r, c2, rnd(r[2] / c2[2]))
        r2 = sub(r1, b1, rnd(r1[1] / b1[1]))
        r3 = sub(r2, a, rnd(r2[0] / a[0]))
        cands = [[r3[i] + a[i] * ii + b1[i] * jj + c2[i] * kk for i in range(3)] for ii in (-1, 0, 1) for jj in (-1, 0, 1) for kk in (-1, 0, 1)]
        return r3, cands

    def norm(ts, v):
        return ts.fn("sqrt", v[0] * v[0] + v[1] * v[1] + v[2] * v[2])
    xyz, box = Ten.sym("x", (F_, N_, 3)), Ten.sym("B", (F_, 3, 3))
    p_, q_ = 0, 2
    pairs = Ten((1, 2), [rat(p_), rat(q_)])
    times = Ten((1, 2), [rat(1), rat(0)])
    for q, kind in (("_distance_mic", "dist"), ("_distance_mic_t", "dist_t")):
        fn = ctx.py.func(DIST, q)
        for orth in (True, False):
            desc = "%s, %s cell: |wrapped x_q - x_p|%s" % (q, "orthogonal" if orth else "triclinic", "" if orth else ", shortest of the 27 images")
            ts = TenSym(funcs={k: v for k, v in funcs.items() if k != q})
            try:
                if kind == "dist":
                    r = ts.run_fn(fn, xyz=xyz, pairs=pairs, box_vectors=box, orthogonal=orth)
                    frames = [(f, f, f) for f in range(F_)]     # (frame of p... see below)
                else:
                    r = ts.run_fn(fn, xyz=xyz, pairs=pairs, times=times, box_vectors=box, orthogonal=orth)
                    frames = [(1, 0, 1)]        # times row (a, b) = (1, 0): x[a, c] - x[b, d], box of frame a
            except PUnsupported as e:
                ctx.undecided("C05-R4", fn, DIST, q, desc, "not evaluable: %s" % e)
                continue
            ok = isinstance(r, Ten) and r.shape == (len(frames), 1)
            why = "" if ok else "the result has shape %s" % (getattr(r, "shape", None),)
            if ok:
                for row, (fa, fb, fbox) in enumerate(frames):
                    if kind == "dist":
                        disp = [xyz.data[(fa * N_ + q_) * 3 + i] - xyz.data[(fa * N_ + p_) * 3 + i] for i in range(3)]
                    else:
                        disp = [xyz.data[(fa * N_ + p_) * 3 + i] - xyz.data[(fb * N_ + q_) * 3 + i] for i in range(3)]
                    r3, cands = definition(ts, disp, col(box, fbox, 0), col(box, fbox, 1), col(box, fbox, 2), orth)
                    want = norm(ts, r3) if orth else ts.extreme("min", [norm(ts, r3)] + [norm(ts, c_) for c_ in cands])
                    if not ts.equal(r.data[row], want):
                        ok = False
                        why = why or "row %d is %s; the scheme gives %s" % (row, repr(r.data[row])[:160], repr(want)[:160])
            ctx.decide(ok, "C05-R4", fn, DIST, q, desc, "", why)
    # ---- displacement: the wrapped vector; for a triclinic cell the candidate whose squared length beat the best so far
    fn = ctx.py.func(DIST, "_displacement_mic")
    q = "_displacement_mic"
    for orth, pick in ((True, None), (False, None), (False, 0), (False, 13), (False, 26), (False, 5)):
        desc = "%s, %s cell%s" % (q, "orthogonal" if orth else "triclinic", "" if orth else (": no image shorter -> the wrapped vector" if pick is None else ": image %d shorter than all before it -> that image" % pick))
        ts = TenSym(funcs={k: v for k, v in funcs.items() if k != q}, models={"np.linalg.inv": lambda ev, call: None})
        state = {"n": 0, "bad": None}
        disp = [xyz.data[(0 * N_ + q_) * 3 + i] - xyz.data[(0 * N_ + p_) * 3 + i] for i in range(3)]

        def policy(ev, test, state=state):
            # the only data-dependent test: is this image shorter than the best so far?  decided by the rule, and checked to compare squared lengths
            k = state["n"] % 27
            frame = state["n"] // 27
            state["n"] += 1
            if frame == 0 and isinstance(test, ast.Compare) and len(test.ops) == 1:
                l_, r_ = ev.ex(test.left), ev.ex(test.comparators[0])
                r3, cands = definition(ev, disp, col(box, 0, 0), col(box, 0, 1), col(box, 0, 2), False)
                sq = lambda v: v[0] * v[0] + v[1] * v[1] + v[2] * v[2]      # noqa: E731
                best = sq(r3) if (pick is None or k <= pick) else sq(cands[pick])
                lt = isinstance(test.ops[0], ast.Lt) and ev.equal(l_, sq(cands[k])) and ev.equal(r_, best)
                gt = isinstance(test.ops[0], ast.Gt) and ev.equal(r_, sq(cands[k])) and ev.equal(l_, best)
                if not (lt or gt):
                    state["bad"] = state["bad"] or "image %d is accepted on `%s`, which is not |image|^2 < |best so far|^2" % (k, src(test))
            return pick is not None and k == pick
        policy.wants_node = True
        ts.assume = policy
        try:
            r = ts.run_fn(fn, xyz=xyz, pairs=pairs, box_vectors=box, orthogonal=orth)
        except PUnsupported as e:
            ctx.undecided("C05-R4", fn, DIST, q, desc, "not evaluable: %s" % e)
            continue
        ok = isinstance(r, Ten) and r.shape == (F_, 1, 3)
        why = "" if ok else "the result has shape %s" % (getattr(r, "shape", None),)
        if ok:
            r3, cands = definition(ts, disp, col(box, 0, 0), col(box, 0, 1), col(box, 0, 2), orth)
            want = r3 if pick is None else cands[pick]
            got = r.data[0:3]
            if not all(ts.equal(g, w) for g, w in zip(got, want)):
                ok = False
                why = "frame 0 gives %s; expected %s" % ([repr(g)[:80] for g in got], [repr(w)[:80] for w in want])
            if not orth and state["n"] != 27 * F_:
                ok = False
                why = why or "%d images are examined per pair (27 expected: -1, 0, 1 along each reduced vector)" % (state["n"] // F_)
            if state["bad"]:
                ok = False
                why = why or state["bad"]
        ctx.decide(ok, "C05-R4", fn, DIST, q, desc, "", why)
        if orth:
            ctx.decide(ok, "C05-R2", fn, DIST, q, "reference displacement = wrapped (x_q - x_p): from the first atom of the pair to the second, like the C kernel", "", why)
    trio = [o for o in ctx.obs if o.rule == "C05-R4" and o.func in ("_distance_mic", "_distance_mic_t", "_displacement_mic")]
    ctx.decide(bool(trio) and all(o.verdict == "HOLDS" for o in trio), "C05-R3", ctx.py.func(DIST, "_distance_mic_t"), DIST, "_distance_mic/_distance_mic_t/_displacement_mic",
               "one reduction / wrap / image-search scheme in all three reference functions (each equals the same definition)", "%d comparisons" % len(trio),
               "the reference functions do not all follow the scheme: see the C05-R4 reports")
    # ---- non-periodic reference: x_q - x_p
    fn = ctx.py.func(DIST, "_displacement")
    ts = TenSym(funcs={k: v for k, v in funcs.items() if k != "_displacement"})
    try:
        pr2 = Ten((2, 2), [rat(0), rat(2), rat(1), rat(0)])
        r = ts.run_fn(fn, xyz=xyz, pairs=pr2)
        want = Ten((F_, 2, 3), [xyz.data[(f * N_ + b_) * 3 + i] - xyz.data[(f * N_ + a_) * 3 + i] for f in range(F_) for (a_, b_) in ((0, 2), (1, 0)) for i in range(3)])
        ok = isinstance(r, Ten) and r.shape == want.shape and ts.first_difference(r, want) is None
        ctx.decide(ok, "C05-R2", fn, DIST, "_displacement", "plain displacement = xyz[b] - xyz[a] for every frame and pair", "",
                   "the displacement %s" % ("has shape %s" % (getattr(r, "shape", None),) if not (isinstance(r, Ten) and r.shape == want.shape) else ts.first_difference(r, want)))
    except PUnsupported as e:
        ctx.undecided("C05-R2", fn, DIST, "_displacement", "plain displacement", "not evaluable: %s" % e)


# ---------------------------------------------------------------------------------------------------
ALIASES = {"distance_out": {"out"}, "displacement_out": {"out"}, "out": {"out"}, "n_frames": {"n_frames", "n_times"}, "n_times": {"n_times", "n_frames"},
           "n_pairs": {"n_pairs"}, "n_angles": {"n_angles"}, "n_quartets": {"n_quartets"}, "positions": {"positions"}, "box_vectors_pointer": {"box_vectors_pointer"},
           "n_group1": {"group1"}, "n_group2": {"group2"}, "atom1": {"atom1"}, "atom2": {"atom2"}, "distance": {"distance"}}


def ffi(ctx, rule, wrappers_):
    from .. import effects
    cf = C.get(ctx.repo)
    m = ctx.py.mod(PYX)
    externs = set(m.pyx.rec["externs"])
    for w in wrappers_:
        fn = ctx.py.func(PYX, w)
        for call in [n for n in walk_no_nested(fn) if isinstance(n, ast.Call) and call_name(n) in externs]:
            cname = call_name(call)
            tu = effects.c_definition_tu(ctx.repo, cname)
            if tu is None:
                ctx.undecided(rule, call, PYX, w, cname, "C definition of %s not found" % cname)
                continue
            cfn = cf.function(tu, cname)
            cps = C.fparams(cfn)
            ctx.decide(len(cps) == len(call.args), rule, call, PYX, w, "%s(): %d arguments for %d parameters" % (cname, len(call.args), len(cps)), "", "argument count mismatch for %s" % cname)
            for k, (a, p) in enumerate(zip(call.args, cps)):
                pname = p.get("name")
                desc = "%s arg %d -> %s" % (cname, k, pname)
                if isinstance(a, ast.Name) and a.id == "NULL":
                    want_null = (pname == "displacement_out" and "displacement" not in w) or (pname == "distance_out" and "displacement" in w)
                    ctx.decide(want_null, rule, call, PYX, w, desc + " (NULL)", "", "NULL is passed for `%s` in %s" % (pname, w))
                    continue
                base = a
                while isinstance(base, ast.Subscript):
                    base = base.value
                an = dotted(base) or src(base)
                an = an.split(".")[0]
                if isinstance(a, ast.Call) and call_name(a) == "len" and a.args:
                    an = dotted(a.args[0]) or an
                ok = an == pname or an in ALIASES.get(pname, set()) or (pname.startswith("n_") and an in ("xyz", "out") and "shape" in src(a))
                ctx.decide(ok, rule, call, PYX, w, desc, "receives `%s`" % src(a)[:30], "parameter `%s` of %s receives `%s`" % (pname, cname, src(a)[:40]))


# ---------------------------------------------------------------------------------------------------
def periodic_plumbing(ctx, rule, only=None, floor=0):
    """Every geometry function with a `periodic` parameter hands that parameter to every callee of the package that has one."""
    mods = [rel for rel in ctx.py.all_py("mdtraj/geometry")]
    defs = {}
    for rel in mods:
        m = ctx.py.mod(rel)
        for q, f in m.functions.items():
            if "." not in q and "periodic" in params(f):
                defs.setdefault(q, (rel, params(f)))
    n = 0
    for rel in mods:
        if only is not None and rel not in only:
            continue
        m = ctx.py.mod(rel)
        for q, f in m.functions.items():
            if "periodic" not in params(f):
                continue
            for c in ast.walk(f):
                if not isinstance(c, ast.Call):
                    continue
                cn = call_name(c) or ""
                nm = cn.split(".")[-1]
                if nm not in defs or nm == q or cn.startswith("_geometry."):
                    continue
                ps = defs[nm][1]
                a = kwarg(c, "periodic", ps.index("periodic"))
                n += 1
                ctx.decide(a is not None and dotted(a) == "periodic", rule, c, rel, q, "%s(..., periodic=periodic)" % nm, "",
                           "%s calls %s %s: the caller's choice of minimum-image treatment is ignored for this part of the computation"
                           % (q, nm, "with periodic=%s" % src(a) if a is not None else "without passing `periodic` (the callee's default is used)"))
    if n < floor:
        raise AnalysisError("periodic plumbing: only %d forwarding sites found (expected >= %d)" % (n, floor))
    return n


# ---------------------------------------------------------------------------------------------------
# value numbering of the four minimum-image kernels (replaces the statement-text comparisons of R2/R3/R4)
# ---------------------------------------------------------------------------------------------------
def kernels_value(ctx):
    from ..symval import SymExec, State, Unsupported
    from ..poly import Poly, Rat
    cf = C.get(ctx.repo)

    def S(base, off):
        """the symbol symval gives to base[off] (off a Rat / int)"""
        o = off if isinstance(off, Rat) else Rat(Poly.const(off))
        c = o.const_value()
        return Rat(Poly.var("%s[%s]" % (base, int(c) if c is not None and c.denominator == 1 else repr(o))))
    for kern, tri, timed in (("dist_mic", False, False), ("dist_mic_t", False, True), ("dist_mic_triclinic", True, False), ("dist_mic_triclinic_t", True, True)):
        fn = cf.function(GEO, kern)
        # the loops by role, whatever their variables are called: frames (bound n_frames / n_times), pairs (bound n_pairs), images ({-1,0,1}, outermost first)
        roles, images = {}, []
        for n_ in C.walk(fn):
            if n_["kind"] != "ForStmt":
                continue
            nm, vals = _loop_values(n_)
            m_ = re.match(r"^\((\w+)<(\w+)\)$", _norm(C.text(C.kids(n_)[1])))
            if m_ and m_.group(1) == nm and m_.group(2) in ("n_frames", "n_times"):
                roles["frame"] = (nm, n_)
            elif m_ and m_.group(1) == nm and m_.group(2) == "n_pairs":
                roles["pair"] = (nm, n_)
            else:
                images.append((nm, n_, vals))       # a candidate image loop; its value set (None: bounds not literal) is an obligation below
        if "pair" in roles:
            images = [im for im in images if im[0] is not None and any(x_ is im[1] for x_ in C.walk(roles["pair"][1]))]     # the loops inside the pair loop
        if "frame" not in roles or "pair" not in roles or (tri and len(images) != 3):
            raise AnalysisError("%s: the loops over frames, pairs%s were not found (%s, %d image loops)" % (kern, " and images" if tri else "", sorted(roles), len(images)))
        i, j = Rat(Poly.var(roles["frame"][0])), Rat(Poly.var(roles["pair"][0]))
        ex = SymExec(cf, GEO, symbolic_loops={roles["frame"][0], roles["pair"][0]} | {im[0] for im in images})
        try:
            outs = ex.run(C.kids(C.body_of(fn)), State())
        except Unsupported as e:
            raise AnalysisError("%s: %s" % (kern, e))
        full = [o for o in outs if o.env.get(("displacement_out", 0)) is not None and o.env.get(("distance_out", 0)) is not None and not any(p is False and "<" in c for c, p in o.cvals)]
        if len(full) != 1:
            raise AnalysisError("%s: expected one path that stores both outputs, found %d" % (kern, len(full)))
        o = full[0]
        # ---- the definition, built from the same input symbols
        a1, a2 = S("pairs", 2 * j), S("pairs", 2 * j + 1)
        if timed:
            t1, t2 = S("times", 2 * i), S("times", 2 * i + 1)
            n = Rat(Poly.var("n_atoms"))
            p1 = [S("xyz", 3 * n * t1 + 3 * a1 + k) for k in range(3)]
            p2 = [S("xyz", 3 * n * t2 + 3 * a2 + k) for k in range(3)]
            boff = 9 * t1
        else:
            p1 = [S("xyz", 3 * a1 + k) for k in range(3)]
            p2 = [S("xyz", 3 * a2 + k) for k in range(3)]
            boff = Rat(Poly.const(0))
        M = [S("box_matrix", boff + k) for k in range(9)]
        r = [p2[k] - p1[k] for k in range(3)]

        def rnd(v):
            return ex.opaque_call("round", [v])
        if not tri:
            Ld = [M[0], M[4], M[8]]
            w = [r[k] - rnd(r[k] * (Rat(Poly.const(1)) / Ld[k])) * Ld[k] for k in range(3)]
            cand = w
        else:
            b1, b2, b3 = [M[0], M[3], M[6]], [M[1], M[4], M[7]], [M[2], M[5], M[8]]
            f = rnd(b3[1] / b2[1])
            b3 = [b3[k] - b2[k] * f for k in range(3)]
            f = rnd(b3[0] / b1[0])
            b3 = [b3[k] - b1[k] * f for k in range(3)]
            f = rnd(b2[0] / b1[0])
            b2 = [b2[k] - b1[k] * f for k in range(3)]
            rec = [Rat(Poly.const(1)) / b1[0], Rat(Poly.const(1)) / b2[1], Rat(Poly.const(1)) / b3[2]]
            w = list(r)
            for vec, comp in ((b3, 2), (b2, 1), (b1, 0)):
                f = rnd(w[comp] * rec[comp])
                w = [w[k] - vec[k] * f for k in range(3)]
            x, y, z = [Rat(Poly.var(im[0])) for im in images]
            cand = [w[k] + b1[k] * x + b2[k] * y + b3[k] * z for k in range(3)]
        got = [o.env.get(("displacement_out", k)) for k in range(3)]
        okd = all(g is not None and g == c for g, c in zip(got, cand))
        what = "r = x[b] - x[a]; r -= round(r/L) L" if not tri else "box columns reduced c-=b, c-=a, b-=a; r wrapped along c, b, a by the reciprocal diagonal; candidate r + x a + y b + z c"
        ctx.decide(okd, "C05-R4", C.line(fn), GEO, kern, "displacement normal form: " + what, "",
                   "the displacement the kernel stores is not the minimum-image expression of its definition (component 0: %s)" % (repr(got[0])[:200]))
        dist = o.env.get(("distance_out", 0))
        d2 = cand[0] * cand[0] + cand[1] * cand[1] + cand[2] * cand[2]
        want = ex.opaque_call("sqrt", [d2])
        ctx.decide(dist is not None and dist == want, "C05-R4", C.line(fn), GEO, kern, "distance = |stored displacement|", "", "the distance stored is %s" % (repr(dist)[:160]))
        # the box of frame i: every load of box_matrix sits inside the frame loop (the pointer advances once per frame)
        floops = [roles["frame"][1]]
        inside = {id(x) for l_ in floops for x in C.walk(l_)}
        loads = [n_ for n_ in C.walk(fn) if n_["kind"] == "ArraySubscriptExpr" and C.root_var(n_)[0] == "box_matrix"]
        outside = [n_ for n_ in loads if id(n_) not in inside]
        ctx.decide(bool(floops) and bool(loads) and not outside, "C05-R4", C.line(outside[0]) if outside else C.line(fn), GEO, kern, "the box is loaded inside the frame loop (%d loads)" % len(loads), "",
                   "box_matrix is read at line %s, outside the frame loop: a quantity derived from the first frame's cell is used for every frame (cells that change between frames are wrapped with stale lengths)"
                   % (C.line(outside[0]) if outside else "?"))
        if tri:
            # the image loops: generic iteration over x, y, z in {-1,0,1}; the update keeps the candidate whose squared length is not larger
            # the three loops with literal bounds, nested in one another inside the pair loop, each over {-1,0,1}
            nested = all(any(x_ is images[k_ + 1][1] for x_ in C.walk(images[k_][1])) for k_ in range(2)) and any(x_ is images[0][1] for x_ in C.walk(roles["pair"][1]))
            cover = all(im[2] == {-1, 0, 1} for im in images)
            ctx.decide(nested and cover, "C05-R4", C.line(fn), GEO, kern, "image loops enumerate {-1,0,1}^3", "",
                       "image loops cover %s%s (some neighbouring images are never examined)" % ({im[0]: sorted(im[2]) if im[2] is not None else None for im in images}, "" if nested else ", not nested inside the pair loop"))
            sel = [c for c, p in o.cvals if p and ("<=" in c or "<" in c) and "sqrt" not in c]
            okc = False
            if sel:
                t = re.sub(r"\s", "", sel[-1])
                okc = t.startswith("(" + re.sub(r"\s", "", repr(d2))) and re.search(r"<=?\d", t) is not None
            ctx.decide(okc, "C05-R4", C.line(fn), GEO, kern, "a candidate replaces the current best when its squared length is not larger", "", "selection condition is %s" % (sel[-1][:120] if sel else None))


# ---------------------------------------------------------------------------------------------------
def flag_identity(ctx, rule, rels, name_filter=None, floor=1):
    """A boolean option is tested by truthiness: `param is True` / `param is False` treats numpy.bool_(True), 1 or a non-empty mask differently from True."""
    n_flags = 0
    for rel in rels:
        m = ctx.py.mod(rel)
        seen = set()
        for q, fn in sorted(m.functions.items()):
            if id(fn) in seen:
                continue
            seen.add(id(fn))
            if name_filter is not None and not name_filter(q):
                continue
            flags = set()
            a = fn.args
            pos = a.args[len(a.args) - len(a.defaults):] if a.defaults else []
            for p_, d_ in list(zip(pos, a.defaults)) + [(p2, d2) for p2, d2 in zip(a.kwonlyargs, a.kw_defaults) if d2 is not None]:
                if isinstance(d_, ast.Constant) and isinstance(d_.value, bool):
                    flags.add(p_.arg)
            if not flags:
                continue
            n_flags += len(flags)
            bad = []
            for n in walk_no_nested(fn):
                if isinstance(n, ast.Compare) and isinstance(n.left, ast.Name) and n.left.id in flags and len(n.ops) == 1 and isinstance(n.ops[0], (ast.Is, ast.IsNot)) \
                        and isinstance(n.comparators[0], ast.Constant) and isinstance(n.comparators[0].value, bool):
                    bad.append(n)
            ctx.decide(not bad, rule, bad[0] if bad else fn, rel, q, "boolean options %s are tested by truthiness" % sorted(flags), "",
                       "`%s`: an option passed as numpy.bool_, 1 or another truthy value is silently treated as the opposite of True" % (src(bad[0]) if bad else ""))
    if n_flags < floor:
        raise AnalysisError("flag_identity: only %d boolean options found in %s" % (n_flags, rels))


# ---------------------------------------------------------------------------------------------------
_FOREIGN_CONTROL = """
def f(top, names):
    if hasattr(top, "topology"):
        top = top.topology
    cache = getattr(top, "_memo", None)
    if cache is None:
        cache = top._memo = build(top)
    return cache
"""


def _foreign_stores(fn):
    """attribute stores / setattr on an object that came in as an argument (the name of a parameter, or a local bound only from one)"""
    a = fn.args
    roots = {p.arg for p in a.posonlyargs + a.args + a.kwonlyargs} - {"self", "cls"}
    if a.vararg:
        roots.add(a.vararg.arg)
    # locals that alias an argument or something reached from it: x = param / x = param.attr / for x in param.attr
    changed = True
    while changed:
        changed = False
        for n in walk_no_nested(fn):
            tv = []
            if isinstance(n, ast.Assign) and len(n.targets) == 1 and isinstance(n.targets[0], ast.Name):
                tv = [(n.targets[0].id, n.value)]
            elif isinstance(n, ast.For) and isinstance(n.target, ast.Name):
                tv = [(n.target.id, n.iter)]
            for name, v in tv:
                b = v
                while isinstance(b, (ast.Attribute, ast.Subscript)):
                    b = b.value
                if isinstance(b, ast.Name) and b.id in roots and name not in roots:
                    roots.add(name)
                    changed = True
    out = []
    for n in walk_no_nested(fn):
        tg = []
        if isinstance(n, ast.Assign):
            tg = n.targets
        elif isinstance(n, (ast.AugAssign, ast.AnnAssign)):
            tg = [n.target]
        for x in tg:
            if isinstance(x, ast.Attribute):
                b = x.value
                while isinstance(b, (ast.Attribute, ast.Subscript)):
                    b = b.value
                if isinstance(b, ast.Name) and b.id in roots:
                    out.append((n, src(x)))
        if isinstance(n, ast.Call) and call_name(n) == "setattr" and n.args:
            b = n.args[0]
            while isinstance(b, (ast.Attribute, ast.Subscript)):
                b = b.value
            if isinstance(b, ast.Name) and b.id in roots:
                out.append((n, "setattr(%s, ...)" % src(n.args[0])))
    return out


_OBJ_PARAMS = {"topology", "top", "traj", "trajectory", "target", "reference"}
_MEMO_CONTROL = """
@functools.lru_cache(maxsize=8)
def f(topology, flag):
    return hash(topology)
"""


def _object_keyed_memo(fn):
    """(node, description) for a memoising decorator on a function that takes a Topology / Trajectory, and for hash(<such an argument>)"""
    out = []
    ps = {a.arg for a in fn.args.posonlyargs + fn.args.args + fn.args.kwonlyargs}
    objs = ps & _OBJ_PARAMS
    if not objs:
        return out
    for d in fn.decorator_list:
        nm = call_name(d) if isinstance(d, ast.Call) else dotted(d)
        if nm and nm.split(".")[-1] in ("lru_cache", "cache", "memoize", "memoized", "cached"):
            out.append((d, "@%s on %s(%s, ...)" % (nm, fn.name, sorted(objs)[0])))
    for n in walk_no_nested(fn):
        if isinstance(n, ast.Call) and call_name(n) == "hash" and n.args:
            root = n.args[0]
            while isinstance(root, (ast.Attribute, ast.Subscript)):
                root = root.value
            if isinstance(root, ast.Name) and root.id in objs:
                out.append((n, "`%s` in %s" % (src(n), fn.name)))
    return out


def no_foreign_attribute_stores(ctx, rule, rels, floor=1):
    """An analysis function must not park derived data on the objects it is given (`top._cache = ...`): the owner's mutators cannot
    invalidate a field they do not know, so a later call on the edited object answers from the old state.  Expected count is zero;
    the detector is exercised on a built-in positive example on every run."""
    ctl = ast.parse(_FOREIGN_CONTROL).body[0]
    if len(_foreign_stores(ctl)) != 1:
        raise AnalysisError("no_foreign_attribute_stores: the built-in positive example is no longer recognised")
    if len(_object_keyed_memo(ast.parse(_MEMO_CONTROL).body[0])) != 2:
        raise AnalysisError("no_foreign_attribute_stores: the built-in positive example of an object-keyed memo is no longer recognised")
    n_fn = 0
    for rel in rels:
        m = ctx.py.mod(rel)
        ctx.analysed_files.add(rel)
        seen = set()
        bad = []
        memo = []
        for q, fn in sorted(m.functions.items()):
            if id(fn) in seen:
                continue
            seen.add(id(fn))
            n_fn += 1
            for node, what in _foreign_stores(fn):
                bad.append((q, node, what))
            for node, what in _object_keyed_memo(fn):
                memo.append((q, node, what))
        ctx.decide(not bad, rule, bad[0][1] if bad else m.tree, rel, bad[0][0] if bad else "<module>", "no function stores attributes on its arguments (%d functions)" % len(seen), "",
                   "`%s` is stored on an object passed in by the caller: a memo kept on a Topology / Trajectory outside its class is never invalidated when the object is edited" % (bad[0][2] if bad else ""))
        ctx.decide(not memo, rule, memo[0][1] if memo else m.tree, rel, memo[0][0] if memo else "<module>", "no result is memoised under the hash of a Topology / Trajectory argument (%d functions)" % len(seen), "",
                   "%s: the hash of a Topology covers indices, residue names and bonds but not atom names or elements (and `is` short-cuts its comparison), so after an in-place edit - or for another topology with the same hash - "
                   "the answer computed for the earlier object is returned" % (memo[0][2] if memo else ""))
    if n_fn < floor:
        raise AnalysisError("no_foreign_attribute_stores: %d functions in %s" % (n_fn, rels))


# ---------------------------------------------------------------------------------------------------
def dispatch_eval(ctx, rule, funcs):
    """The geometry dispatchers evaluated (sa/tensym.py) on a model trajectory for every combination of (periodic truthy / falsy, cell present
    / absent, opt): exactly one kernel is called; with periodic and a cell it is a minimum-image kernel that receives the coordinates, the
    indices, the box with box[f] = unitcell_vectors[f] transposed and - for the compiled kernels and the box-taking references - the flag
    np.allclose(<cell angles of every frame>, 90); otherwise the plain kernel without a box (or the reference that is handed the trajectory
    and the caller's `periodic`).  What is returned is the array the kernel filled, or the reference's result."""
    from ..tensym import TenSym, Ten, Obj, Unsupported as TUnsupported, ShapeError
    from ..poly import Poly, Rat
    F_, A_ = 2, 5
    for rel, q in funcs:
        fn = ctx.py.func(rel, q)
        ctx.analysed_functions.add(rel + ":" + q)
        ps = params(fn)
        mod = ctx.py.mod(rel)
        # the kernels this function can call: compiled ones (_geometry.*) and the module's own reference implementations (_name)
        # (a module function is a kernel when it takes the index array; other private functions are helpers and are evaluated from their source)
        INDEX_PARAMS = {"atom_pairs", "pairs", "angle_indices", "indices", "triplets", "quartets", "time_pairs", "times"}
        knames = sorted({call_name(c) for c in ast.walk(fn) if isinstance(c, ast.Call) and call_name(c) and (call_name(c).startswith("_geometry.") or (
            call_name(c).startswith("_") and call_name(c) in mod.functions and INDEX_PARAMS & set(params(mod.functions[call_name(c)]))))})
        width = {"angle_indices": 3, "indices": 4}.get(ps[1], 2)
        idx = Ten((2, width), [Rat(Poly.const(v)) for v in ([0, 1, 2, 3][:width] + [1, 2, 3, 4][:width])])
        problems = []
        undecided = []
        n_cfg = 0
        for periodic in (True, 1, False, 0):
            for cell in (True, False):
                for opt in (True, False):
                    n_cfg += 1
                    xyz = Ten.sym("x", (F_, A_, 3))
                    box = Ten.sym("box", (F_, 3, 3)) if cell else None
                    ang = Ten.sym("ang", (F_, 3)) if cell else None
                    traj = Obj(xyz=xyz, _xyz=xyz, unitcell_vectors=box, unitcell_angles=ang, _have_unitcell=cell, n_atoms=A_, n_frames=F_,
                               unitcell_lengths=Ten.sym("len", (F_, 3)) if cell else None, unitcell_volumes=Ten.sym("vol", (F_,)) if cell else None)
                    calls = []
                    flags = []

                    def rec(name):
                        def f(ev_, call):
                            args = [ev_.ex(a) for a in call.args]
                            res = Ten.sym("ret_" + name.replace(".", "_"), (F_, 2))
                            calls.append((name, args, res))
                            return None if name.startswith("_geometry.") else res
                        return f

                    def allclose(ev_, call):
                        a0, a1 = ev_.ex(call.args[0]), ev_.ex(call.args[1])
                        flag = Obj(tag="orthogonal", of=a0, ref=a1, extra=[src(x) for x in call.args[2:]] + ["%s=%s" % (k.arg, src(k.value)) for k in call.keywords])
                        flags.append(flag)
                        return flag

                    def to_angles(ev_, call):
                        v = ev_.call_args(call)[0]
                        import re as _re
                        m = _re.match(r"box\[(\d+),", repr(v.data[0])) if isinstance(v, Ten) else None
                        f_ = int(m.group(1)) if m else -1
                        return tuple([Rat(Poly.var("len[%d,%d]" % (f_, k))) for k in range(3)] + [Rat(Poly.var("ang[%d,%d]" % (f_, k))) for k in range(3)])
                    models = {k: rec(k) for k in knames}
                    models.update({"np.allclose": allclose, "box_vectors_to_lengths_and_angles": to_angles})
                    ev = TenSym({}, models=models)
                    given = {ps[1]: Ten(idx.shape, idx.data), "periodic": periodic, "opt": opt}
                    if ps[0] in ("traj", "trajectory"):
                        given[ps[0]] = traj
                    else:
                        given[ps[0]] = xyz
                        if "unitcell_vectors" in ps:
                            given["unitcell_vectors"] = box
                    if "time_pairs" in ps:
                        given["time_pairs"] = Ten((2, 2), [Rat(Poly.const(v)) for v in (0, 0, 1, 0)])     # the second column alone does not reach every frame
                    tagc = "periodic=%r, cell %s, opt=%s" % (periodic, "present" if cell else "absent", opt)
                    try:
                        got = ev.run_fn(fn, **given)
                    except ShapeError as e:
                        problems.append("%s: array operations do not fit: %s" % (tagc, e))
                        continue
                    except TUnsupported as e:
                        undecided.append("%s: %s" % (tagc, e))
                        continue
                    if len(calls) != 1:
                        problems.append("%s: %d kernels called (%s)" % (tagc, len(calls), [c[0] for c in calls]))
                        continue
                    name, args, res = calls[0]
                    mic = bool(periodic) and cell
                    takes_traj = any(a is traj for a in args)
                    boxes = [a for a in args if isinstance(a, Ten) and a.shape == (F_, 3, 3) and "box" in repr(a.data[0])]
                    if opt != name.startswith("_geometry."):
                        problems.append("%s: %s is called (opt selects the compiled kernel, opt=False the reference)" % (tagc, name))
                    if takes_traj:
                        # a reference that looks at the trajectory itself: it must be told the caller's choice
                        if not any(a is periodic for a in args):
                            problems.append("%s: %s is handed the trajectory but not the caller's `periodic`" % (tagc, name))
                    elif mic:
                        if "mic" not in name:
                            problems.append("%s: the plain kernel %s is called although a cell is present and periodic is true" % (tagc, name))
                        if len(boxes) != 1 or ev.first_difference(boxes[0], box.transpose((0, 2, 1))) is not None:
                            problems.append("%s: %s does not receive the box as unitcell_vectors[f] transposed" % (tagc, name))
                        fl = [a for a in args if isinstance(a, Obj) and getattr(a, "tag", None) == "orthogonal"]
                        if len(fl) != 1:
                            problems.append("%s: %s does not receive the orthogonal flag" % (tagc, name))
                        else:
                            of = fl[0].of
                            names_ = sorted(repr(x) for x in ev.to_ten(of).data) if isinstance(of, (Ten, list, tuple)) else []
                            want_ = sorted("ang[%d,%d]" % (f_, k) for f_ in range(F_) for k in range(3))
                            if fl[0].extra:
                                problems.append("%s: the orthogonal flag is computed with non-default tolerances (%s): cells that are not rectangular are sent through the rectangular kernel" % (tagc, ", ".join(fl[0].extra)))
                            if names_ != want_ or ev.pyval(fl[0].ref) != 90:
                                problems.append("%s: the orthogonal flag is allclose(%s, %s); it must look at the three angles of every frame" % (tagc, names_[:4], fl[0].ref))
                    else:
                        if "mic" in name or boxes:
                            problems.append("%s: %s is called%s although %s" % (tagc, name, " with a box" if boxes else "", "periodic is false" if cell else "there is no cell"))
                    if not any(isinstance(a, Ten) and ev.first_difference(a, xyz) is None for a in args) and not takes_traj:
                        problems.append("%s: %s does not receive the coordinates" % (tagc, name))
                    if not any(isinstance(a, Ten) and a.shape == idx.shape and ev.first_difference(a, idx) is None for a in args):
                        problems.append("%s: %s does not receive the index array" % (tagc, name))
                    outs = [a for a in args if isinstance(a, Ten) and not a.view and a is got]
                    same_buffer = isinstance(got, Ten) and any(isinstance(a, Ten) and len(a.data) == len(got.data) and "undef#" in repr(a.data[0]) and all(repr(x) == repr(y) for x, y in zip(a.data, got.data)) for a in args)
                    if not (got is res or outs or same_buffer):
                        problems.append("%s: the value returned is neither the array %s filled nor its result" % (tagc, name))
        if undecided and not problems:
            ctx.undecided(rule, fn, rel, q, "dispatch over periodic x cell x opt", "not evaluable: " + "; ".join(undecided[:2]))
            continue
        ctx.decide(not problems, rule, fn, rel, q, "dispatch over periodic x cell x opt (%d configurations, kernels %s)" % (n_cfg, ", ".join(k.replace("_geometry.", "") for k in knames)), "",
                   "; ".join(problems[:3]) + (" (+%d more)" % (len(problems) - 3) if len(problems) > 3 else ""))
