"""C06  RMSD is the optimal-superposition RMSD and superpose attains it (structural / algebraic part).

R1 the prange and the serial branch of every `if parallel` pair in _rmsd.pyx run the same loop body over the same index sets
R2 Trajectory.superpose protocol (same float64 offset for alignment and displaced atoms, traces after centring, argument roles, reference offset added back, stored through the xyz setter)
R3 cached traces are read only under precentered & both caches present & no atom selection; otherwise both structures are centred and traced by the C kernel
R4 QCP algebra of msdFromMandG by algebraic value numbering: K(M), det(K - lambda I) = lambda^4 + C2 lambda^2 + C1 lambda + C0, msd = (Ga+Gb-2 lambda)/N clamped at 0,
   lambda = largest root, q = cofactors of row 0 of K - lambda I, R(q) is a proper rotation, and  sum_ij Rapplied_ij M_ji = q^T K q  (the rotation maximises the overlap of the structure it is applied to)
R5 the compiled (SSE) kernels compute what R4 assumes: M[3i+j] = sum_atoms a_i b_j for every remainder of n mod 4, rot_atom_major / rot_msd_atom_major apply x' = x R in vector and tail loops,
   centring subtracts the float64 mean of every coordinate and the trace is the sum of squares of the centred coordinates
R6 call sites in _rmsd.pyx: the rotated array and the first structure handed to msd_atom_major are the same frame, traces belong to the two frames, computeRot <-> rot buffer, sqrt of the msd; the rotated buffer is centred
"""
from __future__ import annotations

import ast
import re

from ..core import AnalysisError
from .. import cfront as C
from ..pyfront import dotted, call_name, kwarg, params, src, walk_no_nested, const
from ..poly import Poly, Rat, det, cofactor
from ..symval import SymExec, State, Ptr, Vec, Unsupported

EXPLANATION = (
    'Trajectory.superpose is evaluated as a whole (sa/tensym.py, views share memory) on model trajectories: all atoms / a selection / an explicit array of all atoms / distinct reference atoms, reference another trajectory or the trajectory itself; what reaches the kernel in each role (roles read off the kernel wrapper), what self.xyz is afterwards, cached traces dropped.  Further: '
    "Optimality over the rotation group is a numerical statement, but the QCP algorithm reaches it through exact polynomial identities, and those are decided here for all inputs by algebraic value "
    "numbering of the C sources (every computed scalar and SIMD lane expanded into a polynomial normal form over the inputs; no execution, no solver): the key matrix K built from the inner-product "
    "matrix M, its characteristic polynomial and the coefficients handed to the quartic solver, the msd formula, the eigenvector as cofactors of K - lambda I, the rotation matrix as a proper rotation, "
    "and the identity tying rotation convention, matrix layout and kernel argument order together (sum_ij R_ij M_ji = q^T K q). The SSE kernels are evaluated lane by lane including the masked tail "
    "iteration. The closed-form solvers behind lambda_max are decided algebraically as well: each root expression of the Cardano / trigonometric / repeated-root cases and of Ferrari's method is "
    "substituted into its polynomial and reduced to zero modulo the relations of the radicals on that path (16 paths of the quartic, 3 of the cubic), and every sqrt / acos / cube root / division is shown to "
    "be evaluated under conditions that keep its argument in the domain. On top: prange/serial branch equality, the superpose protocol, validity of the cached traces and the roles of the arrays at every kernel call site of _rmsd.pyx.")
NOT_DECIDED = ["float32 rounding, conditioning of the quartic solver and of the adjugate near degenerate eigenvalues", "floating-point accuracy of the closed-form cubic / quartic solvers (their algebra - every reported root is a root, every radical is taken inside its domain - is decided, R7/R8)",
               "that D2 and E2 are non-negative for the characteristic polynomial of the symmetric K (all four roots real): DirectSolve takes the maximum over r1..r4 without looking at nr12/nr34",
               "sqrt(u1^2 - 4 a0) in the R = 0 case of the quartic solver has no guard", "lprmsd (permutation search)"]
ASSUMPTIONS = ["exact real arithmetic for the identities", "cos(3t) = 4 cos(t)^3 - 3 cos(t); cbrt(u) cbrt(v) = cbrt(uv) for real cube roots; sqrt(u^3) = sqrt(u)^3 for u >= 0; "
               "delta = q^3 + r^2 < 0 implies q < 0 and |r| < sqrt(-q^3)", "lane semantics of the SSE intrinsics as tabulated in sa/symval.py",
               "largest eigenvalue of K gives the optimal rotation (Theobald 2005; Horn 1987)"]
FLOORS = {"C06-R1": 8, "C06-R2": 10, "C06-R3": 8, "C06-R4": 30, "C06-R5": 20, "C06-R6": 20, "C06-R7": 12, "C06-R8": 12}

PYX = "mdtraj/rmsd/_rmsd.pyx"
TRAJ = "mdtraj/core/trajectory.py"
TH = "mdtraj/rmsd/src/theobald_rmsd.cpp"
ROT = "mdtraj/rmsd/src/rotation.cpp"
CEN = "mdtraj/rmsd/src/center.cpp"


def check(ctx):
    ctx.rule("C06-R1", "for every `if parallel` pair the prange nest and the range nest have the same innermost body and the same set of (loop variable, bound) pairs")
    ctx.rule("C06-R2", "superpose: offset = float64 mean of the alignment atoms, subtracted from alignment and displaced coordinates; traces computed after centring; "
                       "superpose_atom_major(ref_align, self_align, ref_g, self_g, self_displace, 0); reference offset added back; result assigned through self.xyz")
    ctx.rule("C06-R3", "`_rmsd_traces` is read only under `precentered and reference._rmsd_traces is not None and target._rmsd_traces is not None and atom_indices_is_none`; the other branch centres and traces both structures")
    ctx.rule("C06-R4", "QCP identities hold as polynomial identities (see module docstring)")
    ctx.rule("C06-R5", "compiled kernels: M[3i+j] = sum a_i b_j for n mod 4 in {0,1,2,3}; x' = x R; centring by the float64 mean; trace = sum of squares of centred coordinates")
    ctx.rule("C06-R6", "kernel call sites: roles and frame indices of the arrays, traces, computeRot/rot, sqrt; rotation is applied to centred coordinates")
    r1(ctx)
    r2(ctx)
    r3(ctx)
    facts = r4(ctx)
    r5(ctx, facts)
    r6(ctx)
    ctx.rule("C06-R7", "every sqrt / acos / pow(.,1/3) / division of the closed-form cubic and quartic solvers is evaluated only where the conditions on its path put the argument inside the function's domain")
    r7_partial_functions(ctx)
    ctx.rule("C06-R8", "the closed-form solvers return roots: each returned expression substituted into the cubic / quartic vanishes modulo the relations of its radicals, the triple-angle identity and the resolvent cubic")
    r8_closed_form_roots(ctx)


# ---------------------------------------------------------------------------------------------------
def _nest(loop):
    """[(var, bound-src)...], innermost body statements"""
    vars_ = []
    cur = loop
    while True:
        it = cur.iter
        bound = src(it.args[0]) if isinstance(it, ast.Call) and it.args else src(it)
        vars_.append((dotted(cur.target), bound, call_name(it) if isinstance(it, ast.Call) else "?"))
        if len(cur.body) == 1 and isinstance(cur.body[0], ast.For):
            cur = cur.body[0]
            continue
        return vars_, cur.body


def r1(ctx):
    m = ctx.py.mod(PYX)
    n_pairs = 0
    for q in ("rmsd", "rmsf", "getMultipleRMSDs_axis_major", "getMultipleRMSDs_atom_major", "superpose_atom_major", "getMultipleAlignDisplaceRMSDs_atom_major"):
        fn = ctx.py.func(PYX, q)
        ctx.analysed_functions.add(PYX + ":" + q)
        for n in walk_no_nested(fn):
            if not (isinstance(n, ast.If) and re.sub(r"\s", "", src(n.test)) in ("parallel", "parallel==True", "parallelisTrue")):
                continue
            pl = [s for s in n.body if isinstance(s, ast.For)]
            sl = [s for s in n.orelse if isinstance(s, ast.For)]
            if len(pl) != 1 or len(sl) != 1 or len(n.body) != 1 or len(n.orelse) != 1:
                ctx.undecided("C06-R1", n, PYX, q, "if parallel pair", "branches are not single loops")
                continue
            n_pairs += 1
            pv, pb = _nest(pl[0])
            sv, sb = _nest(sl[0])
            same_body = [ast.dump(x) for x in pb] == [ast.dump(x) for x in sb]
            same_sets = sorted((v, b) for v, b, _ in pv) == sorted((v, b) for v, b, _ in sv)
            outer_is_prange = pv[0][2] == "prange" and all(k == "range" for _, _, k in pv[1:]) and all(k == "range" for _, _, k in sv)
            ctx.decide(same_body and same_sets and outer_is_prange, "C06-R1", n, PYX, q, "prange / range branches at line %d compute the same" % n.lineno,
                       "loops %s" % [(v, b) for v, b, _ in pv],
                       "the parallel and the serial branch differ (same body: %s, same index sets: %s; parallel nest %s, serial nest %s): the result depends on the `parallel` flag"
                       % (same_body, same_sets, pv, sv))
    if n_pairs < 8:
        raise AnalysisError("only %d `if parallel` pairs found in _rmsd.pyx (expected 8)" % n_pairs)


# ---------------------------------------------------------------------------------------------------
def _kernel_roles(ctx):
    """position of each role in the signature of _rmsd.superpose_atom_major, read off what its loop body does with the parameters:
    msd_atom_major(n, n, &MOBILE[i,0,0], &TARGET[frame,0,0], G[frame], G[i], 1, rot) ; rot_atom_major(n, &DISPLACE[i,0,0], rot)"""
    fn = ctx.py.func(PYX, "superpose_atom_major")
    sig = params(fn)
    roles = None
    for loop in [n for n in ast.walk(fn) if isinstance(n, ast.For)]:
        lv = dotted(loop.target)
        msd = [c for s_ in loop.body for c in ast.walk(s_) if isinstance(c, ast.Call) and call_name(c) == "msd_atom_major"]
        rot = [c for s_ in loop.body for c in ast.walk(s_) if isinstance(c, ast.Call) and call_name(c) == "rot_atom_major"]
        if len(msd) != 1 or len(rot) != 1:
            continue
        A, ia = _first_index(msd[0].args[2])
        B, ib = _first_index(msd[0].args[3])
        g1, i1 = _first_index(msd[0].args[4])
        g2, i2 = _first_index(msd[0].args[5])
        D, idd = _first_index(rot[0].args[1])
        if ia != lv or idd != lv or ib == lv or ib not in sig:
            continue
        gm, gt = (g1, g2) if i1 == lv else (g2, g1)
        r_ = {"mobile": A, "target": B, "g_mobile": gm, "g_target": gt, "displace": D, "frame": ib}
        if any(v not in sig for v in r_.values()):
            continue
        r_ = {k: sig.index(v) for k, v in r_.items()}
        if roles is not None and roles != r_:
            raise AnalysisError("the parallel and serial loops of superpose_atom_major use their parameters differently: %s / %s" % (roles, r_))
        roles = r_
    if roles is None or len(set(roles.values())) != 6:
        raise AnalysisError("roles of the parameters of _rmsd.superpose_atom_major not recognised")
    par = sig.index("parallel") if "parallel" in sig else None
    return roles, sig, par


def r2(ctx):
    """Trajectory.superpose evaluated as a whole (sa/tensym.py) on 2 frames x 4 atoms with views and in-place updates modelled: what reaches
    the kernel in each role and what self.xyz is afterwards, for all atoms / a selection and for an external reference / the trajectory itself."""
    from ..tensym import TenSym, Ten, Obj
    from ..pysym import Unsupported as PUnsupported
    fn = ctx.py.func(TRAJ, "Trajectory.superpose")
    ctx.analysed_functions.add(TRAJ + ":Trajectory.superpose")
    q = "Trajectory.superpose"
    try:
        roles, sig, par_pos = _kernel_roles(ctx)
    except AnalysisError as e:
        ctx.undecided("C06-R2", fn, TRAJ, q, "roles of the kernel's parameters", str(e))
        return
    F_, N_ = 2, 4
    frame = 1

    def run(atom_indices, ref_is_self, parallel, ref_idx=None, frame=1):
        # `xyz` is a property of the class: reads go to _xyz, the setter also drops the cached traces (read off the class by C03-R3)
        def set_xyz(s_, v):
            s_._xyz = v
            s_._rmsd_traces = None

        def mk(name, traces):
            return Obj(tag=name, _xyz=Ten.sym(name, (F_, N_, 3)), _rmsd_traces=traces, _getters={"xyz": lambda s_: s_._xyz}, _setters={"xyz": set_xyz}, _lenient=True)
        me = mk("x", Ten.sym("stale_traces", (F_,)))
        ref = me if ref_is_self else mk("r", None)
        rec = {}

        def kernel(ev, call):
            args = [ev.ex(a_) for a_ in call.args]
            kws = {k.arg: ev.ex(k.value) for k in call.keywords}
            full = {}
            for i_, v in enumerate(args):
                full[i_] = v
            for k, v in kws.items():
                if k in sig:
                    full[sig.index(k)] = v
            rec["n_calls"] = rec.get("n_calls", 0) + 1
            rec["at_call"] = {role: (Ten(full[p_].shape, list(full[p_].data)) if isinstance(full.get(p_), Ten) else full.get(p_)) for role, p_ in roles.items()}
            rec["parallel"] = full.get(par_pos) if par_pos is not None else None
            disp = full.get(roles["displace"])
            if not (isinstance(disp, Ten) and disp.ndim == 3 and disp.shape[2] == 3):
                raise PUnsupported("the displaced argument of the kernel is not an (n_frames, n_atoms, 3) array")
            # the kernel rotates every frame of the displaced array in place: frame f by its own matrix R_f
            new = []
            for f in range(disp.shape[0]):
                R = [[Rat(Poly.var("R%d_%d%d" % (f, i_, j_))) for j_ in range(3)] for i_ in range(3)]
                for a_ in range(disp.shape[1]):
                    v = [disp.data[(f * disp.shape[1] + a_) * 3 + k] for k in range(3)]
                    for i_ in range(3):
                        new.append(R[i_][0] * v[0] + R[i_][1] * v[1] + R[i_][2] * v[2])
            disp.data[:] = new
            return None
        ts = TenSym(models={"_rmsd.superpose_atom_major": kernel})
        x0 = Ten.sym("x", (F_, N_, 3))
        r0 = x0 if ref_is_self else Ten.sym("r", (F_, N_, 3))
        ts.run_fn(fn, self=me, reference=ref, frame=frame, atom_indices=atom_indices, ref_atom_indices=ref_idx, parallel=parallel)
        return ts, me, rec, x0, r0

    def at(t, f, a_, k):
        return t.data[(f * t.shape[1] + a_) * 3 + k]
    # an explicit index array that lists every atom (in order, permuted) is a copy, not a view, of self.xyz: both arrays must then be centred
    configs = [(None, None, False, 1), (None, None, True, 1), ([1, 3], None, False, 1), ([1, 3], None, True, 1), ([1, 3], [0, 2], False, 0),
               ([0, 1, 2, 3], None, False, 1), ([3, 1, 2, 0], None, True, 1), ([1, 3], [0, 2], True, 1)]
    if ctx.tier == "thorough":
        configs += [([0], None, True, 0), ([0, 1, 2, 3], [3, 2, 1, 0], False, 1), (None, None, True, 0)]
    for atom_indices, ref_idx, ref_is_self, frame in configs:
        for _once in (0,):
            cfg_ = "atoms %s%s, reference %s, frame %d" % ("all" if atom_indices is None else atom_indices, "" if ref_idx is None else " onto reference atoms %s" % ref_idx,
                                                     "= the trajectory itself" if ref_is_self else "another trajectory", frame)
            try:
                ts, me, rec, x0, r0 = run(atom_indices, ref_is_self, "PAR", ref_idx, frame)
            except PUnsupported as e:
                ctx.undecided("C06-R2", fn, TRAJ, q, cfg_, "superpose not evaluable: %s" % e)
                continue
            if rec.get("n_calls") != 1:
                ctx.violated("C06-R2", fn, TRAJ, q, cfg_ + ": one kernel call", "_rmsd.superpose_atom_major is called %s times" % rec.get("n_calls", 0))
                continue
            idx = list(range(N_)) if atom_indices is None else atom_indices
            n = len(idx)
            inv = Rat(Poly.const(1)) / n
            mean = [[sum((at(x0, f, a_, k) for a_ in idx), Rat(Poly.const(0))) * inv for k in range(3)] for f in range(F_)]
            ridx = idx if ref_idx is None else ref_idx
            rmean = [sum((at(r0, frame, a_, k) for a_ in ridx), Rat(Poly.const(0))) * inv for k in range(3)]
            want = {
                "mobile": Ten((F_, n, 3), [at(x0, f, a_, k) - mean[f][k] for f in range(F_) for a_ in idx for k in range(3)]),
                "target": Ten((1, n, 3), [at(r0, frame, a_, k) - rmean[k] for a_ in ridx for k in range(3)]),
                "displace": Ten((F_, N_, 3), [at(x0, f, a_, k) - mean[f][k] for f in range(F_) for a_ in range(N_) for k in range(3)]),
            }
            want["g_mobile"] = Ten((F_,), [sum((e * e for e in want["mobile"].data[f * n * 3:(f + 1) * n * 3]), Rat(Poly.const(0))) for f in range(F_)])
            want["g_target"] = Ten((1,), [sum((e * e for e in want["target"].data), Rat(Poly.const(0)))])
            text = {"mobile": "alignment coordinates = the selected atoms of self.xyz minus their per-frame mean",
                    "target": "reference = the selected atoms of frame `frame` of the reference, as they were before anything was moved, minus their mean",
                    "displace": "displaced coordinates = all atoms of self.xyz minus the per-frame mean of the alignment atoms",
                    "g_mobile": "trace of the mobile frames = sum of squares of the centred alignment coordinates",
                    "g_target": "trace of the reference = sum of squares of the centred reference"}
            for role in ("mobile", "target", "displace", "g_mobile", "g_target"):
                got = rec["at_call"].get(role)
                ok = isinstance(got, Ten) and got.shape == want[role].shape and ts.equal(got, want[role])
                why = ""
                if not ok:
                    why = "kernel argument `%s` is %s" % (sig[roles[role]], ("of shape %s, expected %s" % (got.shape, want[role].shape)) if isinstance(got, Ten) and got.shape != want[role].shape
                                                         else ("not an array" if not isinstance(got, Ten) else ts.first_difference(got, want[role])))
                    if role == "target" and ref_is_self:
                        why += " - with reference = self the frame must be copied before the mobile coordinates are centred in place (they are views of self.xyz)"
                ctx.decide(ok, "C06-R2", fn, TRAJ, q, "%s: %s" % (cfg_, text[role]), "", why)
            fr = rec["at_call"].get("frame")
            frc = fr.const_value() if hasattr(fr, "const_value") else fr
            ctx.decide(frc == 0, "C06-R2", fn, TRAJ, q, "%s: target_frame = 0 (the reference handed over has one frame)" % cfg_, "", "target_frame is %r" % (fr,))
            ctx.decide(rec.get("parallel") == "PAR", "C06-R2", fn, TRAJ, q, "%s: the `parallel` argument is passed on" % cfg_, "", "the kernel receives parallel=%r" % (rec.get("parallel"),))
            final = me._xyz
            wf = []
            for f in range(F_):
                R = [[Rat(Poly.var("R%d_%d%d" % (f, i_, j_))) for j_ in range(3)] for i_ in range(3)]
                for a_ in range(N_):
                    v = [at(x0, f, a_, k) - mean[f][k] for k in range(3)]
                    for i_ in range(3):
                        wf.append(R[i_][0] * v[0] + R[i_][1] * v[1] + R[i_][2] * v[2] + rmean[i_])
            wf = Ten((F_, N_, 3), wf)
            ok = isinstance(final, Ten) and final.shape == wf.shape and ts.equal(final, wf)
            ctx.decide(me._rmsd_traces is None, "C06-R2", fn, TRAJ, q, "%s: the cached traces of the old coordinates are dropped" % cfg_, "",
                       "self._rmsd_traces still holds the traces of the coordinates before the superposition (the result is stored without going through the xyz setter): "
                       "a later rmsd(..., precentered=True) uses them with the moved coordinates")
            final = me._xyz
            ctx.decide(ok, "C06-R2", fn, TRAJ, q, "%s: self.xyz = R_f (x - centroid_f) + centroid of the reference" % cfg_, "",
                       "self.xyz afterwards: %s" % (ts.first_difference(final, wf) if isinstance(final, Ten) and final.shape == wf.shape else "not an array of the original shape"))
    # every mean taken in superpose accumulates in float64 (float32 sums over thousands of atoms lose the centroid)
    n_means = 0
    for c in walk_no_nested(fn):
        if isinstance(c, ast.Call) and ((call_name(c) or "").split(".")[-1] == "mean" or (isinstance(c.func, ast.Attribute) and c.func.attr == "mean")):
            n_means += 1
            dt = kwarg(c, "dtype")
            f64 = lambda e: e is not None and (src(e).replace('"', "'") in ("np.float64", "'float64'", "float", "np.double", "numpy.float64"))   # noqa: E731
            recv = c.func.value if isinstance(c.func, ast.Attribute) else None
            via_cast = isinstance(recv, ast.Call) and isinstance(recv.func, ast.Attribute) and recv.func.attr == "astype" and recv.args and f64(recv.args[0])
            ctx.decide(f64(dt) or via_cast, "C06-R2", c, TRAJ, q, "mean `%s` accumulates in float64" % src(c)[:50], "",
                       "the centroid `%s` is accumulated in the array's own float32 precision" % src(c)[:70])
    if n_means < 2:
        ctx.undecided("C06-R2", fn, TRAJ, q, "float64 means", "only %d mean() calls found in superpose" % n_means)


# ---------------------------------------------------------------------------------------------------
def r3(ctx):
    for q in ("rmsd", "rmsf"):
        fn = ctx.py.func(PYX, q)
        reads = [n for n in ast.walk(fn) if isinstance(n, ast.Attribute) and n.attr == "_rmsd_traces"]
        guard = [n for n in walk_no_nested(fn) if isinstance(n, ast.If) and "_rmsd_traces" in src(n.test)]
        if len(guard) != 1:
            ctx.violated("C06-R3", fn, PYX, q, "single guard on _rmsd_traces", "expected one `if` testing the cached traces, found %d" % len(guard))
            continue
        g = guard[0]
        conj = sorted(re.sub(r"[\s()]", "", src(v)) for v in g.test.values) if isinstance(g.test, ast.BoolOp) and isinstance(g.test.op, ast.And) else []
        want = sorted(["precentered", "reference._rmsd_tracesisnotNone", "target._rmsd_tracesisnotNone", "atom_indices_is_none"])
        ctx.decide(conj == want, "C06-R3", g, PYX, q, "traces used iff precentered & both caches present & no atom selection", "",
                   "the cached traces are used under `%s`: with an atom selection or a missing cache the stored traces do not describe the coordinates handed to the kernel" % src(g.test))
        inside = {id(n) for s in [g.test] + g.body for n in ast.walk(s)}
        outside = [n for n in reads if id(n) not in inside]
        ctx.decide(not outside, "C06-R3", outside[0] if outside else g, PYX, q, "no read of _rmsd_traces outside the guarded branch (%d reads)" % len(reads), "", "_rmsd_traces is read outside the guard")
        calls = [c for s in g.orelse for c in ast.walk(s) if isinstance(c, ast.Call) and call_name(c) == "inplace_center_and_trace_atom_major"]
        got = [[re.sub(r"\s", "", src(a)) for a in c.args] for c in calls]
        want2 = [["target_xyz[0,0,0]", "target_g[0]", "target_n_frames", "n_atoms"], ["ref_xyz_frame[0,0]", "ref_g", "1", "n_atoms"]]
        ctx.decide(got == want2, "C06-R3", calls[0] if calls else g, PYX, q, "otherwise both structures are centred and traced (n_frames, 1)", "", "centring calls are %s" % got)
        setters = [n for n in walk_no_nested(fn) if isinstance(n, ast.Assign) and dotted(n.targets[0]) == "atom_indices_is_none" and const(n.value) is True]
        okp = len(setters) == 1
        if okp:
            par = [n for n in walk_no_nested(fn) if isinstance(n, ast.If) and setters[0] in n.body]
            okp = bool(par) and re.sub(r"\s", "", src(par[0].test)) == "atom_indicesisNone"
        ctx.decide(okp, "C06-R3", setters[0] if setters else fn, PYX, q, "atom_indices_is_none set only when atom_indices is None", "", "the flag `atom_indices_is_none` is set elsewhere")
    # the cache is produced by the same kernel on all atoms
    cc = ctx.py.func(TRAJ, "Trajectory.center_coordinates")
    s = re.sub(r"\s", "", src(cc))
    ok = "self._rmsd_traces=_rmsd._center_inplace_atom_major(self._xyz)" in s
    ctx.decide(ok, "C06-R3", cc, TRAJ, "Trajectory.center_coordinates", "cache = traces returned by the centring kernel on self._xyz", "", "the cached traces are not what _center_inplace_atom_major returns for self._xyz")
    ci = ctx.py.func(PYX, "_center_inplace_atom_major")
    s = re.sub(r"\s", "", src(ci))
    ok = "inplace_center_and_trace_atom_major(xyz[0,0,0],traces[0],xyz.shape[0],xyz.shape[1])" in s and "returnnp.array(traces,copy=False)" in s
    ctx.decide(ok, "C06-R3", ci, PYX, "_center_inplace_atom_major", "centres all atoms of every frame and returns the traces", "", "_center_inplace_atom_major changed")


# ---------------------------------------------------------------------------------------------------
def _sym(name):
    return Rat(Poly.var(name))


def r4(ctx):
    cf = C.get(ctx.repo)
    ctx.analysed_files.add(TH)
    fn = cf.function(TH, "msdFromMandG")
    ctx.analysed_functions.add(TH + ":msdFromMandG")
    body = C.kids(C.body_of(fn))
    solver_args = []

    def model(name, args, n, st, ex):
        if name in ("DirectSolve", "NewtonSolve"):
            solver_args.append((name, args))
            return _sym("lam")
        return None
    ex = SymExec(cf, TH, call_model=model)
    i_rot = [i for i, s in enumerate(body) if s["kind"] == "IfStmt" and "computeRot" in C.text(C.kids(s)[0])]
    if len(i_rot) != 1:
        raise AnalysisError("msdFromMandG: the `if (computeRot != 0)` block was not found")
    i_rot = i_rot[0]
    try:
        sts = ex.run(body[:i_rot], State())
    except Unsupported as e:
        raise AnalysisError("msdFromMandG: %s" % e)
    where = C.line(fn)

    def dec(ok, what, bad):
        ctx.decide(ok, "C06-R4", where, TH, "msdFromMandG", what, "", bad)
    s = sts[0]
    M = lambda k: _sym("M[%d]" % k)        # noqa: E731
    S = [[M(3 * i + j) for j in range(3)] for i in range(3)]     # S[i][j] = sum a_i b_j   (layout established in R5)
    # ---- K(M): Theobald's key matrix for S
    Kw = [[S[0][0] + S[1][1] + S[2][2], S[1][2] - S[2][1], S[2][0] - S[0][2], S[0][1] - S[1][0]],
          [None, S[0][0] - S[1][1] - S[2][2], S[0][1] + S[1][0], S[2][0] + S[0][2]],
          [None, None, -S[0][0] + S[1][1] - S[2][2], S[1][2] + S[2][1]],
          [None, None, None, -S[0][0] - S[1][1] + S[2][2]]]
    St = [[S[j][i] for j in range(3)] for i in range(3)]
    Kt = [[St[0][0] + St[1][1] + St[2][2], St[1][2] - St[2][1], St[2][0] - St[0][2], St[0][1] - St[1][0]],
          [None, St[0][0] - St[1][1] - St[2][2], St[0][1] + St[1][0], St[2][0] + St[0][2]],
          [None, None, -St[0][0] + St[1][1] - St[2][2], St[1][2] + St[2][1]],
          [None, None, None, -St[0][0] - St[1][1] + St[2][2]]]
    def find(env, value, exclude=()):
        """name of a scalar local whose value is `value` (locals are identified by what they hold, not by how they are called)"""
        for k_, v_ in env.items():
            if isinstance(k_, str) and k_ not in exclude and isinstance(v_, Rat) and v_ == value:
                return k_
        return None
    kn_w = [[find(s.env, Kw[a][b]) if b >= a else None for b in range(4)] for a in range(4)]
    kn_t = [[find(s.env, Kt[a][b]) if b >= a else None for b in range(4)] for a in range(4)]
    is_t = all(kn_t[a][b] is not None for a in range(4) for b in range(a, 4))
    is_w = all(kn_w[a][b] is not None for a in range(4) for b in range(a, 4))
    kn = kn_t if is_t else kn_w
    ref = Kt if is_t else Kw
    K = [[None] * 4 for _ in range(4)]
    # the quaternion key matrix of S or of S^T (which one is right depends on which structure is rotated and how R is applied: decided by the linking identity in R5)
    for a in range(4):
        for b in range(a, 4):
            K[a][b] = K[b][a] = ref[a][b] if kn[a][b] is not None else None
            dec(kn[a][b] is not None, "K[%d][%d] = %r is computed (key matrix of %s)" % (a, b, ref[a][b], "S^T" if is_t else "S"),
                "no local holds the key-matrix entry (%d,%d) = %r (for S) / %r (for S^T)" % (a, b, Kw[a][b], Kt[a][b]))
    if any(K[a][b] is None for a in range(4) for b in range(4)):
        return None         # reported above as violations; the identities that build on K cannot be stated
    # ---- characteristic polynomial: the coefficients handed to the eigenvalue solver
    L = _sym("L")
    cp = det([[K[a][b] - (L if a == b else 0) for b in range(4)] for a in range(4)]).poly()
    ok_call = len(solver_args) == 1 and solver_args[0][0] == "DirectSolve" and len(solver_args[0][1]) == 4
    dec(ok_call, "lambda = DirectSolve(., C_0, C_1, C_2)", "the eigenvalue solver is called as %s" % [(n, len(args)) for n, args in solver_args])
    if not ok_call:
        raise AnalysisError("msdFromMandG: eigenvalue solver call not recognised")
    C0, C1, C2 = solver_args[0][1][1], solver_args[0][1][2], solver_args[0][1][3]
    for dgr, (nm, v) in enumerate((("C_0", C0), ("C_1", C1), ("C_2", C2))):
        want = cp.coeff_of("L", dgr)
        dec(isinstance(v, Rat) and v.poly() is not None and v.poly() == want, "solver argument %d is the lambda^%d coefficient of det(K - lambda I)" % (dgr + 1, dgr),
            "the value handed to the solver as %s, %r, is not the lambda^%d coefficient of the characteristic polynomial of K: the solver finds the roots of another quartic" % (nm, v, dgr))
    dec(cp.coeff_of("L", 3).is_zero() and cp.coeff_of("L", 4) == Poly.const(1), "det(K - lambda I) is monic with no cubic term (trace K = 0)", "characteristic polynomial has unexpected leading terms")
    # ---- msd formula and clamp: evaluate the whole function with computeRot = 0
    want_msd = (_sym("G_x") + _sym("G_y") - 2 * _sym("lam")) / _sym("numAtoms")
    st0 = State()
    st0.env["computeRot"] = Rat(Poly.const(0))
    try:
        exf = SymExec(cf, TH, call_model=lambda name, args, n, st_, ex_: (_sym("lam") if name in ("DirectSolve", "NewtonSolve") else None))
        full = exf.run(body, st0)
    except Unsupported as e:
        raise AnalysisError("msdFromMandG: %s" % e)
    # every way the function can return: the path conditions plus, for a value written as `c ? a : b`, both values of c - all decoded by value
    from ..symval import elementary_facts, has_fact
    cases = []
    for x in full:
        if x.ret is None:
            continue
        facts0 = []
        for (cv_, pol), (txt, _p) in zip(x.cexprs, x.cvals):
            facts0 += elementary_facts(exf, cv_ if cv_ is not None else txt, pol)
        flags = [v for v in x.ret.vars() if v in exf.atoms]
        if len(flags) > 3:
            cases.append((facts0, x.ret))
            continue
        import itertools as _it
        for bits in _it.product((1, 0), repeat=len(flags)):
            sub = {f: Poly.const(b_) for f, b_ in zip(flags, bits)}
            val = Rat(x.ret.n.subs(sub), x.ret.d.subs(sub)) if flags else x.ret
            fs = list(facts0)
            for f, b_ in zip(flags, bits):
                fs += elementary_facts(exf, f, bool(b_))
            cases.append((fs, val))
    zero_ = Rat(Poly.const(0))
    pos = [c for c in cases if has_fact(c[0], "<", zero_ - want_msd)]
    rest = [c for c in cases if c not in pos]
    okp = bool(pos) and bool(rest) and all(c[1] == want_msd for c in pos) and all(c[1].n.is_zero() and has_fact(c[0], "<=", want_msd) for c in rest)
    dec(okp, "returns (G_a + G_b - 2 lambda)/N when that is positive, else 0", "returned values are %s" % [(repr(c[1])[:60], [(r_, repr(d_)[:40]) for r_, d_ in c[0] if r_ != "or"]) for c in cases])
    # DirectSolve: largest of the four roots of  lambda^4 + C2 lambda^2 + C1 lambda + C0
    ds = cf.function(TH, "DirectSolve")
    ctx.analysed_functions.add(TH + ":DirectSolve")
    qs = cf.function(TH, "quartic_equation_solve_exact")
    qp = [p.get("name") for p in C.fparams(qs)]
    calls = [n for n in C.walk(ds) if n["kind"] == "CallExpr" and C.callee_name(n) == "quartic_equation_solve_exact"]
    ok = False
    why = "call not found"
    if len(calls) == 1:
        a = [re.sub(r"\s", "", C.text(x)) for x in C.call_args(calls[0])]
        coeff = dict(zip(qp, a))
        outs_ = [re.match(r"^\(&(\w+)\)$", x) for x in a[:4]]
        dsp = [p_.get("name") for p_ in C.fparams(ds)]
        ok = [coeff.get("d%d" % k) for k in range(5)] == [dsp[1] if len(dsp) > 3 else "?", dsp[2] if len(dsp) > 3 else "?", dsp[3] if len(dsp) > 3 else "?", "0.0", "1.0"] and \
            all(outs_) and len({m_.group(1) for m_ in outs_}) == 4
        why = "coefficients d0..d4 = %s, outputs %s" % ([coeff.get("d%d" % k) for k in range(5)], a[:4])
    ctx.decide(ok, "C06-R4", C.line(ds), TH, "DirectSolve", "quartic solved with d0..d4 = C_0, C_1, C_2, 0, 1", "", "the quartic handed to the solver is not lambda^4 + C_2 lambda^2 + C_1 lambda + C_0: %s" % why)
    exd = SymExec(cf, TH, call_model=lambda name, args, n, st, e: (_assign_roots(st, args) if name == "quartic_equation_solve_exact" else None))
    try:
        dst = exd.run(C.kids(C.body_of(ds)), State())
    except Unsupported as e:
        raise AnalysisError("DirectSolve: %s" % e)
    ok = len(dst) == 1 and dst[0].ret is not None
    if ok:
        # max() is a macro: (a > b ? a : b) -> nested conditionals over comparison symbols; every root must be reachable as the result
        rv = repr(dst[0].ret)
        ok = all(("r%d" % k) in rv for k in (1, 2, 3, 4))
    ctx.decide(ok, "C06-R4", C.line(ds), TH, "DirectSolve", "the result is the maximum over all four roots", "", "DirectSolve does not take the maximum of r1..r4: a smaller eigenvalue gives a non-optimal rotation and a larger msd")
    mx = [n for n in C.walk(ds) if n["kind"] == "ConditionalOperator"]
    okm = bool(mx) and all(re.sub(r"\s", "", C.text(C.kids(n)[0])).count(">") == 1 and re.sub(r"\s", "", C.text(C.kids(C.strip(C.kids(n)[0]))[0])) == re.sub(r"\s", "", C.text(C.kids(n)[1])) for n in mx)
    ctx.decide(okm and len(mx) == 3, "C06-R4", C.line(ds), TH, "DirectSolve", "three max() selections of the form (a > b ? a : b)", "", "the selection of the largest root changed")

    # ---- rotation branch
    then = C.kids(body[i_rot])[1]
    rs = C.kids(then)
    i_ifs = [i for i, x in enumerate(rs) if x["kind"] == "IfStmt"]
    if not i_ifs:
        raise AnalysisError("msdFromMandG: the |q|^2 test was not found in the rotation block")
    i_q = i_ifs[-1]         # the last test decides between the identity and R(q); tests before it may replace q (other rows of the adjugate)
    s2 = s.fork()
    ksym = {}
    for a in range(4):
        for b in range(a, 4):
            ksym[(a, b)] = _sym("k%d%d" % (a, b))
            s2.env[kn[a][b]] = ksym[(a, b)]
    lam_names = [k_ for k_, v_ in s.env.items() if isinstance(k_, str) and isinstance(v_, Rat) and v_ == _sym("lam")]
    for nm_ in lam_names:
        s2.env[nm_] = _sym("lam")
    # the statements that form K' = K - lambda I: the shortest prefix after which the key-matrix locals hold it
    i_k, r = None, None
    for i_ in range(1, i_q + 1):
        try:
            cand = ex.run(rs[:i_], s2.fork())
        except Unsupported as e:
            raise AnalysisError("msdFromMandG rotation block: %s" % e)
        if len(cand) == 1 and all(cand[0].env.get(kn[a][b]) == ksym[(a, b)] - (_sym("lam") if a == b else 0) for a in range(4) for b in range(a, 4)):
            i_k, r = i_, cand[0]
            break
    for a in range(4):
        for b in range(a, 4):
            dec(i_k is not None, "K' = K - lambda I entry (%d,%d)" % (a, b), "the key-matrix locals never hold K - lambda I in the rotation block")
    if i_k is None:
        return None
    # from here on K' is a matrix of fresh symbols (keeps the cofactor polynomials small)
    Kp = [[None] * 4 for _ in range(4)]
    for a in range(4):
        for b in range(a, 4):
            Kp[a][b] = Kp[b][a] = _sym("p%d%d" % (a, b))
            r.env[kn[a][b]] = Kp[a][b]
    rows = [[cofactor(Kp, a, j) for j in range(4)] for a in range(4)]
    rowsq = [sum((c_ * c_ for c_ in rows[a]), Rat(Poly.const(0))) for a in range(4)]
    try:
        pre = ex.run(rs[i_k:i_q], r)
    except Unsupported as e:
        raise AnalysisError("msdFromMandG rotation block: %s" % e)
    from ..symval import elementary_facts as _facts

    def rows_tested(x):
        """{row: True (|row|^2 below the threshold on this path) / False}, and the thresholds used"""
        out, thr = {}, []
        for (cv_, pol), (txt, _p) in zip(x.cexprs, x.cvals):
            for rel, d in _facts(ex, cv_ if cv_ is not None else txt, pol):
                if rel not in ("<", "<="):
                    continue
                for a in range(4):
                    # small:  |row a|^2 - t < 0 ;  not small:  t - |row a|^2 <= 0
                    for sign, val in ((1, True), (-1, False)):
                        diff = d - rowsq[a] if sign == 1 else d + rowsq[a]
                        c_ = diff.const_value() if isinstance(diff, Rat) else None
                        if c_ is not None and ((val and rel == "<") or (not val and rel == "<=")):
                            out[a] = val
                            thr.append(abs(c_))
        return out, thr
    qn, finals = None, []
    for x in pre:
        names = []
        for j in range(4):
            names.append(next((k_ for k_, v_ in x.env.items() if isinstance(k_, str) and k_ not in names and isinstance(v_, Rat) and any(v_ == rows[a][j] for a in range(4))), None))
        held = next((a for a in range(4) if all(nm_ is not None and x.env[nm_] == rows[a][j] for j, nm_ in enumerate(names))), None)
        finals.append((x, names, held, rows_tested(x)[0]))
    x0 = next((f for f in finals if f[2] == 0 and not f[3].get(0, False)), None)
    for j in range(4):
        dec(x0 is not None and x0[1][j] is not None, "q%d = cofactor (0,%d) of K - lambda I" % (j, j),
            "no local holds the cofactor (0,%d) of K - lambda I: the vector used as quaternion is not an eigenvector of K for lambda" % j)
    if x0 is None:
        return None
    qn = x0[1]
    bad_paths = [f for f in finals if f[2] is None or f[1] != qn]
    dec(not bad_paths, "on every path to the |q|^2 test q is a row of adj(K - lambda I) (each row is a multiple of the eigenvector), %d path(s)" % len(finals),
        "on a path to the |q|^2 test the quaternion locals hold something that is no row of adj(K - lambda I): %s" % [[repr(f[0].env.get(n_))[:50] for n_ in qn] for f in bad_paths[:1]])
    # the identity is an answer only when the adjugate vanishes altogether: a path on which q (row r) can be below the threshold must have found the
    # other three rows below it as well - row 0 alone is zero for every half turn (scalar part of the eigenvector 0), where the identity is not optimal
    gaps = []
    for (x, names, held, tested) in finals:
        if held is None or tested.get(held) is False:
            continue
        small_rows = {a for a, v_ in tested.items() if v_} | {held}
        if small_rows != {0, 1, 2, 3}:
            gaps.append((held, sorted(small_rows)))
    dec(not gaps, "the identity is the fallback only when all four rows of adj(K - lambda I) are below the threshold",
        "the identity rotation is stored when row(s) %s of adj(K - lambda I) are below the threshold and the others were never looked at: row 0 is the eigenvector times its scalar part, "
        "which is zero whenever the optimal rotation is a half turn (e.g. a frame turned by 180 degrees about a coordinate axis) - superpose then leaves the frame where it is "
        "although rmsd() reports the fitted value" % (gaps[0][1] if gaps else ""))
    r = x0[0]
    qs_ = [r.env[x] for x in qn]
    qsq_val = qs_[0] * qs_[0] + qs_[1] * qs_[1] + qs_[2] * qs_[2] + qs_[3] * qs_[3]
    qsq_name = find(r.env, qsq_val)
    dec(qsq_name is not None, "|q|^2 is computed", "no local holds q0^2+q1^2+q2^2+q3^2")
    for (x, names, held, tested) in finals:
        if held is not None and names == qn and x is not r:
            v_ = x.env.get(qsq_name)
            dec(v_ is not None and v_ == rowsq[held], "|q|^2 is recomputed for row %d of the adjugate" % held, "after q was replaced by row %d of the adjugate the value tested is still %r" % (held, v_))
    inner = rs[i_q]
    ik = C.kids(inner)
    # general branch: cut q after the normalisation
    q = [_sym("q%d" % j) for j in range(4)]
    for j in range(4):
        r.env[qn[j]] = q[j]
    if qsq_name is not None:
        r.env[qsq_name] = _sym("QS")
    try:
        branches = ex.run([inner], r.fork())
    except Unsupported as ee:
        raise AnalysisError("msdFromMandG rotation matrix: %s" % ee)
    small = [x for x in branches if any(p_ and re.sub(r"\s", "", c).startswith("(QS<") for c, p_ in x.cvals)]
    big = [x for x in branches if any((not p_) and re.sub(r"\s", "", c).startswith("(QS<") for c, p_ in x.cvals)]
    dec(len(branches) == 2 and len(small) == 1 and len(big) == 1, "identity fallback only for |q|^2 below a threshold", "the degenerate-case test is %s" % [x.cvals[-1:] for x in branches])
    if len(small) != 1 or len(big) != 1:
        raise AnalysisError("msdFromMandG: the |q|^2 threshold test was not recognised")
    got = [small[0].env.get(("rot", k)) for k in range(9)]
    dec(all(g is not None for g in got) and [g.const_value() for g in got] == [1, 0, 0, 0, 1, 0, 0, 0, 1], "degenerate case returns the identity", "degenerate case stores %r" % got)
    e = big[0]
    nq = None
    for k_, v_ in e.env.items():
        if isinstance(k_, str) and isinstance(v_, Rat) and len(v_.vars()) == 1 and v_.poly() is not None and v_.poly().degree() == 1:
            f_ = ex.opaque.get(list(v_.vars())[0])
            if f_ and f_[0] == "sqrt" and f_[1][0] == _sym("QS") and v_ == Rat(Poly.var(list(v_.vars())[0])):
                nq = v_
    dec(nq is not None, "normq = sqrt(|q|^2)", "no local holds sqrt(|q|^2)")
    if nq is None:
        raise AnalysisError("msdFromMandG: normalisation not found")
    dec(all(e.env.get(qn[j]) == q[j] / nq for j in range(4)), "q normalised to unit length", "q is not divided by its norm")
    R9 = [e.env.get(("rot", k)) for k in range(9)]
    if any(x is None for x in R9):
        raise AnalysisError("msdFromMandG: rot[0..8] not all assigned")
    N9 = []
    for k in range(9):
        x = R9[k]
        ok = x.d == (nq * nq).n
        N9.append(x.n)
        if not ok:
            dec(False, "rot[%d] quadratic in the unit quaternion" % k, "rot[%d] = %r" % (k, x))
    N9 = [Rat(p) for p in N9]
    qq = q[0] * q[0] + q[1] * q[1] + q[2] * q[2] + q[3] * q[3]
    Rm = [[N9[3 * i + j] for j in range(3)] for i in range(3)]
    ok = all(sum((Rm[i][k] * Rm[j][k] for k in range(3)), Rat(Poly.const(0))) == (qq * qq if i == j else 0) for i in range(3) for j in range(3))
    dec(ok, "R R^T = |q|^4 I (orthogonal for unit q)", "the matrix stored in rot[] is not orthogonal for a unit quaternion: superpose would deform the structure")
    dec(det(Rm) == qq * qq * qq, "det R = |q|^6 (proper rotation, no reflection)", "the matrix stored in rot[] has determinant != +1: a mirror image would be superposed")
    return {"N9": N9, "K": K, "q": q, "S_layout": "M[3i+j] = sum a_i b_j"}


def _assign_roots(st, args):
    from ..symval import Addr
    for k, a in enumerate(args[:4]):
        if isinstance(a, Addr):
            st.env[a.key] = _sym("r%d" % (k + 1))
    return Rat(Poly.const(0))


# ---------------------------------------------------------------------------------------------------
def _loop_body(loop):
    return [x for x in loop["inner"] if isinstance(x, dict) and x.get("kind") == "CompoundStmt"][0]


def r5(ctx, facts):
    cf = C.get(ctx.repo)
    # ---- inner-product matrix of msd_atom_major (the kernel every pyx call site uses)
    fn = cf.function(TH, "msd_atom_major")
    ctx.analysed_functions.add(TH + ":msd_atom_major")
    body = C.kids(C.body_of(fn))
    seen_calls = []

    def model(name, args, n, st, ex):
        if name == "msdFromMandG":
            seen_calls.append(args)
            return _sym("msd")
        return None
    ex = SymExec(cf, TH, call_model=model)
    loops = [i for i, s in enumerate(body) if s["kind"] == "ForStmt"]
    if len(loops) != 1:
        raise AnalysisError("msd_atom_major: expected one atom loop")
    i_for = loops[0]
    try:
        pre = ex.run(body[:i_for], State())
    except Unsupported as e:
        raise AnalysisError("msd_atom_major: %s" % e)
    early = [p for p in pre if p.done]
    go = [p for p in pre if not p.done]
    if len(go) != 1:
        raise AnalysisError("msd_atom_major: unexpected paths before the loop")
    p = go[0]
    # early exit: identical pointers and equal traces -> 0 and identity rotation
    ok = bool(early) and all(x.ret is not None and x.ret.const_value() == 0 for x in early) and all(("((a==b)&&(G_a==G_b))", True) in x.conds for x in early)
    withrot = [x for x in early if ("computeRot", True) in x.conds]
    ok = ok and bool(withrot) and [withrot[0].env.get(("rot", k)).const_value() if withrot[0].env.get(("rot", k)) is not None else None for k in range(9)] == [1, 0, 0, 0, 1, 0, 0, 0, 1]
    ctx.decide(ok, "C06-R5", C.line(fn), TH, "msd_atom_major", "same pointer and same trace -> msd 0 and identity rotation", "", "the shortcut for identical structures returns something else")
    ok = any(isinstance(v_, Rat) and repr(v_) in ("idiv(3 + nrealatoms,4)",) for k_, v_ in p.env.items() if isinstance(k_, str))
    ctx.decide(ok, "C06-R5", C.line(fn), TH, "msd_atom_major", "the number of blocks of four atoms is ceil(n/4)", "", "no local holds (nrealatoms + 3) / 4")
    # the whole kernel for n = 1 .. 9 atoms (every remainder mod 4 with no, one and two full blocks before the last): the loop runs with its concrete
    # trip count over symbolic coordinates; how the tail is masked (a table, bit patterns, a scalar loop) is the kernel's business - by value, the
    # matrix handed on is the inner-product matrix of exactly the n real atoms
    for n_ in range(1, 10):
        s0 = State()
        s0.env["nrealatoms"] = Rat(Poly.const(n_))
        s0.env["npaddedatoms"] = Rat(Poly.const(4 * ((n_ + 3) // 4)))
        seen_calls.clear()
        try:
            outs = [o for o in ex.run(body, s0) if o.ret is not None and o.ret == _sym("msd")]
        except Unsupported as e:
            ctx.undecided("C06-R5", C.line(fn), TH, "msd_atom_major", "M[3i+j] = sum over the n real atoms of a_i b_j (n = %d)" % n_, "not evaluable: %s" % e)
            continue
        if len(outs) != 1 or len(seen_calls) != 1:
            raise AnalysisError("msd_atom_major: %d paths reach msdFromMandG for n = %d" % (len(outs), n_))
        fo, args = outs[0], seen_calls[0]
        bad = []
        for i in range(3):
            for j in range(3):
                want = sum((_sym("a[%d]" % (3 * l + i)) * _sym("b[%d]" % (3 * l + j)) for l in range(n_)), Rat(Poly.const(0)))
                got = fo.env.get(("M", 3 * i + j))
                if got is None or not (got == want):
                    bad.append((3 * i + j, got))
        extra = sorted({v for k, g in bad if g is not None for v in g.vars() if re.match(r"[ab]\[(\d+)\]$", v) and int(re.match(r"[ab]\[(\d+)\]$", v).group(1)) >= 3 * n_})
        ctx.decide(not bad, "C06-R5", C.line(fn), TH, "msd_atom_major", "M[3i+j] = sum over the n real atoms of a_i b_j (n = %d, n mod 4 = %d)" % (n_, n_ % 4), "",
                   "inner-product matrix entries %s differ from sum a_i b_j over the %d real atoms%s" % ([(k, repr(g)[:60]) for k, g in bad[:2]], n_,
                   ("; they read %s, which lie beyond the structure (the next frame in memory)" % extra[:3]) if extra else ""))
        ok = isinstance(args[0], Ptr) and args[0].base == "M" and args[0].off == 0 and args[1] == _sym("G_a") and args[2] == _sym("G_b") and args[3] == Rat(Poly.const(n_)) and \
            args[4] == _sym("computeRot") and isinstance(args[5], Ptr) and args[5].base == "rot"
        if n_ == 4:
            ctx.decide(ok, "C06-R5", C.line(fn), TH, "msd_atom_major", "msdFromMandG(M, G_a, G_b, nrealatoms, computeRot, rot)", "", "msdFromMandG receives %r" % (args,))

    # ---- rotation kernels
    ctx.analysed_files.add(ROT)
    Rapp = None
    for fname in ("rot_atom_major",):
        fn = cf.function(ROT, fname)
        ctx.analysed_functions.add(ROT + ":" + fname)
        body = C.kids(C.body_of(fn))
        ex2 = SymExec(cf, ROT)
        loops = [i for i, s in enumerate(body) if s["kind"] == "ForStmt"]
        if len(loops) != 2:
            raise AnalysisError("rot_atom_major: expected a vector loop and a tail loop")
        try:
            pre = ex2.run(body[:loops[0]], State())[0]
            v = ex2.run(C.kids(_loop_body(body[loops[0]])), pre.fork())[0]
            t0 = pre.fork()
            t0.env["k"] = Rat(Poly.const(0))
            t = ex2.run(C.kids(_loop_body(body[loops[1]])), t0)[0]
        except Unsupported as e:
            raise AnalysisError("rot_atom_major: %s" % e)
        def applied(env, atom):
            out = [[None] * 3 for _ in range(3)]
            ok_ = True
            for i in range(3):
                val = env.get(("a", 3 * atom + i))
                if val is None or val.poly() is None:
                    return None
                pl = val.poly()
                rem = pl
                for j in range(3):
                    cj = pl.coeff_of("a[%d]" % (3 * atom + j), 1)
                    out[i][j] = cj
                    rem = rem - cj * Poly.var("a[%d]" % (3 * atom + j))
                if not rem.is_zero():
                    return None
            return out
        mats = [applied(v.env, l) for l in range(4)] + [applied(t.env, 0)]
        ok = all(m is not None for m in mats) and all(m == mats[0] for m in mats)
        want = [[Poly.var("rot[%d]" % (i + 3 * j)) for j in range(3)] for i in range(3)]
        ok = ok and mats[0] == want
        ctx.decide(ok, "C06-R5", C.line(fn), ROT, fname, "x'_i = sum_j x_j rot[i + 3j] for the four vector lanes and the tail loop", "",
                   "the rotation is applied as %s (vector lanes / tail differ or the index convention changed)" % (mats[0] if mats and mats[0] else None))
        ok = isinstance(v.env.get("a"), Ptr) and v.env["a"].off == 12 and repr(pre.env.get("n_iters")) == "idiv(n_atoms,4)"
        ctx.decide(ok, "C06-R5", C.line(fn), ROT, fname, "vector loop covers floor(n/4) blocks, tail loop n mod 4 atoms", "", "loop partition changed")
        tl = body[loops[1]]
        ok = re.sub(r"\s", "", C.text(C.kids(tl)[1])) == "(k<(n_atoms%4))"
        ctx.decide(ok, "C06-R5", C.line(tl), ROT, fname, "tail loop bound n_atoms % 4", "", "tail loop bound is %s" % C.text(C.kids(tl)[1]))
        Rapp = want
    # rot_msd_atom_major: displacement after the same rotation
    fn = cf.function(ROT, "rot_msd_atom_major")
    ctx.analysed_functions.add(ROT + ":rot_msd_atom_major")
    body = C.kids(C.body_of(fn))
    ex3 = SymExec(cf, ROT)
    loops = [i for i, s in enumerate(body) if s["kind"] == "ForStmt"]
    try:
        pre = ex3.run(body[:loops[0]], State())[0]
        v = ex3.run(C.kids(_loop_body(body[loops[0]])), pre.fork())[0]
    except Unsupported as e:
        raise AnalysisError("rot_msd_atom_major: %s" % e)
    want = Rat(Poly.const(0))
    for l in range(4):
        for i in range(3):
            t_i = sum((_sym("a[%d]" % (3 * l + j)) * _sym("rot[%d]" % (i + 3 * j)) for j in range(3)), Rat(Poly.const(0)))
            dlt = _sym("b[%d]" % (3 * l + i)) - t_i
            want = want + dlt * dlt
    got = v.env.get("sum_displacement")
    ctx.decide(got is not None and got == want, "C06-R5", C.line(fn), ROT, "rot_msd_atom_major", "sum over 4 atoms of |b - a R|^2", "", "the accumulated displacement is not sum |b - aR|^2")
    retn = [x for x in body if x["kind"] == "ReturnStmt"]
    ok = bool(retn) and re.sub(r"\s", "", C.text(C.kids(retn[0])[0])) in ("(sum_displacement/n_real_atoms)",)
    ctx.decide(ok, "C06-R5", C.line(fn), ROT, "rot_msd_atom_major", "msd = sum / n_real_atoms", "", "returned value is %s" % (C.text(C.kids(retn[0])[0]) if retn else None))

    # ---- linking identity:  sum_ij Rapplied_ij * S_ji = q^T K q, with S_ji = sum a_j b_i = M[3j+i]
    if facts is not None:
        N9, K, q = facts["N9"], facts["K"], facts["q"]
        lhs = Rat(Poly.const(0))
        for i in range(3):
            for j in range(3):
                lhs = lhs + N9[i + 3 * j] * _sym("M[%d]" % (3 * j + i))
        rhs = Rat(Poly.const(0))
        for a in range(4):
            for b in range(4):
                rhs = rhs + q[a] * K[a][b] * q[b]
        ctx.decide(lhs == rhs, "C06-R4", C.line(cf.function(TH, "msdFromMandG")), TH, "msdFromMandG", "sum_ij R_ij S_ji = q^T K q: the rotation handed to rot_atom_major maximises the overlap of the rotated structure `a` with `b`",
                   "ties together M layout, K, the quaternion-to-matrix formula and the x' = x R convention",
                   "sum_ij R_ij S_ji != q^T K q: the rotation matrix stored in rot[] is not the one that superposes the structure it is applied to (transposed / applied to the wrong structure)")

    # ---- centring kernel
    ctx.analysed_files.add(CEN)
    fn = cf.function(CEN, "inplace_center_and_trace_atom_major")
    ctx.analysed_functions.add(CEN + ":inplace_center_and_trace_atom_major")
    frame_loop = [n for n in C.walk(fn) if n["kind"] == "ForStmt"]
    if not frame_loop:
        raise AnalysisError("centring kernel: frame loop not found")
    fb = C.kids(_loop_body(frame_loop[0]))
    inner = [i for i, s in enumerate(fb) if s["kind"] == "ForStmt"]
    if len(inner) != 4:
        raise AnalysisError("centring kernel: expected four inner loops (sum, sum tail, subtract, subtract tail), found %d" % len(inner))
    ex4 = SymExec(cf, CEN)
    try:
        st = State()
        st.env["coords"] = Ptr("c", 0)
        s0 = ex4.run(fb[:inner[0]], st)[0]
        ok0 = isinstance(s0.env.get("confp"), Ptr) and repr(s0.env["confp"].off) in ("3*k*n_atoms",)
        s0.env["confp"] = Ptr("c", 0)
        s1 = ex4.run(C.kids(_loop_body(fb[inner[0]])), s0)[0]            # one vector block (atoms 0..3)
        s2 = ex4.run(fb[inner[0] + 1:inner[1]], s1)[0]
        s2.env["i"] = Rat(Poly.const(0))
        s3 = ex4.run(C.kids(_loop_body(fb[inner[1]])), s2)[0]            # one tail atom (atom 4)
        s4 = ex4.run(fb[inner[1] + 1:inner[2]], s3)[0]
    except Unsupported as e:
        raise AnalysisError("centring kernel: %s" % e)
    ctx.decide(ok0, "C06-R5", C.line(fn), CEN, "inplace_center_and_trace_atom_major", "frame k starts at coords + 3*k*n_atoms", "", "frame pointer is %r" % (s0.env.get("confp"),))
    n = _sym("n_atoms")
    for ax, nm in enumerate(("sx", "sy", "sz")):
        got = s4.env.get((nm, 0))
        want = sum((_sym("c[%d]" % (3 * l + ax)) for l in range(5)), Rat(Poly.const(0))) / n
        ctx.decide(got is not None and got == want, "C06-R5", C.line(fn), CEN, "inplace_center_and_trace_atom_major", "mean_%s = (sum over vector block + tail) / n_atoms, accumulated in double" % "xyz"[ax], "",
                   "the %s mean is %r" % ("xyz"[ax], got))
    acc_t = [C.qtype(v) for v in C.walk(fn) if v["kind"] == "VarDecl" and v.get("name") in ("sx", "sy", "sz", "trace")]
    ctx.decide(bool(acc_t) and all(t.startswith("double") for t in acc_t), "C06-R5", C.line(fn), CEN, "inplace_center_and_trace_atom_major", "sums and trace accumulate in double", "", "accumulator types are %s" % acc_t)
    # subtraction + trace: one vector block then one tail atom, with the means as symbols
    try:
        # the means stay the expressions just verified (whatever locals hold them): the coordinates are re-read as the same symbols c[k]
        s5 = s4.fork()
        for key in [k for k in s5.env if isinstance(k, tuple) and k[0] == "c"]:
            del s5.env[key]
        s5.env["confp"] = Ptr("c", 0)
        s5.env["trace_"] = Vec([Rat(Poly.const(0))] * 2)
        s6 = ex4.run(C.kids(_loop_body(fb[inner[2]])), s5)[0]
        s7 = ex4.run(fb[inner[2] + 1:inner[3]], s6)[0]
        s7.env["i"] = Rat(Poly.const(0))
        s8 = ex4.run(C.kids(_loop_body(fb[inner[3]])), s7)[0]
        s9 = ex4.run(fb[inner[3] + 1:], s8)
    except Unsupported as e:
        raise AnalysisError("centring kernel (subtract/trace): %s" % e)
    mu = [s4.env.get((nm_, 0)) for nm_ in ("sx", "sy", "sz")]
    if any(m_ is None for m_ in mu):
        raise AnalysisError("centring kernel: the means sx[0], sy[0], sz[0] are not available after the summation phase")
    bad = []
    for l in range(5):
        for ax in range(3):
            got = s8.env.get(("c", 3 * l + ax))
            if got is None or not (got == _sym("c[%d]" % (3 * l + ax)) - mu[ax]):
                bad.append((l, ax, got))
    ctx.decide(not bad, "C06-R5", C.line(fn), CEN, "inplace_center_and_trace_atom_major", "every coordinate of every atom has its mean subtracted (vector block and tail)", "", "coordinates after centring: %s" % bad[:3])
    fin = [x for x in s9 if any(k == ("traces", "k") for k in x.env)]
    want = Rat(Poly.const(0))
    for l in range(5):
        for ax in range(3):
            d = _sym("c[%d]" % (3 * l + ax)) - mu[ax]
            want = want + d * d
    got = fin[0].env.get(("traces", "k")) if fin else None
    ctx.decide(got is not None and got == want, "C06-R5", C.line(fn), CEN, "inplace_center_and_trace_atom_major", "trace = sum of squares of the centred coordinates", "", "trace is %r" % (repr(got)[:120],))
    ok = any(("(traces!=NULL)" in c or "traces" in c) for x in s9 for c, p_ in x.conds)
    ctx.decide(ok, "C06-R5", C.line(fn), CEN, "inplace_center_and_trace_atom_major", "trace stored only when a buffer is given", "", "NULL check of traces vanished")


# ---------------------------------------------------------------------------------------------------
def _first_index(node):
    """frame index of `X[i, 0, 0]` / `X[0, 0]` / scalar"""
    if isinstance(node, ast.Subscript):
        sl = node.slice
        elts = sl.elts if isinstance(sl, ast.Tuple) else [sl]
        name = dotted(node.value)
        if len(elts) == 3:
            return name, src(elts[0])
        if len(elts) == 2:
            return name, None          # a single conformation
        if len(elts) == 1:
            return name, src(elts[0])
    return dotted(node), None


def r6(ctx):
    cf = C.get(ctx.repo)
    sig = [p.get("name") for p in C.fparams(cf.function(TH, "msd_atom_major"))]
    if sig != ["nrealatoms", "npaddedatoms", "a", "b", "G_a", "G_b", "computeRot", "rot"]:
        raise AnalysisError("msd_atom_major signature changed: %s" % sig)
    rsig = [p.get("name") for p in C.fparams(cf.function(ROT, "rot_atom_major"))]
    if rsig != ["n_atoms", "a", "rot"]:
        raise AnalysisError("rot_atom_major signature changed: %s" % rsig)
    n_sites = 0
    for q in ("rmsd", "rmsf", "getMultipleRMSDs_atom_major", "superpose_atom_major", "getMultipleAlignDisplaceRMSDs_atom_major"):
        fn = ctx.py.func(PYX, q)
        pnames = set(params(fn))
        for loop in [n for n in ast.walk(fn) if isinstance(n, ast.For)]:
            calls = [c for s in loop.body for c in ast.walk(s) if isinstance(c, ast.Call) and call_name(c) == "msd_atom_major"] if not any(isinstance(s, ast.For) for s in loop.body) else []
            for c in calls:
                n_sites += 1
                lv = dotted(loop.target)
                A, ia = _first_index(c.args[2])
                B, ib = _first_index(c.args[3])
                GA, iga = _first_index(c.args[4])
                GB, igb = _first_index(c.args[5])
                desc = "line %d msd_atom_major(%s[%s], %s[%s], %s, %s)" % (c.lineno, A, ia, B, ib, src(c.args[4]), src(c.args[5]))
                ctx.decide(sorted([str(ia), str(ib)]) == sorted([str(iga), str(igb)]) and lv in (ia, ib), "C06-R6", c, PYX, q, desc + ": traces index the same two frames; one of them is the loop frame", "",
                           "the structures are frames (%s, %s) but the traces are taken at (%s, %s): G_a + G_b does not belong to the coordinates" % (ia, ib, iga, igb))
                cr = src(c.args[6])
                rot = src(c.args[7])
                ok = (cr == "0" and rot == "NULL") or (cr == "1" and re.sub(r"\s", "", rot) == "rot[%s,0,0]" % lv)
                ctx.decide(ok, "C06-R6", c, PYX, q, "line %d computeRot=%s <-> rot=%s" % (c.lineno, cr, rot), "", "computeRot=%s with rot=%s" % (cr, rot))
                ok = src(c.args[0]) == src(c.args[1]) or (src(c.args[0]), src(c.args[1])) == ("n_atoms_align", "n_align_atoms_padded")
                ctx.decide(ok, "C06-R6", c, PYX, q, "line %d atom counts (%s, %s)" % (c.lineno, src(c.args[0]), src(c.args[1])), "", "real/padded atom counts are %s, %s" % (src(c.args[0]), src(c.args[1])))
                # what follows in the same loop body
                follow = [x for s in loop.body for x in ast.walk(s) if isinstance(x, ast.Call) and call_name(x) in ("rot_atom_major", "rot_msd_atom_major")]
                for f in follow:
                    if call_name(f) == "rot_atom_major":
                        X, ix = _first_index(f.args[1])
                        ok = ix == ia and re.sub(r"\s", "", src(f.args[2])) == "rot[%s,0,0]" % lv
                        ctx.decide(ok, "C06-R6", f, PYX, q, "line %d rotation applied to frame %s of %s (the frame passed as `a`) with this frame's matrix" % (f.lineno, ix, X), "",
                                   "rot_atom_major rotates %s[%s] with %s, but the matrix was computed for structure a = %s[%s]: msdFromMandG's rotation superposes `a` onto `b`" % (X, ix, src(f.args[2]), A, ia))
                        # the rotated buffer holds centred coordinates
                        centred = _centred_buffers(fn)
                        ok = X in centred or X in pnames
                        ctx.decide(ok, "C06-R6", f, PYX, q, "rotated buffer %s is centred" % X, "parameter (centred by the caller, C06-R2)" if X in pnames else "centred in this function",
                                   "the rotation computed from centred coordinates is applied to `%s`, which is built from the un-centred trajectory (%s): unless the selection is the whole trajectory "
                                   "(centred in place through a view) the rotated frames keep R_i * centroid_i and the fluctuations depend on where the molecule sits"
                                   % (X, centred.get("__def__" + X, "?")))
                    else:
                        X1, i1 = _first_index(f.args[2])
                        X2, i2 = _first_index(f.args[3])
                        ok = i1 == ia and i2 == ib and re.sub(r"\s", "", src(f.args[4])) == "rot[%s,0,0]" % lv
                        ctx.decide(ok, "C06-R6", f, PYX, q, "line %d rot_msd rotates frame %s (as `a`) onto frame %s" % (f.lineno, i1, i2), "",
                                   "rot_msd_atom_major is called on frames (%s, %s) but the rotation belongs to (%s, %s)" % (i1, i2, ia, ib))
                # sqrt of the msd
                if cr == "0" or any(call_name(f) == "rot_msd_atom_major" for f in follow):
                    st = [s for s in loop.body if isinstance(s, ast.Assign) and isinstance(s.value, ast.Call) and call_name(s.value) == "sqrtf"]
                    ok = bool(st) and src(st[0].value.args[0]) == "msd" and re.sub(r"\s", "", src(st[0].targets[0])) == "distances[%s]" % lv
                    ctx.decide(ok, "C06-R6", st[0] if st else c, PYX, q, "line %d distances[%s] = sqrtf(msd)" % (c.lineno, lv), "", "the value stored for frame %s is not sqrtf(msd)" % lv)
    if n_sites < 10:
        raise AnalysisError("only %d msd_atom_major call sites found in _rmsd.pyx (expected 10)" % n_sites)


def _centred_buffers(fn):
    """names of arrays whose contents are centred inside fn: passed to inplace_center_and_trace_atom_major, or copies made from such an array afterwards"""
    out = {}
    centred_at = {}
    for n in ast.walk(fn):
        if isinstance(n, ast.Call) and call_name(n) == "inplace_center_and_trace_atom_major" and n.args:
            nm, _ = _first_index(n.args[0])
            centred_at.setdefault(nm, n.lineno)
    for nm in centred_at:
        out[nm] = True
    for n in ast.walk(fn):
        if isinstance(n, ast.Assign) and isinstance(n.targets[0], ast.Name):
            t = n.targets[0].id
            s = src(n.value)
            out["__def__" + t] = s[:80]
            for nm, ln in centred_at.items():
                if re.search(r"\b%s\b" % re.escape(nm), s) and n.lineno > ln and t not in centred_at:
                    out[t] = True
    return out


# ---------------------------------------------------------------------------------------------------
def r7_partial_functions(ctx):
    """The closed-form cubic / quartic solvers use sqrt, acos, real cube roots and divisions.  Each of them is defined only on part of the
    reals; where the argument leaves that part the result is NaN and lambda_max collapses (rmsd = sqrt((Ga+Gb)/N) for identical structures).
    For every such operation the facts that hold on its path (if / ?: conditions, clang AST) must put the argument inside the domain."""
    cf = C.get(ctx.repo)
    norm = lambda t: re.sub(r"[\s()]", "", t)      # noqa: E731  (clang text is fully parenthesised; the operands here are products and sums of plain names)
    n_ops = n_bad = 0
    for fname in ("solve_cubic_equation", "quartic_equation_solve_exact"):
        fn = cf.function(TH, fname)
        ctx.analysed_functions.add(TH + ":" + fname)
        g = C.guards(fn)
        inits = {v.get("name"): norm(C.text(C.kids(v)[-1])) for v in C.walk(fn) if v["kind"] == "VarDecl" and C.kids(v)}
        for a in C.walk(fn):
            if a["kind"] == "BinaryOperator" and a.get("opcode") == "=" and C.ref_name(C.kids(a)[0]):
                inits.setdefault(C.ref_name(C.kids(a)[0]), norm(C.text(C.kids(a)[1])))
        pnames = {p.get("name") for p in C.fparams(fn)}
        delta_ok = inits.get("delta", "") in ("q*q*q+r*r", "r*r+q*q*q")

        def has(node, text, pol):
            return any(norm(f) == text and p == pol for f, p in g.get(node["id"], []))

        def strict_negative_delta(node):
            return delta_ok and (has(node, "delta<0.0", True) or has(node, "delta<0", True))

        def decide(node, what, ok, why):
            nonlocal n_ops, n_bad
            n_ops += 1
            n_bad += 0 if ok else 1
            ctx.decide(ok, "C06-R7", C.line(node), TH, fname, what, "", why)
        for n in C.walk(C.body_of(fn)):
            k = n["kind"]
            if k == "CallExpr":
                name = C.callee_name(n) or ""
                name = {"__builtin_sqrt": "sqrt", "__builtin_acos": "acos", "__builtin_pow": "pow"}.get(name, name)
                args = C.call_args(n)
                if name == "sqrt":
                    at = norm(C.text(args[0]))
                    core = at
                    lit = C.strip(args[0])["kind"] in ("FloatingLiteral", "IntegerLiteral")
                    if lit:
                        continue
                    if core in ("-q*q*q", "-q"):
                        decide(n, "sqrt(%s) is taken under delta = q^3 + r^2 < 0 (then q < 0)" % core, strict_negative_delta(n),
                               "sqrt(%s) is evaluated on a path where delta < 0 is not established: with delta = 0 and q = 0 the argument is 0 and the quotient r/sqrt(-q^3) is 0/0" % core)
                    elif core == "u1*u1-4.0*a0":
                        ctx.note("C06-R7", C.line(n), TH, fname, "sqrt(u1^2 - 4 a0)", "not decided: non-negative for a real root u1 of the resolvent when R = 0 (theory of the quartic), no guard in the code")
                    else:
                        ok = has(n, core + ">0.0", True) or has(n, core + ">=0.0", True) or has(n, core + ">0", True) or has(n, core + ">=0", True)
                        decide(n, "sqrt(%s) under %s >= 0" % (core, core), ok, "no condition on this path makes `%s` non-negative before its square root is taken" % core)
                elif name == "acos":
                    at = re.sub(r"[()]", "", norm(C.text(args[0])))
                    decide(n, "acos(r / sqrt(-q^3)) under delta < 0 (|argument| < 1)", at == "r/sqrt-q*q*q" and strict_negative_delta(n),
                           "acos(%s) is evaluated on a path where delta = q^3 + r^2 < 0 is not established: at a triple root (q = r = 0) the argument is 0/0 = NaN and every root becomes NaN" % norm(C.text(args[0])))
                elif name == "pow":
                    base = norm(C.text(args[0]))
                    core = base
                    if core.startswith("-"):
                        v = core[1:]
                        ok = has(n, v + ">=0.0", False) or has(n, v + ">0.0", False)
                    else:
                        ok = has(n, core + ">=0.0", True) or has(n, core + ">0.0", True)
                    decide(n, "pow(%s, 1/3) with a non-negative base" % core, ok and re.sub(r"[()]", "", norm(C.text(args[1]))) in ("1./3.", "1.0/3.0"), "cube root of `%s` through pow() on a path where its sign is not established" % core)
            elif k == "BinaryOperator" and n.get("opcode") == "/":
                d = C.strip(C.kids(n)[1])
                if d["kind"] in ("FloatingLiteral", "IntegerLiteral"):
                    continue
                dt = norm(C.text(d))
                if dt in pnames:
                    continue        # leading coefficient: call sites checked below
                if dt.startswith("sqrt"):
                    decide(n, "division by sqrt(-q^3) under delta < 0", strict_negative_delta(n), "division by `%s` on a path where delta < 0 is not established" % dt)
                else:
                    ok = has(n, dt + "!=0.0", True) or has(n, dt + "==0.0", False) or has(n, dt + "!=0", True)
                    decide(n, "division by %s under %s != 0" % (dt, dt), ok, "division by `%s` on a path where it may be zero" % dt)
    # leading coefficients are the literal 1.0 at both call sites
    for caller, callee, pos in (("DirectSolve", "quartic_equation_solve_exact", -1), ("quartic_equation_solve_exact", "solve_cubic_equation", 0)):
        fn = cf.function(TH, caller)
        calls = [n for n in C.walk(fn) if n["kind"] == "CallExpr" and C.callee_name(n) == callee]
        lead = [C.strip(C.call_args(c)[pos]) for c in calls]
        ok = len(calls) == 1 and lead[0]["kind"] == "FloatingLiteral" and float(lead[0].get("value")) == 1.0
        n_ops += 1
        ctx.decide(ok, "C06-R7", C.line(calls[0]) if calls else C.line(fn), TH, caller, "%s is called with leading coefficient 1.0 (the divisions by it are exact)" % callee, "", "leading coefficient passed to %s is not the literal 1.0" % callee)
    if n_ops < 12 and not n_bad:
        raise AnalysisError("C06-R7: only %d partial operations found in the cubic / quartic solvers (20 on the tree the rule was written for; a refactoring that shares sub-expressions lowers the count)" % n_ops)


# ---------------------------------------------------------------------------------------------------
def _subs(x, mapping):
    return Rat(x.n.subs(mapping), x.d.subs(mapping))


def _cbrt_idiom(c, a, b, n, st, ex_):
    """(X >= 0) ? pow(X, 1/3) : -pow(-X, 1/3)  is the real cube root of X"""
    from fractions import Fraction

    def single_opaque(v):
        p = v.poly() if isinstance(v, Rat) else None
        if p is None or len(p.t) != 1:
            return None
        (m, cf_), = p.t.items()
        if cf_ != 1 or len(m) != 1 or m[0][1] != 1 or m[0][0] not in ex_.opaque:
            return None
        return ex_.opaque[m[0][0]]
    oa = single_opaque(a)
    ob = single_opaque(-b) if isinstance(b, Rat) else None
    if oa and ob and oa[0] == "pow" and ob[0] == "pow" and oa[1][1].const_value() == Fraction(1, 3) and ob[1][1].const_value() == Fraction(1, 3) and ob[1][0] == -oa[1][0]:
        cs = c.poly() if isinstance(c, Rat) else None
        want = "(%s>=0)" % repr(oa[1][0])
        if cs is not None and len(cs.t) == 1 and list(cs.t)[0] == ((want, 1),):
            return ex_.opaque_call("cbrt", [oa[1][0]])
    return None


def _sqrt_order(opaque):
    """sqrt symbols, a symbol before every symbol that occurs in its argument"""
    syms = [s for s, (f, a) in opaque.items() if f == "sqrt"]
    out = []
    while syms:
        for s in syms:
            if not any(s in opaque[t][1][0].vars() for t in syms if t != s):
                out.append(s)
                syms.remove(s)
                break
        else:
            raise AnalysisError("cyclic sqrt symbols")
    return out


def r8_closed_form_roots(ctx):
    """The numbers the cubic and quartic solvers return are roots: substituting each returned expression into the polynomial gives zero modulo
    the defining relations of the radicals on that path (sqrt(u)^2 = u, cbrt(u)^3 = u, cbrt(u) cbrt(v) = cbrt(uv), the triple-angle identity
    for cos(acos(rho)/3), and - for the quartic - the resolvent cubic of which u1 is a root)."""
    from ..poly import rewrite_power
    cf = C.get(ctx.repo)
    one = Rat(Poly.const(1))

    def dec(ok, fname, node, what, why):
        ctx.decide(ok, "C06-R8", node, TH, fname, what, "", why)

    # ------------------------------------------------------------------ cubic
    fn = cf.function(TH, "solve_cubic_equation")
    ctx.analysed_functions.add(TH + ":solve_cubic_equation")
    ln = C.line(fn)
    ex = SymExec(cf, TH)
    ex.ternary_model = _cbrt_idiom
    a2, q, r = _sym("a2"), _sym("q"), _sym("r")
    a1 = 3 * q + a2 * a2 / 3
    a0 = a1 * a2 / 3 - 2 * r - 2 * a2 * a2 * a2 / 27
    st = State()
    for p, v in (("c3", one), ("c2", a2), ("c1", a1), ("c0", a0)):
        st.env[p] = v
    from ..symval import Addr
    for p in ("x1", "x2", "x3"):
        st.env[p] = Addr("out_" + p)
    try:
        outs = ex.run(C.kids(C.body_of(fn)), st)
    except Unsupported as e:
        ctx.undecided("C06-R8", ln, TH, "solve_cubic_equation", "roots", "not evaluable: %s" % e)
        outs = []

    def P3(x):
        return x * x * x + a2 * x * x + a1 * x + a0
    paths = {}
    for o in outs:
        key = tuple(p for _, p in o.conds)
        paths[key] = o
    if outs:
        o = outs[0]
        ok = o.env.get("q") == q and o.env.get("r") == r and o.env.get("delta") == q * q * q + r * r
        dec(ok, "solve_cubic_equation", ln, "with x^3 + a2 x^2 + a1 x + a0: q = a1/3 - a2^2/9, r = (a1 a2 - 3 a0)/6 - a2^3/27, delta = q^3 + r^2",
            "the invariants of the depressed cubic are computed as q = %r, r = %r, delta = %r for a1 = 3q + a2^2/3, a0 = a1 a2/3 - 2r - 2 a2^3/27" % (o.env.get("q"), o.env.get("r"), o.env.get("delta")))
        conds = [c for c, _ in max((o.conds for o in outs), key=len)]
        ok = [re.sub(r"[()\s]", "", c) for c in conds] == ["delta>0.0", "delta<0.0"] and set(paths) == {(True,), (False, True), (False, False)}
        dec(ok, "solve_cubic_equation", ln, "three cases: delta > 0, delta < 0, delta = 0", "the case split is %s" % sorted(paths))
    # delta > 0: one real root  s1 + s2 - a2/3
    o = paths.get((True,))
    if o is not None:
        x1 = o.env.get("out_x1")
        cb = [s for s, (f, a) in ex.opaque.items() if f == "cbrt" and s in x1.vars()]
        sq = [s for s, (f, a) in ex.opaque.items() if f == "sqrt" and any(s in ex.opaque[c][1][0].vars() for c in cb)]
        okshape = len(cb) == 2 and len(sq) == 1 and ex.opaque[sq[0]][1][0] == q * q * q + r * r
        if okshape:
            D = _sym(sq[0])
            args = {c: ex.opaque[c][1][0] for c in cb}
            okshape = all(a.poly() is not None for a in args.values()) and {repr(args[cb[0]] - r), repr(args[cb[1]] - r)} == {repr(D), repr(-D)}
        if not okshape:
            dec(False, "solve_cubic_equation", ln, "delta > 0: x1 = cbrt(r + sqrt(delta)) + cbrt(r - sqrt(delta)) - a2/3", "x1 is %r" % x1)
        else:
            E = P3(x1)
            num = E.n
            # cbrt(u) cbrt(v) = cbrt(uv) = cbrt(r^2 - delta) = cbrt(-q^3) = -q ; cbrt(u)^3 = u ; sqrt(delta)^2 = delta
            def step(md):
                e1, e2 = md.get(cb[0], 0), md.get(cb[1], 0)
                if e1 and e2:
                    k = min(e1, e2)
                    md[cb[0]] -= k
                    md[cb[1]] -= k
                    return _mono(md) * (-q.n) ** k
                for c in cb:
                    if md.get(c, 0) >= 3:
                        md[c] -= 3
                        return _mono(md) * args[c].poly()
                if md.get(sq[0], 0) >= 2:
                    md[sq[0]] -= 2
                    return _mono(md) * (q * q * q + r * r).n
                return None
            red = _reduce_poly(num, step)
            dec(red.is_zero() and o.ret is not None and o.ret.const_value() == 1, "solve_cubic_equation", ln, "delta > 0: x1 = cbrt(r + sqrt(delta)) + cbrt(r - sqrt(delta)) - a2/3 is a root; one real root reported",
                "p(x1) does not vanish modulo the radical relations (remainder %r); return value %r" % (red if len(red.t) < 6 else "%d terms" % len(red.t), o.ret))
    # delta < 0: trigonometric form
    o = paths.get((False, True))
    if o is not None:
        xs = [o.env.get("out_x%d" % k) for k in (1, 2, 3)]
        op = ex.opaque
        cos_s = [s for s, (f, a) in op.items() if f == "cos" and s in xs[0].vars()]
        ok = len(cos_s) == 1
        th = op[cos_s[0]][1][0] if ok else None
        ac = [s for s, (f, a) in op.items() if f == "acos" and ok and th == _sym(s) / 3]
        ok = ok and len(ac) == 1
        s3 = [s for s, (f, a) in op.items() if f == "sqrt" and a[0] == -(q * q * q)]
        s1 = [s for s, (f, a) in op.items() if f == "sqrt" and a[0] == -q]
        w = [s for s, (f, a) in op.items() if f == "sqrt" and a[0].const_value() == 3]
        sn = [s for s, (f, a) in op.items() if f == "sin" and ok and a[0] == th]
        ok = ok and len(s3) == 1 and len(s1) == 1 and len(w) == 1 and len(sn) == 1 and op[ac[0]][1][0] == r / _sym(s3[0])
        dec(ok, "solve_cubic_equation", ln, "delta < 0: theta = acos(r / sqrt(-q^3)) / 3, cos / sin of theta, sqrt(-q), sqrt(3)", "the trigonometric branch is built from %s" % sorted((f, repr(a[0])[:40]) for s, (f, a) in op.items() if s in xs[0].vars() | xs[1].vars()))
        if ok:
            Cc, Ss, SQ, W = _sym(cos_s[0]), _sym(sn[0]), _sym(s1[0]), _sym(w[0])
            # triple angle: cos(3 theta) = 4 C^3 - 3 C = r / sqrt(-q^3) = r / SQ^3   =>   r = SQ^3 (4 C^3 - 3 C);   q = -SQ^2
            rsub = (SQ * SQ * SQ * (4 * Cc * Cc * Cc - 3 * Cc)).poly()
            for k, x in enumerate(xs, 1):
                E = P3(x)
                E = _subs(E, {"r": rsub, "q": (-(SQ * SQ)).poly()})
                E = rewrite_power(E, sn[0], 2, one - Cc * Cc)
                E = rewrite_power(E, w[0], 2, Rat(Poly.const(3)))
                dec(E.n.is_zero(), "solve_cubic_equation", ln, "delta < 0: x%d is a root (triple-angle identity, sin^2 = 1 - cos^2)" % k,
                    "p(x%d) does not vanish for x%d = %r (remainder of %d terms)" % (k, k, x, len(E.n.t)))
            dec(o.ret is not None and o.ret.const_value() == 3, "solve_cubic_equation", ln, "delta < 0: three real roots reported", "return value %r" % o.ret)
    # delta == 0: repeated root
    o = paths.get((False, False))
    if o is not None:
        xs = [o.env.get("out_x%d" % k) for k in (1, 2, 3)]
        cb = [s for s, (f, a) in ex.opaque.items() if f == "cbrt" and a[0] == r]
        if len(cb) != 1 or any(set(x.vars()) - {"a2", cb[0]} for x in xs):
            dec(False, "solve_cubic_equation", ln, "delta = 0: roots from s = cbrt(r)", "roots are %r" % xs)
        else:
            s = _sym(cb[0])
            for k, x in enumerate(xs, 1):
                E = _subs(P3(x), {"r": (s * s * s).poly(), "q": (-(s * s)).poly()})      # r = s^3 and, from delta = 0, q = -s^2
                dec(E.n.is_zero(), "solve_cubic_equation", ln, "delta = 0: x%d is a root (r = s^3, q = -s^2)" % k, "p(x%d) does not vanish for x%d = %r" % (k, k, x))
    # ------------------------------------------------------------------ quartic (Ferrari, through the resolvent cubic)
    fnq = cf.function(TH, "quartic_equation_solve_exact")
    ctx.analysed_functions.add(TH + ":quartic_equation_solve_exact")
    lq = C.line(fnq)
    seen = {}

    def cm(name, args, n, st_, ex_):
        if name == "solve_cubic_equation":
            seen["args"] = args[:4]
            for k, a in zip(("xi1", "xi2", "xi3"), args[4:7]):
                st_.env[a.key] = _sym(k)
            return _sym("nr")
        return None
    exq = SymExec(cf, TH, call_model=cm)
    A0, A1, A2, A3 = _sym("a0"), _sym("a1"), _sym("a2"), _sym("a3")
    st = State()
    for p, v in (("d0", A0), ("d1", A1), ("d2", A2), ("d3", A3), ("d4", one)):
        st.env[p] = v
    for p in ("r1", "r2", "r3", "r4", "nr12", "nr34"):
        st.env[p] = Addr("out_" + p)
    try:
        outs = exq.run(C.kids(C.body_of(fnq)), st)
    except Unsupported as e:
        ctx.undecided("C06-R8", lq, TH, "quartic_equation_solve_exact", "roots", "not evaluable: %s" % e)
        return
    if "args" not in seen or seen["args"][0].const_value() != 1:
        dec(False, "quartic_equation_solve_exact", lq, "the resolvent cubic is solved in monic form", "solve_cubic_equation is called with %s" % (seen.get("args"),))
        return
    _, au2, au1, au0 = seen["args"]

    def P4(x):
        return x * x * x * x + A3 * x * x * x + A2 * x * x + A1 * x + A0
    n_checked = 0
    bad = []
    flags = sorted({v for o in outs for k in ("out_r1", "out_r2", "out_r3", "out_r4") for v in o.env[k].vars() if v.startswith("(")})
    from ..symval import elementary_facts
    for o in outs:
        # the case split, read off the values: the pair (r1, r2) / (r3, r4) is reported real when nr12 / nr34 is 2; the remaining test that
        # does not involve the number of roots of the resolvent compares R with 0; R = [R2 > 0] sqrt(R2) and R2 = a3^2/4 + u1 - a2
        n12, n34 = o.env.get("out_nr12"), o.env.get("out_nr34")
        pol = {"D2>=0.0": n12 is not None and n12.const_value() == 2, "E2>=0.0": n34 is not None and n34.const_value() == 2}
        rconds = []
        for (cv, pp), (txt, _p) in zip(o.cexprs, o.conds):
            fs = elementary_facts(exq, cv if cv is not None else txt, True)
            if len(fs) == 1 and fs[0][0] in ("!=", "==") and not (set(fs[0][1].vars()) & {"nr"}):
                rconds.append((fs[0][0], fs[0][1], pp))
        if len(rconds) != 1:
            dec(False, "quartic_equation_solve_exact", lq, "case split on R = 0", "path conditions are %s" % sorted(re.sub(r"[()\s]", "", c) for c, _p in o.conds))
            return
        rel_, Rv, pp = rconds[0]
        pol["R!=0.0"] = pp if rel_ == "!=" else (not pp)
        sq = [v for v in Rv.vars() if exq.opaque.get(v, ("",))[0] == "sqrt"]
        if len(sq) != 1:
            dec(False, "quartic_equation_solve_exact", lq, "R = sqrt(R2) when R2 > 0, else 0", "the quantity compared with 0 is %r" % Rv)
            return
        R2v = exq.opaque[sq[0]][1][0]
        u = R2v - A3 * A3 / 4 + A2
        choices = [{}]
        uf = [v for v in u.vars() if v.startswith("(")]
        if uf:
            choices = [{uf[0]: Poly.const(1)}, {uf[0]: Poly.const(0)}]
        for ch in choices:
            sub = dict(ch)
            uval = _subs(u, sub)
            xi = [v for v in uval.vars()]
            if len(xi) != 1 or uval != _sym(xi[0]) or xi[0] not in ("xi1", "xi3"):
                bad.append("u1 = %r is not one of the real roots x1 / x3 of the resolvent" % uval)
                continue
            xin = xi[0]
            X = _sym(xin)
            R2 = _subs(R2v, sub)
            gflag = [v for v in _subs(Rv, sub).vars() if v.startswith("(")]
            sub2 = dict(sub)
            for g in gflag:
                sub2[g] = Poly.const(1 if pol["R!=0.0"] else 0)
            extra = {}
            if not pol["R!=0.0"]:
                # R = 0 means R2 = 0: u1 = a2 - a3^2/4; the resolvent at that point is -(a1 - a2 a3/2 + a3^3/8)^2, hence a1 = a2 a3/2 - a3^3/8
                ustar = A2 - A3 * A3 / 4
                res = ustar * ustar * ustar + au2 * ustar * ustar + au1 * ustar + au0
                H = A1 - A2 * A3 / 2 + A3 * A3 * A3 / 8
                if not (res + H * H).n.is_zero():
                    bad.append("resolvent(a2 - a3^2/4) is not -(a1 - a2 a3/2 + a3^3/8)^2: the R = 0 case cannot be related to the coefficients")
                    continue
                extra = {xin: ustar.poly(), "a1": (A2 * A3 / 2 - A3 * A3 * A3 / 8).poly()}
            claimed = (["out_r1", "out_r2"] if pol["D2>=0.0"] else []) + (["out_r3", "out_r4"] if pol["E2>=0.0"] else [])
            for key in claimed:
                E = _subs(P4(o.env[key]), sub2)
                for s in _sqrt_order(exq.opaque):
                    if s not in E.n.vars() and s not in E.d.vars():
                        continue
                    arg = _subs(exq.opaque[s][1][0], sub2)
                    E = rewrite_power(E, s, 2, arg)
                if extra:
                    # eliminate u1 and a1; a remaining sqrt argument is rewritten with them too
                    E = Rat(E.n.subs({k: v for k, v in extra.items()}), E.d.subs({k: v for k, v in extra.items()}))
                    for s in _sqrt_order(exq.opaque):
                        if s in E.n.vars() or s in E.d.vars():
                            E = rewrite_power(E, s, 2, _subs(_subs(exq.opaque[s][1][0], sub2), extra))
                    # sqrt symbols whose names still mention the eliminated variables stand for the substituted arguments
                else:
                    E = rewrite_power(E, xin, 3, -(au2 * X * X + au1 * X + au0))
                n_checked += 1
                if not E.n.is_zero():
                    bad.append("%s on path %s (u1 = %s): p(root) leaves a remainder of %d terms" % (key[4:], sorted(k for k, v in pol.items() if v), xin, len(E.n.t)))
    # ---- the pairs reported as complex: DirectSolve takes the maximum over r1 .. r4 whatever nr12 / nr34 say, and for the symmetric key matrix all
    # roots are real, so D2 < 0 (E2 < 0) only arises from rounding next to a double root.  What is stored there must be that double root: the value of
    # the real branch with its radical set to zero (-a3/4 +- R/2), on the path that differs only in the sign of D2 (E2)
    def signature(o_, skip):
        return tuple(sorted((re.sub(r"\s", "", c_), p_) for c_, p_ in o_.conds if skip not in c_))
    cbad, n_pairs = [], 0
    for (test, keys) in (("D2", ("out_r1", "out_r2")), ("E2", ("out_r3", "out_r4"))):
        for o in outs:
            n_ = o.env.get("out_nr12" if test == "D2" else "out_nr34")
            if n_ is None or n_.const_value() != 0:
                continue
            twins_ = [o2 for o2 in outs if o2 is not o and signature(o2, test) == signature(o, test) and (o2.env.get("out_nr12" if test == "D2" else "out_nr34").const_value() == 2)]
            if len(twins_) != 1:
                cbad.append("the path with %s < 0 has %d sibling paths with %s >= 0" % (test, len(twins_), test))
                continue
            o2 = twins_[0]
            d_ = o2.env[keys[1]] - o2.env[keys[0]]
            rad = [v for v in d_.vars() if exq.opaque.get(v, ("",))[0] == "sqrt"]
            if len(rad) != 1:
                cbad.append("the two real roots of the %s >= 0 branch do not differ by one radical" % test)
                continue
            n_pairs += 1
            for k_ in keys:
                want_ = Rat(o2.env[k_].n.subs({rad[0]: Poly.const(0)}), o2.env[k_].d.subs({rad[0]: Poly.const(0)}))
                if not (o.env[k_] == want_):
                    cbad.append("%s on the path with %s < 0 is %s; the double root the real branch tends to is %s" % (k_[4:], test, repr(o.env[k_])[:60], repr(want_)[:60]))
    dec(not cbad and n_pairs >= 2, "quartic_equation_solve_exact", lq, "a pair reported as complex carries the double root of the real branch (its value with the radical at zero) - DirectSolve takes the maximum over all four (%d path pairs)" % n_pairs,
        "; ".join(cbad[:2]) if cbad else "only %d path pairs were found" % n_pairs)
    dec(not bad and n_checked >= 32, "quartic_equation_solve_exact", lq, "every root reported as real satisfies x^4 + a3 x^3 + a2 x^2 + a1 x + a0 = 0 modulo the radicals and the resolvent (%d root expressions on %d paths)" % (n_checked, len(outs)),
        "; ".join(bad[:3]) if bad else "only %d root expressions were reached" % n_checked)


def _mono(md):
    from fractions import Fraction
    return Poly({tuple(sorted((v, e) for v, e in md.items() if e)): Fraction(1)})


def _reduce_poly(p, step, limit=500):
    for _ in range(limit):
        out = Poly()
        changed = False
        for m, c in p.t.items():
            r = step(dict(m))
            if r is None:
                out = out + Poly({m: c})
            else:
                changed = True
                out = out + r * Poly.const(c)
        p = out
        if not changed:
            return p
    raise AnalysisError("radical reduction did not terminate")
