"""C07  Angles and dihedrals equal their geometric definitions, periodic or not (structural part).

R1 dispatch agreement for compute_angles / compute_dihedrals (shared engine with C05-R1) and FFI conformance of the wrappers
R2 index tables: the C kernels and the numpy references build the same bond vectors from the same atoms
R3 ranges by construction: the cosine is clipped to [-1, 1] before acos on every path; dihedrals come from atan2(p1, p2) with the documented p1, p2
R4 named-torsion tables vs the IUPAC-IUB definitions, plus internal invariants of the chi tables
"""
from __future__ import annotations

import ast
import re

from ..core import AnalysisError
from .. import cfront as C
from ..pyfront import dotted, call_name, kwarg, params, src, walk_no_nested, const
from . import c05

EXPLANATION = (
    'indices_phi / psi / omega are evaluated on a two-chain model topology (quadruples never cross a chain boundary); dispatchers are evaluated on a model trajectory.  Further: '
    "Angle / dihedral definitions decided structurally: dispatch and FFI conformance as for distances; the initializer lists of "
    "the C kernels and the column selections of the numpy references are evaluated to lists of (from, to) atom slots and compared; "
    "a guard analysis shows the cosine is clipped on every path before acos; the dihedral is atan2(|b2| b1.(b2xb3), (b1xb2).(b2xb3)) "
    "in both implementations; the named torsion tables are compared with the IUPAC-IUB 1970 definitions held in the checker and "
    "with three internal invariants (residue offsets, central bond named in the docstring, outward walk of the chi rows).")
NOT_DECIDED = ["numerical values and the sign convention as a numerical fact", "near-collinear / near-planar degeneracies"]
ASSUMPTIONS = ["IUPAC-IUB 1970: phi = C(i-1)-N-CA-C, psi = N-CA-C-N(i+1), omega = CA-C-N(i+1)-CA(i+1); chi_k over the side chain walked outward from N-CA-CB"]
FLOORS = {"C07-R1": 30, "C07-R2": 6, "C07-R3": 6, "C07-R4": 40}

ANG = "mdtraj/geometry/angle.py"
DIH = "mdtraj/geometry/dihedral.py"
GEO = "mdtraj/geometry/src/geometry.cpp"

IUPAC = {
    "PHI_ATOMS": ["-C", "N", "CA", "C"], "PSI_ATOMS": ["N", "CA", "C", "+N"], "OMEGA_ATOMS": ["CA", "C", "+N", "+CA"],
}
# side-chain torsions (IUPAC-IUB 1970 / standard rotamer library atom names)
CHI = {
    "CHI1_ATOMS": {("N", "CA", "CB", "CG"), ("N", "CA", "CB", "CG1"), ("N", "CA", "CB", "SG"), ("N", "CA", "CB", "OG"), ("N", "CA", "CB", "OG1")},
    "CHI2_ATOMS": {("CA", "CB", "CG", "CD"), ("CA", "CB", "CG", "CD1"), ("CA", "CB", "CG1", "CD1"), ("CA", "CB", "CG", "OD1"), ("CA", "CB", "CG", "ND1"), ("CA", "CB", "CG", "SD")},
    "CHI3_ATOMS": {("CB", "CG", "CD", "NE"), ("CB", "CG", "CD", "CE"), ("CB", "CG", "CD", "OE1"), ("CB", "CG", "SD", "CE")},
    "CHI4_ATOMS": {("CG", "CD", "NE", "CZ"), ("CG", "CD", "CE", "NZ")},
    "CHI5_ATOMS": {("CD", "NE", "CZ", "NH1")},
}


def _flat(n):
    if n["kind"] == "CompoundStmt":
        return [y for x in C.kids(n) for y in _flat(x)]
    return [n]


def _pairs_from_initlist(fn, name, idxvar):
    """int pairs[k] = {t[3*i+1], t[3*i], ...} -> list of slot numbers"""
    for n in C.walk(fn):
        if n["kind"] == "VarDecl" and n.get("name") == name and C.kids(n):
            init = C.strip(C.kids(n)[-1])
            if init.get("kind") == "InitListExpr":
                res = []
                for e in C.kids(init):
                    t = re.sub(r"\s", "", C.text(e))
                    m = re.match(r"^\w+\[\(?\(?\d\*%s\)?(?:\+(\d))?\)?\]$" % idxvar, t)
                    res.append(int(m.group(1) or 0) if m else None)
                return res
    return None


def check(ctx):
    ctx.rule("C07-R1", "compute_angles / compute_dihedrals choose the periodic path like the distance functions, pass the box in the same orientation and the wrappers map orthogonal correctly; FFI arguments match the C prototypes")
    ctx.rule("C07-R2", "angle: vectors (middle -> first) and (middle -> third); dihedral: consecutive bond vectors 0->1, 1->2, 2->3, in C and numpy alike")
    ctx.rule("C07-R3", "the argument of acos is clipped to [-1, 1] on all paths; the dihedral is atan2(|b2| b1.(b2 x b3), (b1 x b2).(b2 x b3))")
    ctx.rule("C07-R4", "PHI/PSI/OMEGA and CHI1..5 tables equal the IUPAC-IUB definitions; residue offsets parse to (-1,0,0,0),(0,0,0,1),(0,0,1,1); every chi(k+1) row continues a chi(k) row")
    cf = C.get(ctx.repo)
    c05.no_foreign_attribute_stores(ctx, "C07-R4", [ANG, DIH], floor=10)
    # ---- R1
    c05.dispatch_eval(ctx, "C07-R1", [(ANG, "compute_angles"), (DIH, "compute_dihedrals")])
    c05.wrappers(ctx, "C07-R1", ["_angle_mic", "_dihedral_mic"])
    c05.ffi(ctx, "C07-R1", ["_angle", "_angle_mic", "_dihedral", "_dihedral_mic"])
    # (that the reference path receives the trajectory, the indices and the caller's `periodic` is part of the dispatch evaluation)

    # ---- R2
    for kern in ("angle", "angle_mic", "angle_mic_triclinic"):
        fn = cf.function(GEO, kern)
        ctx.analysed_functions.add(GEO + ":" + kern)
        p = _pairs_from_initlist(fn, "pairs", "i")
        ctx.decide(p == [1, 0, 1, 2], "C07-R2", C.line(fn), GEO, kern, "pairs = (mid,first),(mid,third)", str(p), "angle kernel bond vectors are built from triplet slots %s (expected [1,0,1,2])" % p)
    for kern in ("dihedral", "dihedral_mic", "dihedral_mic_triclinic"):
        fn = cf.function(GEO, kern)
        ctx.analysed_functions.add(GEO + ":" + kern)
        p = _pairs_from_initlist(fn, "pairs", "i")
        ctx.decide(p == [0, 1, 1, 2, 2, 3], "C07-R2", C.line(fn), GEO, kern, "pairs = (0,1),(1,2),(2,3)", str(p), "dihedral kernel bond vectors are built from quartet slots %s" % p)
    # the kernels obtain their bond vectors from the matching distance kernel and read them back in the order they were requested
    for kern, dk, npairs in (("angle", "dist", 2), ("angle_mic", "dist_mic", 2), ("angle_mic_triclinic", "dist_mic_triclinic", 2),
                             ("dihedral", "dist", 3), ("dihedral_mic", "dist_mic", 3), ("dihedral_mic_triclinic", "dist_mic_triclinic", 3)):
        fn = cf.function(GEO, kern)
        calls = [n for n in C.walk(fn) if n["kind"] == "CallExpr" and (C.callee_name(n) or "").startswith("dist")]
        want = ["xyz", "pairs"] + (["box_matrix"] if "mic" in kern else []) + ["(&distances[0])", "(&displacements[0])", "n_frames", "n_atoms", str(npairs)]
        got = [re.sub(r"\s", "", C.text(a)) for a in C.call_args(calls[0])] if calls else None
        ctx.decide(len(calls) == 1 and C.callee_name(calls[0]) == dk and got == want, "C07-R2", C.line(fn), GEO, kern, "%s(%s)" % (dk, ", ".join(want)), "",
                   "%s obtains its bond vectors from %s(%s)" % (kern, C.callee_name(calls[0]) if calls else None, got))
        # which elements of the displacement / distance buffers a frame reads back is decided by value in R3 (frame 0 and frame 1)
    _references_by_evaluation(ctx)

    # ---- R3  (algebraic value numbering of the per-frame loop body; sa/symval.py)
    from ..symval import SymExec, State, Ptr, Unsupported as CUnsup
    from ..poly import Poly, Rat

    def frame_body(kern, jval=0):
        fn = cf.function(GEO, kern)
        loops = [n for n in C.walk(fn) if n["kind"] == "ForStmt"]
        conds = [(l, re.match(r"^\((\w+)<(\w+)\)$", re.sub(r"\s", "", C.text(C.kids(l)[1])))) for l in loops]
        inner = [(l, m.group(1)) for l, m in conds if m and m.group(2) == "n_frames"]
        outer = [m.group(1) for l, m in conds if m and inner and l is not inner[0][0] and any(x is inner[0][0] for x in C.walk(l))]
        if not inner or not outer:
            raise AnalysisError("%s: loops over the angles / dihedrals and over the frames not found" % kern)
        lb = [x for x in inner[0][0]["inner"] if isinstance(x, dict) and x.get("kind") == "CompoundStmt"][0]
        ex = SymExec(cf, GEO)
        st = State()
        st.env[inner[0][1]] = Rat(Poly.const(jval))     # frame 0, and frame 1 for the per-frame stride of the buffers
        st.env[outer[0]] = Rat(Poly.var("i"))
        st.env["displacements"] = Ptr("D", 0)
        st.env["distances"] = Ptr("L", 0)
        try:
            return fn, ex, ex.run(C.kids(lb), st)
        except CUnsup as e:
            raise AnalysisError("%s: %s" % (kern, e))
    D = [Rat(Poly.var("D[%d]" % k)) for k in range(9)]
    L = [Rat(Poly.var("L[%d]" % k)) for k in range(3)]

    def dot(a, b):
        return a[0] * b[0] + a[1] * b[1] + a[2] * b[2]

    def crs(a, b):
        return [a[1] * b[2] - a[2] * b[1], a[2] * b[0] - a[0] * b[2], a[0] * b[1] - a[1] * b[0]]

    def opaque_of(ex, v):
        p_ = v.poly() if v is not None else None
        if p_ is not None and len(p_.t) == 1:
            (m, c), = p_.t.items()
            if c == 1 and len(m) == 1 and m[0][1] == 1:
                return ex.opaque.get(m[0][0])
        return None
    for kern, jv in [(k_, j_) for k_ in ("angle", "angle_mic", "angle_mic_triclinic") for j_ in (0, 1)]:
        fn, ex, outs = frame_body(kern, jv)
        D = [Rat(Poly.var("D[%d]" % (k + 6 * jv))) for k in range(9)]
        L = [Rat(Poly.var("L[%d]" % (k + 2 * jv))) for k in range(3)]
        v1, v2 = D[0:3], D[3:6]
        want_free = dot(v1, v2) / (L[0] * L[1])
        got = []
        for o in outs:
            val = [v for k_, v in o.env.items() if isinstance(k_, tuple) and k_[0] == "out"]
            f = opaque_of(ex, val[0]) if len(val) == 1 else None
            got.append((tuple(p for _, p in o.conds), f))
        args = sorted([repr(f[1][0]) if f and f[0] == "acos" else "?" for _, f in got])
        free = [f for conds, f in got if f and f[0] == "acos" and f[1][0].const_value() is None]
        lo = [f for conds, f in got if f and f[0] == "acos" and f[1][0].const_value() == -1]
        hi = [f for conds, f in got if f and f[0] == "acos" and f[1][0].const_value() == 1]
        ok = len(got) == 3 and len(free) == 1 and len(lo) == 1 and len(hi) == 1 and free[0][1][0] == want_free
        ctx.decide(ok, "C07-R3", C.line(fn), GEO, kern, "angle = acos(clamp(v1.v2 / (|v1||v2|), -1, 1)) on every path", "",
                   "the per-frame result is acos of %s over the paths %s: the cosine of the two bond vectors is not clamped to [-1, 1] on every path (NaN for collinear atoms) or is not v1.v2/(|v1||v2|)"
                   % (args, [c for c, _ in got]))
        # the unclamped path is the one on which both tests failed
        conds = [c for c, f in got if f and f[0] == "acos" and f[1][0].const_value() is None]
        ctx.decide(bool(conds) and not any(conds[0]), "C07-R3", C.line(fn), GEO, kern, "the unclamped value is used only when -1 <= cosine <= 1", "", "path conditions of the unclamped result are %s" % conds)
    for kern, jv in [(k_, j_) for k_ in ("dihedral", "dihedral_mic", "dihedral_mic_triclinic") for j_ in (0, 1)]:
        fn, ex, outs = frame_body(kern, jv)
        D = [Rat(Poly.var("D[%d]" % (k + 9 * jv))) for k in range(9)]
        L = [Rat(Poly.var("L[%d]" % (k + 3 * jv))) for k in range(3)]
        b1, b2, b3 = D[0:3], D[3:6], D[6:9]
        c1, c2 = crs(b2, b3), crs(b1, b2)
        want_p1 = dot(b1, c1) * L[1]
        want_p2 = dot(c1, c2)
        ok = False
        why = "%d paths" % len(outs)
        if len(outs) == 1:
            val = [v for k_, v in outs[0].env.items() if isinstance(k_, tuple) and k_[0] == "out"]
            f = opaque_of(ex, val[0]) if len(val) == 1 else None
            ok = bool(f) and f[0] == "atan2" and f[1][0] == want_p1 and f[1][1] == want_p2
            why = "result is %s" % (repr(val[0])[:160] if val else None)
        ctx.decide(ok, "C07-R3", C.line(fn), GEO, kern, "dihedral = atan2(|b2| b1.(b2xb3), (b2xb3).(b1xb2))", "", "the per-frame result is not atan2(|b2| b1.(b2xb3), (b1xb2).(b2xb3)): %s" % why)
    # ---- R4
    mod = ctx.py.mod(DIH)
    for name, want in IUPAC.items():
        v = const(mod.module_assign(name))
        ctx.decide(v == want, "C07-R4", mod.module_assign(name) or mod.tree, DIH, name, "%s == %s" % (name, want), "", "%s is %s; IUPAC-IUB defines %s" % (name, v, want))
        offs = tuple((-1 if a.startswith("-") else 1 if a.startswith("+") else 0) for a in (v or []))
        wo = {"PHI_ATOMS": (-1, 0, 0, 0), "PSI_ATOMS": (0, 0, 0, 1), "OMEGA_ATOMS": (0, 0, 1, 1)}[name]
        ctx.decide(offs == wo, "C07-R4", mod.module_assign(name) or mod.tree, DIH, name, "residue offsets %s" % (wo,), "", "residue offsets of %s are %s" % (name, offs))
    prev_rows = None
    for name in ("CHI1_ATOMS", "CHI2_ATOMS", "CHI3_ATOMS", "CHI4_ATOMS", "CHI5_ATOMS"):
        v = const(mod.module_assign(name))
        rows = {tuple(r) for r in (v or [])}
        ctx.decide(rows == CHI[name], "C07-R4", mod.module_assign(name) or mod.tree, DIH, name, "%s rows equal the IUPAC side-chain definitions (%d rows)" % (name, len(rows)), "",
                   "rows only in the code: %s; rows missing: %s" % (sorted(rows - CHI[name]), sorted(CHI[name] - rows)))
        for r in sorted(rows):
            ctx.decide(len(r) == 4 and len(set(r)) == 4, "C07-R4", mod.module_assign(name) or mod.tree, DIH, name, "row %s has four distinct atoms" % (r,), "", "malformed row %s" % (r,))
            if prev_rows is not None:
                cont = any(r[:3] == p[1:] for p in prev_rows)
                ctx.decide(cont, "C07-R4", mod.module_assign(name) or mod.tree, DIH, name, "row %s continues a row of the previous chi" % (r,), "",
                           "row %s of %s does not start with the last three atoms of any row of the previous chi table: the side chain is not walked outward" % (r, name))
        prev_rows = rows
    # indices_phi / psi / omega evaluated (sa/tensym.py, with _atom_sequence, _construct_atom_dict, parse_offsets and _strip_offsets in scope) on a
    # model topology of two chains - residues 0..2 and 3..4, residue 1 without C, complete backbones on both sides of the chain boundary: the quadruples found are those of the
    # definition (atom `-X` in the previous residue *of the same chain*, `+X` in the next one, every atom present), in residue order
    _backbone_indices_by_evaluation(ctx, mod)
    for nm, tab in (("indices_phi", "PHI_ATOMS"), ("indices_psi", "PSI_ATOMS"), ("indices_omega", "OMEGA_ATOMS"), ("indices_chi1", "CHI1_ATOMS"), ("indices_chi2", "CHI2_ATOMS"),
                    ("indices_chi3", "CHI3_ATOMS"), ("indices_chi4", "CHI4_ATOMS"), ("indices_chi5", "CHI5_ATOMS")):
        f = ctx.py.func(DIH, nm)
        ctx.decide(tab in src(f) and not any(t in src(f) for t in (set(IUPAC) | set(CHI)) - {tab}), "C07-R4", f, DIH, nm, "uses %s" % tab, "", "%s does not use %s" % (nm, tab))
    for nm, idx in (("compute_phi", "indices_phi"), ("compute_psi", "indices_psi"), ("compute_omega", "indices_omega"), ("compute_chi1", "indices_chi1"), ("compute_chi2", "indices_chi2"),
                    ("compute_chi3", "indices_chi3"), ("compute_chi4", "indices_chi4"), ("compute_chi5", "indices_chi5")):
        f = ctx.py.func(DIH, nm)
        s = src(f)
        ctx.decide(("%s(traj.topology)" % idx) in s and "compute_dihedrals(traj, indices, periodic=periodic, opt=opt)" in s, "C07-R4", f, DIH, nm, "dihedral over %s, options forwarded" % idx, "",
                   "%s does not compute the dihedral over %s with the caller's periodic/opt" % (nm, idx))


def _backbone_indices_by_evaluation(ctx, mod):
    from ..tensym import TenSym, Ten, Obj
    from ..pysym import Unsupported as PUnsupported
    funcs = {q: f for q, f in mod.functions.items() if "." not in q}
    env = {}
    for name in list(IUPAC) + list(CHI):
        node = mod.module_assign(name)
        try:
            env[name] = ast.literal_eval(node) if node is not None else None
        except Exception:
            env[name] = None
    # the residues on both sides of the chain boundary (2 | 3) have complete backbones: a lookup that crosses it would find its atoms
    spec = [(0, 0, ["N", "CA", "C", "O"]), (0, 1, ["N", "CA", "CB"]), (0, 2, ["N", "CA", "C"]), (1, 3, ["C", "CA", "N"]), (1, 4, ["CA", "N", "C"])]
    chains = {}
    atoms = []
    residues = {}
    for ci, ri, names in spec:
        ch = chains.setdefault(ci, Obj(index=ci, residues=[]))
        r = Obj(index=ri, atoms=[], chain=ch)
        ch.residues.append(r)
        residues[ri] = r
        for nm in names:
            a_ = Obj(name=nm, index=len(atoms), residue=r)
            atoms.append(a_)
            r.atoms.append(a_)
    top = Obj(chains=[chains[k] for k in sorted(chains)], atoms=atoms, residues=[residues[k] for k in sorted(residues)], _isa=("Topology",))

    def idx(ri, nm):
        r = residues.get(ri)
        return None if r is None else next((a_.index for a_ in r.atoms if a_.name == nm), None)

    def definition(pattern):
        out = []
        for ci, ri, _n in spec:
            quad = []
            for nm in pattern:
                off = -1 if nm[0] == "-" else (1 if nm[0] == "+" else 0)
                base = nm[1:] if off else nm
                rr = ri + off
                same_chain = any(c == ci and r == rr for c, r, _x in spec)
                quad.append(idx(rr, base) if same_chain else None)
            if all(q is not None for q in quad):
                out.append(tuple(quad))
        return out
    for fname, tab in (("indices_phi", "PHI_ATOMS"), ("indices_psi", "PSI_ATOMS"), ("indices_omega", "OMEGA_ATOMS")):
        fn = mod.functions.get(fname)
        desc = "%s on the two-chain model topology: quadruples %s with -/+ atoms taken from the neighbouring residue of the same chain" % (fname, IUPAC[tab])
        if fn is None:
            ctx.undecided("C07-R4", mod.tree, DIH, fname, desc, "function not found")
            continue
        ts = TenSym(dict(env), funcs={k: v for k, v in funcs.items() if k != fname}, models={"hasattr": lambda ev, call: False, "warnings.warn": lambda ev, call: None})
        try:
            r = ts.run_fn(fn, top=top)
        except PUnsupported as e:
            ctx.undecided("C07-R4", fn, DIH, fname, desc, "not evaluable: %s" % e)
            continue
        got = None
        if isinstance(r, Ten) and r.ndim == 2 and r.shape[1] == 4:
            v = [x.const_value() for x in r.data]
            if all(c is not None for c in v):
                got = [tuple(int(c) for c in v[4 * k:4 * k + 4]) for k in range(r.shape[0])]
        want = definition(IUPAC[tab])
        ctx.decide(got == want, "C07-R4", fn, DIH, fname, desc, "%d quadruples" % len(want),
                   "returned %s; the definition gives %s (atom indices; chains are residues 0-2 and 3-4)" % (got if got is not None else "something that is not an (n, 4) index array", want))


def _references_by_evaluation(ctx):
    """The numpy references _angle and _dihedral evaluated whole (sa/tensym.py) on 2 frames x 2 rows of atom indices: compute_displacements is summarised as
    x[f, j] - x[f, i] for the pair (i, j) it is asked for (and must be handed the caller's `periodic`). Decided from what ends up in the caller's `out` array,
    which is all the callers look at:
       angle    out[f, r] = acos(clip(u.v / (|u||v|), -1, 1)),  u = x[a0] - x[a1],  v = x[a2] - x[a1]
       dihedral out[f, r] = atan2(|b2| b1.(b2 x b3), (b2 x b3).(b1 x b2)),  b1 = x[a1]-x[a0], b2 = x[a2]-x[a1], b3 = x[a3]-x[a2]"""
    from ..tensym import TenSym, Ten, Obj, Raised
    from ..pysym import Unsupported as PUnsup
    from ..poly import Poly, Rat
    NF = 2

    def X(f, a, k):
        return Rat(Poly.var("x[%d,%d,%s]" % (f, a, "xyz"[k])))

    def dot(u, v):
        return u[0] * v[0] + u[1] * v[1] + u[2] * v[2]

    def crs(u, v):
        return [u[1] * v[2] - u[2] * v[1], u[2] * v[0] - u[0] * v[2], u[0] * v[1] - u[1] * v[0]]

    for rel, name, rows, rule_desc in ((ANG, "_angle", [[4, 7, 2], [1, 0, 5]], "reference: out[f, r] = acos(clip(u.v/(|u||v|), -1, 1)) with u = x0 - x1, v = x2 - x1"),
                                       (DIH, "_dihedral", [[4, 7, 2, 9], [1, 0, 5, 3]], "reference: out[f, r] = atan2(|b2| b1.(b2xb3), (b2xb3).(b1xb2))")):
        fn = ctx.py.func(rel, name)
        ctx.analysed_functions.add(rel + ":" + name)
        pr = params(fn)
        if len(pr) != 4:
            ctx.undecided("C07-R3", fn, rel, name, rule_desc, "parameters are %s" % pr)
            continue
        for with_out in (True, False):
            periodic_seen = []

            def disp(ev, call, periodic_seen=periodic_seen):
                pairs = ev.to_ten(ev.ex(call.args[1]) if len(call.args) > 1 else ev.kw(call, "atom_pairs"))
                periodic_seen.append(ev.kw(call, "periodic", 2, True))
                if pairs.ndim != 2 or pairs.shape[1] != 2:
                    raise Raised("compute_displacements gets atom pairs of shape %s" % (pairs.shape,), "ValueError")
                data = []
                for f in range(NF):
                    for r in range(pairs.shape[0]):
                        i, j = ev.concrete(pairs.at((r, 0))), ev.concrete(pairs.at((r, 1)))
                        data.extend(X(f, j, k) - X(f, i, k) for k in range(3))
                return Ten((NF, pairs.shape[0], 3), data)
            ts = TenSym({}, models={"distance.compute_displacements": disp, "compute_displacements": disp})
            out = Ten.sym("undef_out", (NF, len(rows))) if with_out else None
            idx = ts.to_ten(rows)
            traj = Obj(tag="traj", _lenient=True)
            wdesc = rule_desc + (" (into the caller's out)" if with_out else " (returned when out is None)")
            try:
                ret = ts.run_fn(fn, **{pr[0]: traj, pr[1]: idx, pr[2]: "PER", pr[3]: out})
            except Raised as e:
                ctx.violated("C07-R3", fn, rel, name, wdesc, "%s raises %s" % (name, e.exc or e))
                continue
            except PUnsup as e:
                ctx.undecided("C07-R3", fn, rel, name, wdesc, "not evaluable: %s" % e)
                continue
            res = out if with_out else ret
            why = []
            if not isinstance(res, Ten) or res.shape != (NF, len(rows)):
                why.append("the result has shape %s" % (getattr(res, "shape", None),))
            else:
                for f in range(NF):
                    for r, at in enumerate(rows):
                        v = res.at((f, r))
                        vs = sorted(v.vars()) if v.poly() is not None else []
                        dec = ts.opaque.get(vs[0]) if len(vs) == 1 and (v - Rat(Poly.var(vs[0]))).n.is_zero() else None
                        if name == "_angle":
                            u = [X(f, at[0], k) - X(f, at[1], k) for k in range(3)]
                            w = [X(f, at[2], k) - X(f, at[1], k) for k in range(3)]
                            cosv = dot(u, w) / (ts.fn("sqrt", dot(u, u)) * ts.fn("sqrt", dot(w, w)))
                            ok = False
                            if dec and dec[0] == "acos":
                                a0 = dec[1][0]
                                avs = sorted(a0.vars()) if a0.poly() is not None else []
                                d2 = ts.opaque.get(avs[0]) if len(avs) == 1 and (a0 - Rat(Poly.var(avs[0]))).n.is_zero() else None
                                if d2 and d2[0] == "clip" and d2[1][1].const_value() == -1 and d2[1][2].const_value() == 1 and ts.equal(d2[1][0], cosv):
                                    ok = True
                            if not ok:
                                why.append("out[%d, %d] (atoms %s) is %s" % (f, r, at, repr(v)[:200]))
                        else:
                            b1 = [X(f, at[1], k) - X(f, at[0], k) for k in range(3)]
                            b2 = [X(f, at[2], k) - X(f, at[1], k) for k in range(3)]
                            b3 = [X(f, at[3], k) - X(f, at[2], k) for k in range(3)]
                            c1, c2 = crs(b2, b3), crs(b1, b2)
                            w1, w2 = dot(b1, c1) * ts.fn("sqrt", dot(b2, b2)), dot(c1, c2)
                            ok = bool(dec) and dec[0] == "arctan2" and ts.equal(dec[1][0], w1) and ts.equal(dec[1][1], w2)
                            if not ok:
                                why.append("out[%d, %d] (atoms %s) is %s" % (f, r, at, repr(v)[:200]))
            ctx.decide(not why, "C07-R3", fn, rel, name, wdesc, "2 frames x 2 rows", "; ".join(why[:2]))
            ctx.decide(bool(periodic_seen) and all(p_ == "PER" for p_ in periodic_seen), "C07-R2", fn, rel, name,
                       "the caller's `periodic` reaches every compute_displacements call" + ("" if with_out else " (out None)"), "%d calls" % len(periodic_seen),
                       "compute_displacements is called with periodic=%s" % (periodic_seen,))
