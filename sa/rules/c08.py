"""C08  Per-frame results depend only on that frame, not on neighbours or threads.

R1 OpenMP data-sharing discipline in every parallel region of the build (clang AST + pragma clauses)
R2 scratch that outlives a frame carries nothing: a buffer allocated outside the frame loop and read-modify-written by the
   per-frame callee must be re-initialised inside the loop
R3 prange discipline in the Cython modules: bodies write only arrays indexed by the prange variable; no in-place scalar operator
R4 sequential frame loops: per-frame containers are constructed inside the loop, frame pointers advance by the per-frame stride
"""
from __future__ import annotations

import ast
import os
import re

from ..core import AnalysisError
from .. import cfront as C
from .. import ceffects
from ..pyfront import dotted, call_name, kwarg, params, src, walk_no_nested, const

EXPLANATION = (
    'The hydrogen scratch vector is shown (value numbering, decoded path conditions) to be written for every residue that is not skipped; no kernel source or header declares a function-local static that is not a constant.  Further: '
    "Data-sharing analysis of every OpenMP region found in the clang AST of the kernels (regions are found by OMP*Directive "
    "nodes, clauses are read from the pragma text at the directive's line): every variable written inside a region must be "
    "declared inside it, listed private, be the work-shared loop variable, or be an array element whose address depends on the "
    "work-shared loop variable; callees invoked in a region are analysed for the parameters they write. Buffers that outlive a "
    "frame are classified by the callee's first access (plain store vs read-modify-write). prange loops in the Cython modules are "
    "checked through the desugarer; sequential frame loops of the C++ kernels are checked for per-frame construction and stride.")
NOT_DECIDED = ["bitwise determinism of floating-point arithmetic inside a single frame's kernel (no cross-frame or cross-thread state is the claim)",
               "NEON / generic variants of the RMSD headers (not part of this platform's build)"]
ASSUMPTIONS = ["OpenMP semantics: only the loop variable of a work-shared loop is predetermined private; everything declared outside the region is shared unless listed",
               "Cython turns an in-place operator on a scalar inside prange into a reduction"]
FLOORS = {"C08-R1": 30, "C08-R2": 3, "C08-R3": 18, "C08-R4": 8}

OMP_TUS = [("mdtraj/geometry/src/sasa.cpp", "sasa"), ("mdtraj/geometry/src/neighborlist.cpp", "_compute_neighborlist"),
           ("mdtraj/rmsd/src/center.cpp", "inplace_center_and_trace_atom_major")]
PRANGE_FILES = ["mdtraj/rmsd/_rmsd.pyx", "mdtraj/geometry/drid.pyx", "mdtraj/rmsd/_lprmsd.pyx", "mdtraj/geometry/src/_geometry.pyx",
                "mdtraj/geometry/neighbors.pyx", "mdtraj/geometry/neighborlist.pyx"]


def _pragma_text(repo, file_path, line):
    if not os.path.isabs(file_path):
        file_path = os.path.join(repo, file_path)
    try:
        lines = open(file_path, errors="replace").read().split("\n")
    except OSError:
        return ""
    i = line - 1
    # the directive node's line is the pragma line; walk up a little if needed
    for back in range(0, 4):
        if 0 <= i - back < len(lines) and "#pragma" in lines[i - back] and "omp" in lines[i - back]:
            i = i - back
            break
    txt = lines[i] if 0 <= i < len(lines) else ""
    while txt.rstrip().endswith("\\") and i + 1 < len(lines):
        i += 1
        txt = txt.rstrip()[:-1] + " " + lines[i]
    return txt


def _clauses(pragma):
    res = {}
    for m in re.finditer(r"\b(private|firstprivate|lastprivate|shared|reduction|schedule|default|num_threads|collapse)\s*\(([^)]*)\)", pragma):
        res.setdefault(m.group(1), []).extend([x.strip() for x in m.group(2).split(",") if x.strip()])
    return res


def _all_omp_pragmas(repo):
    """(relpath, line) of every '#pragma omp' in the C/C++ sources of the build on this platform."""
    out = []
    for r in ("mdtraj/geometry/src", "mdtraj/geometry/include", "mdtraj/geometry/src/kernels", "mdtraj/rmsd/src", "mdtraj/rmsd/include"):
        d = os.path.join(repo, r)
        if not os.path.isdir(d):
            continue
        for f in sorted(os.listdir(d)):
            if not f.endswith((".c", ".cpp", ".h", ".hpp")) or f.startswith("_"):
                continue
            if f.endswith(("_arm.h", "_neon.h", "_generic.h")):
                continue   # not compiled on this platform (SSE path)
            for i, l in enumerate(open(os.path.join(d, f), errors="replace")):
                if re.match(r"\s*#\s*pragma\s+omp\s+(parallel|for)", l):
                    out.append((os.path.join(r, f), i + 1))
    return out


def check(ctx):
    ctx.rule("C08-R1", "inside every OpenMP parallel region each written variable is region-local, listed private, the work-shared loop variable, or an element whose "
                       "address depends on the work-shared loop variable; no reduction / thread-id dependence; callees write only such locations")
    ctx.rule("C08-R2", "a buffer allocated outside the frame loop whose elements the per-frame callee read-modify-writes (++, +=, *=) without a prior plain store must be "
                       "re-initialised inside the loop")
    ctx.rule("C08-R3", "prange bodies store only into arrays subscripted by the prange variable and into scalars by plain assignment")
    ctx.rule("C08-R4", "sequential frame loops construct their per-frame containers inside the loop (or overwrite them fully) and advance frame pointers by the per-frame stride")
    cf = C.get(ctx.repo)

    # ------------------------------------------------------------------ R1
    pragmas = _all_omp_pragmas(ctx.repo)
    found_dirs = 0
    for rel, fname in OMP_TUS:
        fn = cf.function(rel, fname)
        ctx.analysed_files.add(rel)
        ctx.analysed_functions.add(rel + ":" + fname)
        dirs = [n for n in C.walk(fn) if n["kind"] in ("OMPParallelDirective", "OMPParallelForDirective")]
        for d in dirs:
            found_dirs += 1
            _region(ctx, cf, rel, fname, fn, d)
    par_pragmas = [p for p in pragmas if re.search(r"parallel", open(os.path.join(ctx.repo, p[0]), errors="replace").read().split("\n")[p[1] - 1])]
    if found_dirs < len(par_pragmas):
        raise AnalysisError("source has %d '#pragma omp parallel' lines %s but only %d regions were analysed: a new parallel region is not covered"
                            % (len(par_pragmas), par_pragmas, found_dirs))

    # ------------------------------------------------------------------ R2
    _r2(ctx, cf)
    # ------------------------------------------------------------------ R3
    _r3(ctx)
    # ------------------------------------------------------------------ R4
    _r4(ctx, cf)
    r4_scratch_fully_written(ctx, cf)
    r4_carried_state(ctx, cf)
    no_state_between_calls(ctx, cf, "C08-R4")
    r4_no_hidden_frequency_filter(ctx)


def _decl_ids(node):
    return {n["id"]: n.get("name") for n in C.walk(node) if n["kind"] == "VarDecl"}


def _region(ctx, cf, rel, fname, fn, d):
    file_of = (d.get("range", {}).get("begin", {}).get("file") or d.get("range", {}).get("begin", {}).get("expansionLoc", {}).get("file")
               or os.path.join(ctx.repo, rel))
    ln = C.line(d)
    pragma = _pragma_text(ctx.repo, file_of, ln)
    cl = _clauses(pragma)
    where = "%s:%s" % (os.path.relpath(file_of, ctx.repo) if os.path.isabs(file_of) else file_of, ln)
    private = set(cl.get("private", []) + cl.get("firstprivate", []) + cl.get("lastprivate", []))
    # nested 'omp for' directives add their own private clauses and loop variables
    loopvars = set()
    for n in C.walk(d):
        if n["kind"] in ("OMPForDirective", "OMPParallelForDirective"):
            p2 = _pragma_text(ctx.repo, file_of, C.line(n))
            c2 = _clauses(p2)
            private |= set(c2.get("private", []) + c2.get("firstprivate", []) + c2.get("lastprivate", []))
            for k in ("reduction",):
                if k in c2:
                    cl.setdefault(k, []).extend(c2[k])
            for f in C.walk(n):
                if f["kind"] == "ForStmt":
                    init = C.kids(f)[0] if C.kids(f) else None
                    if init is not None:
                        if init["kind"] == "BinaryOperator" and init.get("opcode") == "=":
                            nm = C.ref_name(C.kids(init)[0])
                            if nm:
                                loopvars.add(nm)
                        elif init["kind"] == "DeclStmt":
                            for v in C.kids(init):
                                if v["kind"] == "VarDecl":
                                    loopvars.add(v.get("name"))
                    break
    rn = fn.get("_rename", {}) if isinstance(fn, dict) else {}
    private = {rn.get(x, x) for x in private}
    if not loopvars:
        # hand-written distribution of the frame loop: accepted only when start and stride are the thread number and the
        # size of the team that is actually running (both read inside the region)
        region_calls = {C.callee_name(n) for n in C.walk(d) if n["kind"] == "CallExpr"}
        loops = [n for n in C.walk(d) if n["kind"] == "ForStmt"]
        outer = loops[0] if loops else None
        txt = re.sub(r"\s", "", " ".join(C.text(k) for k in C.kids(outer)[:3])) if outer is not None else ""
        inside_ids = _decl_ids(d)
        stride_names = set(re.findall(r"\+=(\w+)", txt))
        stride_inside = bool(stride_names) and all(any(nm == v for v in inside_ids.values()) for nm in stride_names)
        if outer is not None and "omp_get_num_threads" in region_calls and "omp_get_thread_num" in region_calls and stride_inside:
            ctx.holds("C08-R1", ln, rel, fname, "region at %s" % where, "frame loop distributed by hand over omp_get_thread_num()/omp_get_num_threads() read inside the region")
        else:
            ctx.violated("C08-R1", ln, rel, fname, "region at %s" % where,
                         "the frame loop inside the parallel region is not work-shared (`omp for`) and its start/stride do not come from omp_get_thread_num()/omp_get_num_threads() "
                         "of the running team (loop header: %s; calls in region: %s): frames are skipped or computed twice when the team is smaller or larger than assumed"
                         % (txt[:80], sorted(x for x in region_calls if x and x.startswith("omp_"))))
        return
    desc0 = "region %s" % os.path.basename(where.split(":")[0])
    if "reduction" in cl:
        ctx.violated("C08-R1", ln, rel, fname, desc0 + " reduction(%s)" % ",".join(cl["reduction"]),
                     "an OpenMP reduction combines per-thread partial results in a schedule-dependent order: the result depends on the number of threads")
    sched = " ".join(cl.get("schedule", []))
    ctx.decide("dynamic" not in sched or True, "C08-R1", ln, rel, fname, desc0 + " schedule(%s)" % sched, "the schedule only assigns iterations; no value depends on it", "")
    # body of the region: statements captured
    inside = _decl_ids(d)
    # local pointer provenance inside the region: name -> 'malloc' | 'loopvar' | 'other'
    prov = {}
    for n in C.walk(d):
        if n["kind"] == "BinaryOperator" and n.get("opcode") == "=":
            l, r = C.kids(n)
            nm = C.ref_name(l)
            if nm and "*" in C.qtype(C.strip(l)):
                txt = C.text(r)
                if any(a in txt for a in ("malloc(", "calloc(", "new ")):
                    prov[nm] = "alloc"
                elif any(re.search(r"\b%s\b" % re.escape(v), txt) for v in loopvars):
                    prov[nm] = "loopvar"
                else:
                    prov.setdefault(nm, "other")
        if n["kind"] == "VarDecl" and "*" in C.qtype(n) and C.kids(n):
            txt = C.text(C.kids(n)[-1])
            if any(re.search(r"\b%s\b" % re.escape(v), txt) for v in loopvars):
                prov[n.get("name")] = "loopvar"
    omp_thread = [n for n in C.walk(d) if n["kind"] == "CallExpr" and (C.callee_name(n) or "").startswith("omp_get_thread_num")]
    ctx.decide(not omp_thread, "C08-R1", ln, rel, fname, desc0 + " no thread-id dependence", "", "omp_get_thread_num() is used inside the region")

    seen = set()

    def scalar_ok(name, rid):
        return rid in inside or name in private or name in loopvars

    def depends_on_loopvar(expr):
        txt = C.text(expr)
        return any(re.search(r"\b%s\b" % re.escape(v), txt) for v in loopvars)

    for n in C.walk(d):
        k = n["kind"]
        lhs = None
        if k in ("BinaryOperator", "CompoundAssignOperator") and (n.get("opcode") == "=" or k == "CompoundAssignOperator"):
            lhs = C.kids(n)[0]
        elif k == "UnaryOperator" and n.get("opcode") in ("++", "--"):
            lhs = C.kids(n)[0]
        elif k == "CXXOperatorCallExpr" and (C.callee_name(n) or "") in ("operator=", "operator+=", "operator-=", "operator*=", "operator/=") and C.call_args(n):
            lhs = C.call_args(n)[0]
        if lhs is not None:
            ls = C.strip(lhs)
            name, rid = C.root_var(lhs)
            if name is None:
                continue
            if ls.get("kind") == "DeclRefExpr":
                key = ("scalar", name)
                if key in seen:
                    continue
                seen.add(key)
                ok = scalar_ok(name, rid)
                ctx.decide(ok, "C08-R1", C.line(n), rel, fname, desc0 + " writes variable `%s`" % name,
                           "region-local / private / work-shared loop variable",
                           "`%s` is declared outside the parallel region, is written inside it (line %s: `%s`) and is not listed private: "
                           "it is shared between the threads (data race; only the work-shared loop's own variable is privatised)" % (name, C.line(n), C.text(n)[:50]))
            else:
                key = ("elem", name, C.text(lhs)[:40])
                if key in seen:
                    continue
                seen.add(key)
                if rid in inside or name in private:
                    # element of a private array / through a private pointer
                    p = prov.get(name)
                    isarray = "[" in C.qtype(C.strip(C.kids(C.strip(lhs))[0])) if C.kids(C.strip(lhs)) else False
                    ok = p in ("alloc", "loopvar") or p is None
                    ctx.decide(ok, "C08-R1", C.line(n), rel, fname, desc0 + " writes through private `%s`" % name,
                               "thread-private storage (%s)" % (p or "private array"),
                               "private pointer `%s` points into shared storage at an address that does not depend on the work-shared loop variable" % name)
                else:
                    ok = depends_on_loopvar(lhs)
                    ctx.decide(ok, "C08-R1", C.line(n), rel, fname, desc0 + " writes shared `%s`" % C.text(lhs)[:40],
                               "element address depends on the work-shared loop variable %s" % sorted(loopvars),
                               "shared location `%s` is written by every iteration at an address independent of the loop variable" % C.text(lhs)[:60])
        if k in ("CallExpr", "CXXMemberCallExpr"):
            cn = C.callee_name(n)
            if cn is None or cn in ceffects.HARMLESS or cn in ("malloc", "calloc") or cn.startswith(("_mm_", "operator")):
                continue
            args = C.call_args(n)
            if k == "CXXMemberCallExpr":
                callee = C.strip(C.kids(n)[0])
                obj = C.kids(callee)[0] if C.kids(callee) else None
                oname, oid = C.root_var(obj) if obj is not None else (None, None)
                mtype = C.qtype(callee)
                if oname and not (oid in inside or oname in private):
                    try:
                        mdecl = cf.function(rel, cn)
                        mtype = C.qtype(mdecl)
                    except AnalysisError:
                        pass
                    is_const = mtype.rstrip().endswith("const") or ") const" in mtype
                    key = ("method", cn)
                    if key not in seen:
                        seen.add(key)
                        ctx.decide(is_const, "C08-R1", C.line(n), rel, fname, desc0 + " calls %s.%s()" % (oname, cn), "const method on the shared object",
                                   "non-const method %s() is called on the shared object `%s` from all threads" % (cn, oname))
            wp = ceffects.written_params(cf, rel, cn)
            if wp is None:
                continue
            for j, a in enumerate(args):
                st = wp.get(j)
                if st is None or st[0] == "clean":
                    continue
                name, rid = C.root_var(a)
                if name is None:
                    continue
                key = ("callarg", cn, j)
                if key in seen:
                    continue
                seen.add(key)
                if rid in inside or name in private:
                    p = prov.get(name)
                    ok = p in ("alloc", "loopvar") or p is None
                    why = "thread-private buffer (%s)" % (p or "private")
                else:
                    ok = depends_on_loopvar(a)
                    why = "argument depends on the work-shared loop variable"
                ctx.decide(ok, "C08-R1", C.line(n), rel, fname, desc0 + " %s() writes its parameter %d <- `%s`" % (cn, j, C.text(a)[:30]), why,
                           "%s() writes through parameter %d, which receives the shared `%s` independent of the loop variable" % (cn, j, C.text(a)[:40]))


# ---------------------------------------------------------------------------------------------------
def _rmw_first(cf, rel, fname, pidx):
    """Does function fname read-modify-write elements of its parameter pidx without a plain store to that parameter? -> (bool, witness)"""
    fn = cf.function(rel, fname)
    ps = C.fparams(fn)
    pid = ps[pidx]["id"]
    rmw = []
    plain = []
    for n in C.walk(C.body_of(fn)):
        k = n["kind"]
        if k == "CompoundAssignOperator" or (k == "UnaryOperator" and n.get("opcode") in ("++", "--")):
            l = C.kids(n)[0]
            nm, rid = C.root_var(l)
            if rid == pid and C.strip(l).get("kind") != "DeclRefExpr":
                rmw.append(n)
        if k == "BinaryOperator" and n.get("opcode") == "=":
            l = C.kids(n)[0]
            nm, rid = C.root_var(l)
            if rid == pid and C.strip(l).get("kind") != "DeclRefExpr":
                plain.append(n)
        if k == "CallExpr" and C.callee_name(n) in ("memset",):
            a = C.call_args(n)
            if a and C.root_var(a[0])[1] == pid:
                plain.append(n)
    if rmw and not plain:
        return True, "%s:%s `%s`" % (rel, C.line(rmw[0]), C.text(rmw[0])[:60])
    return False, ""


def _r2(ctx, cf):
    # buffers allocated outside a frame loop and handed to a per-frame callee
    sites = [("mdtraj/geometry/src/sasa.cpp", "sasa"), ("mdtraj/geometry/src/geometry.cpp", "kabsch_sander"), ("mdtraj/geometry/src/dssp.cpp", "dssp")]
    n_sites = 0
    _seen_r2 = set()
    for rel, fname in sites:
        fn = cf.function(rel, fname)
        ctx.analysed_functions.add(rel + ":" + fname)
        body = C.body_of(fn)
        # frame loops: ForStmt whose condition mentions n_frames
        for loop in [n for n in C.walk(body) if n["kind"] == "ForStmt"]:
            ks = C.kids(loop)
            cond = ks[1] if len(ks) > 1 else None
            if cond is None or "n_frames" not in C.text(cond):
                continue
            loop_decls = _decl_ids(loop)
            lbody = ks[-1]
            for call in [n for n in C.walk(lbody) if n["kind"] == "CallExpr"]:
                cn = C.callee_name(call)
                if cn is None or cn in ceffects.HARMLESS:
                    continue
                wp = ceffects.written_params(cf, rel, cn)
                if not wp:
                    continue
                for j, a in enumerate(C.call_args(call)):
                    st = wp.get(j)
                    if st is None or st[0] != "writes":
                        continue
                    name, rid = C.root_var(a)
                    if name is None or rid in loop_decls:
                        continue   # constructed inside the loop
                    # outputs indexed by the frame (pointer arithmetic on the loop variable / advancing pointer) are not scratch
                    loopvar = None
                    init = ks[0]
                    if init["kind"] == "DeclStmt":
                        loopvar = [v.get("name") for v in C.kids(init) if v["kind"] == "VarDecl"]
                    elif init["kind"] == "BinaryOperator":
                        loopvar = [C.ref_name(C.kids(init)[0])]
                    if loopvar and any(re.search(r"\b%s\b" % re.escape(v), C.text(a)) for v in loopvar if v):
                        continue
                    is_param = any(p["id"] == rid for p in C.fparams(fn))
                    if is_param:
                        continue   # the caller's output array (advanced per frame; R4)
                    if (rel, fname, name, cn, j) in _seen_r2:
                        continue
                    _seen_r2.add((rel, fname, name, cn, j))
                    n_sites += 1
                    rmw, wit = _rmw_first(cf, rel, cn, j)
                    desc = "%s -> %s(param %d)" % (name, cn, j)
                    if not rmw:
                        ctx.holds("C08-R2", C.line(call), rel, fname, desc, "the callee only plain-stores into the buffer before reading it")
                        continue
                    # re-initialised inside the loop?  (directly or through a local pointer alias)
                    reinit = False
                    ids = {rid}
                    for n in C.walk(lbody):
                        if n["kind"] == "VarDecl" and "*" in C.qtype(n) and C.kids(n) and C.root_var(C.kids(n)[-1])[1] in ids:
                            ids.add(n["id"])
                    for n in C.walk(lbody):
                        if n["kind"] == "BinaryOperator" and n.get("opcode") == "=" and C.root_var(C.kids(n)[0])[1] in ids \
                                and C.strip(C.kids(n)[0]).get("kind") != "DeclRefExpr" and C.text(C.kids(n)[1]) in ("0", "0.0", "0.0f", "0f"):
                            reinit = True
                    for n in C.walk(lbody):
                        if n["kind"] == "CallExpr" and C.callee_name(n) in ("memset", "fill", "std::fill") and C.call_args(n) and C.root_var(C.call_args(n)[0])[1] == rid:
                            # memset counts bytes: clearing n elements takes n * sizeof(element) (a bare element count clears a quarter of a float buffer)
                            a_ = C.call_args(n)
                            if C.callee_name(n) != "memset" or (len(a_) == 3 and any(x_["kind"] == "UnaryExprOrTypeTraitExpr" for x_ in C.walk(a_[2]))):
                                reinit = True
                        if n["kind"] == "BinaryOperator" and n.get("opcode") == "=":
                            l = C.kids(n)[0]
                            if C.root_var(l)[1] == rid and C.strip(l).get("kind") != "DeclRefExpr" and C.line(n) is not None and C.line(call) is not None:
                                # zeroing loop textually inside the frame loop
                                if C.text(C.kids(n)[1]) in ("0", "0.0", "0.0f", "0f"):
                                    reinit = True
                    ctx.decide(reinit, "C08-R2", C.line(call), rel, fname, desc, "re-initialised inside the frame loop",
                               "`%s` is allocated once outside the frame loop, but %s() accumulates into it (%s) without resetting it: the result of a frame "
                               "depends on the frames the same thread processed before" % (name, cn, wit))
    if n_sites == 0:
        raise AnalysisError("C08-R2 found no scratch buffer crossing a frame loop")


# ---------------------------------------------------------------------------------------------------
def _r3(ctx):
    n_loops = 0
    from .. import effects
    eff = effects.get_effects(ctx)
    for rel in PRANGE_FILES:
        m = ctx.py.mod(rel)
        for q, fn in m.functions.items():
            if "." in q and not q.split(".")[0] in m.classes:
                pass
            for loop in [n for n in walk_no_nested(fn) if isinstance(n, ast.For) and isinstance(n.iter, ast.Call) and call_name(n.iter) == "prange"]:
                n_loops += 1
                ctx.analysed_functions.add(rel + ":" + q)
                iv = loop.target.id if isinstance(loop.target, ast.Name) else None
                desc0 = "prange(%s) in %s" % (iv, q)
                bad = []
                n_stores = 0
                for n in ast.walk(ast.Module(body=loop.body, type_ignores=[])):
                    if isinstance(n, ast.AugAssign):
                        if isinstance(n.target, ast.Name):
                            bad.append((n, "in-place operator on scalar `%s` inside prange: Cython makes it a reduction whose summation order depends on the schedule" % n.target.id))
                        elif isinstance(n.target, ast.Subscript):
                            n_stores += 1
                            if iv not in {x.id for x in ast.walk(n.target.slice) if isinstance(x, ast.Name)}:
                                bad.append((n, "`%s` is updated by every iteration at an index independent of the prange variable" % src(n.target)))
                    elif isinstance(n, ast.Assign):
                        for t in n.targets:
                            if isinstance(t, ast.Subscript):
                                n_stores += 1
                                if iv not in {x.id for x in ast.walk(t.slice) if isinstance(x, ast.Name)}:
                                    bad.append((n, "`%s` is written by every iteration at an index independent of the prange variable" % src(t)))
                    elif isinstance(n, ast.Call):
                        fi = eff.funcs.get((rel, q)) or eff.funcs.get((rel, q.split(".")[-1]))
                        d = call_name(n)
                        if d and fi is not None:
                            tgt = eff.resolve(fi, n)
                            if tgt and tgt[0] == "c":
                                wp = eff.c_written(tgt[1])
                                for j, a in enumerate(n.args):
                                    st = (wp or {}).get(j)
                                    if st is not None and st[0] == "writes" and isinstance(a, ast.Subscript):
                                        n_stores += 1
                                        if iv not in {x.id for x in ast.walk(a.slice) if isinstance(x, ast.Name)}:
                                            bad.append((n, "%s() writes through `%s`, whose index does not involve the prange variable" % (d, src(a))))
                for (n, why) in bad:
                    ctx.violated("C08-R3", n, rel, q, desc0 + ": `%s`" % src(n)[:50], why)
                if not bad:
                    ctx.holds("C08-R3", loop, rel, q, desc0 + " (%d stores)" % n_stores, "all stores are indexed by the prange variable; scalars are plainly assigned")
                # scalars assigned before use: every scalar read in the body that is also assigned in the body is assigned first (textual order inside a straight body)
                assigned = {}
                order_bad = None
                for st in loop.body:
                    reads = {x.id for x in ast.walk(st) if isinstance(x, ast.Name) and isinstance(x.ctx, ast.Load)}
                    tg = [t for t in (st.targets if isinstance(st, ast.Assign) else []) if isinstance(t, ast.Name)]
                    body_assigned = {t.id for s2 in loop.body if isinstance(s2, ast.Assign) for t in s2.targets if isinstance(t, ast.Name)}
                    for r in reads & body_assigned:
                        if r not in assigned and r != iv and not (isinstance(st, ast.Assign) and False):
                            # read of a loop-assigned scalar before its assignment in this iteration -> carried from the previous iteration
                            if not any(isinstance(t, ast.Name) and t.id == r for t in tg) or r in {x.id for x in ast.walk(st.value) if isinstance(x, ast.Name)}:
                                order_bad = (st, r)
                    for t in tg:
                        assigned[t.id] = True
                ctx.decide(order_bad is None, "C08-R3", loop, rel, q, desc0 + " scalars assigned before use", "",
                           "scalar `%s` is read before it is assigned in the iteration: it carries a value from another iteration" % (order_bad[1] if order_bad else ""))
    if n_loops < 9:
        raise AnalysisError("only %d prange loops found (9 confirmed by hand)" % n_loops)


# ---------------------------------------------------------------------------------------------------
def _r4(ctx, cf):
    # dssp: per-frame containers are declared inside the frame loop
    rel = "mdtraj/geometry/src/dssp.cpp"
    fn = cf.function(rel, "dssp")
    loops = [n for n in C.walk(C.body_of(fn)) if n["kind"] == "ForStmt" and len(C.kids(n)) > 1 and "n_frames" in C.text(C.kids(n)[1])]
    if not loops:
        raise AnalysisError("dssp(): frame loop not found")
    loop = loops[0]
    inside = {n.get("name") for n in C.walk(loop) if n["kind"] == "VarDecl"}
    for v in ("hbonds", "henergies", "framesecondary"):
        ctx.decide(v in inside, "C08-R4", C.line(loop), rel, "dssp", "`%s` constructed inside the frame loop" % v, "",
                   "`%s` is not constructed per frame: assignments of one frame leak into the next" % v)
    # output index and frame pointer by value (sa/symval.py, shared with C15-R1): residue j of frame i is written to secondary[i*n_residues + j], and the
    # per-frame kernels receive xyz + 3*i*n_atoms
    from .c15 import dssp_frame_by_value
    from ..poly import Poly, Rat
    fb = dssp_frame_by_value(ctx, cf)
    if fb["error"]:
        ctx.undecided("C08-R4", C.line(loop), rel, "dssp", "output index i*n_residues + j", fb["error"])
    else:
        iv = Rat(Poly.var(fb["ivar"] or "i"))
        want = iv * Rat(Poly.var("n_residues")) + Rat(Poly.var("j"))
        offs = [o_ for o_ in fb["offsets"].values()]
        ok = bool(offs) and all(isinstance(o_, Rat) and (o_ - want).n.is_zero() for o_ in offs)
        ctx.decide(ok, "C08-R4", C.line(loop), rel, "dssp", "output index i*n_residues + j", "", "per-frame output offset changed: %s" % sorted({repr(o_) for o_ in offs}))
        wantp = iv * Rat(Poly.var("n_atoms")) * 3
        ptrs = fb["frame_ptrs"]
        okp = len(ptrs) >= 2 and all(p_.base == "xyz" and isinstance(p_.off, Rat) and (p_.off - wantp).n.is_zero() for _, p_ in ptrs)
        ctx.decide(okp, "C08-R4", C.line(loop), rel, "dssp", "frame pointer xyz + i*n_atoms*3", "", "the per-frame kernels receive %s" % ([(n_, repr(p_)) for n_, p_ in ptrs],))
    # kabsch_sander: pointers advance by the per-frame stride at the end of each iteration
    rel = "mdtraj/geometry/src/geometry.cpp"
    fn = cf.function(rel, "kabsch_sander")
    loops = [n for n in C.walk(C.body_of(fn)) if n["kind"] == "ForStmt" and len(C.kids(n)) > 1 and "n_frames" in C.text(C.kids(n)[1])]
    if not loops:
        raise AnalysisError("kabsch_sander(): frame loop not found")
    loop = loops[0]
    adv = {}
    for n in C.kids(C.kids(loop)[-1]):
        if n["kind"] == "CompoundAssignOperator" and n.get("opcode") == "+=":
            adv[C.ref_name(C.kids(n)[0])] = re.sub(r"[\s()]", "", C.text(C.kids(n)[1]))
    for v, w in (("xyz", "n_atoms*3"), ("hbonds", "n_residues*2"), ("henergies", "n_residues*2")):
        ctx.decide(adv.get(v) == w, "C08-R4", C.line(loop), rel, "kabsch_sander", "%s += %s per frame" % (v, w), "", "`%s` advances by `%s` per frame (expected %s)" % (v, adv.get(v), w))
    # hcoords is rewritten for every frame before it is read
    calls = [C.callee_name(n) for n in C.kids(C.kids(loop)[-1]) if n["kind"] == "CallExpr"]
    ctx.decide(calls[:1] == ["ks_assign_hydrogens"], "C08-R4", C.line(loop), rel, "kabsch_sander", "hydrogens re-assigned first in every frame", "",
               "ks_assign_hydrogens is not the first statement of the frame loop: hydrogen positions of another frame are used")


def _must_store(n, target):
    """True when every path through statement n executes `<vec>.store(target)` (or assigns through target)."""
    k = n["kind"]
    if k == "CompoundStmt":
        return any(_must_store(c, target) for c in C.kids(n))
    if k == "IfStmt":
        ks = C.kids(n)
        return len(ks) > 2 and _must_store(ks[1], target) and _must_store(ks[2], target)
    if k in ("ForStmt", "WhileStmt"):
        return False
    for c in C.walk(n):
        if c["kind"] == "CXXMemberCallExpr" and (C.callee_name(c) or "") == "store":
            a = C.call_args(c)
            if a and C.root_var(a[0])[0] == target:
                return True
    return False


def r4_scratch_fully_written(ctx, cf):
    """hcoords outlives the frame loop of kabsch_sander: ks_assign_hydrogens must store the position of every residue it does not
    skip on every path, otherwise the value of the previous frame (or of the allocation) is read by ks_donor_acceptor."""
    from ..symval import SymExec, State, Ptr, Unsupported, elementary_facts, has_fact
    from ..poly import Poly, Rat
    rel = "mdtraj/geometry/src/geometry.cpp"
    fn = cf.function(rel, "ks_assign_hydrogens")
    ctx.analysed_functions.add(rel + ":ks_assign_hydrogens")
    ps = [p_.get("name") for p_ in C.fparams(fn)]
    if len(ps) != 5:
        raise AnalysisError("ks_assign_hydrogens(): %d parameters (5 expected)" % len(ps))
    xyz, nco, nres, hco, skip = ps
    lvs = set()
    for n in C.walk(fn):
        if n["kind"] == "ForStmt":
            init = [x for x in n.get("inner", []) if isinstance(x, dict) and "kind" in x]
            if init and init[0].get("kind") == "DeclStmt":
                lvs |= {v.get("name") for v in C.kids(init[0]) if v["kind"] == "VarDecl"}
    ex = SymExec(cf, rel, symbolic_loops=lvs)
    st = State()
    for p_ in C.fparams(fn):
        st.env[p_.get("name")] = Ptr(p_.get("name"), 0) if "*" in C.qtype(p_) else st.sym(p_.get("name"))
    try:
        outs = ex.run(C.kids(C.body_of(fn)), st)
    except Unsupported as e:
        ctx.undecided("C08-R4", C.line(fn), rel, "ks_assign_hydrogens", "hydrogen position written for every residue that is not skipped", "not evaluable: %s" % e)
        return
    if not ex.loops_seen:
        raise AnalysisError("ks_assign_hydrogens(): the loop over the residues was not met")
    rv = ex.loops_seen[0][0]
    var = lambda n_: Rat(Poly.var(n_))     # noqa: E731
    for which, flag, lanes in (("the first residue", var("%s[0]" % skip), (0, 1, 2)), ("residue %s of the loop" % rv, var("%s[%s]" % (skip, rv)), (4, 5, 6))):
        n_paths = 0
        bad = None
        for o in outs:
            facts = []
            for (cv, pol), (txt, _p) in zip(o.cexprs, o.cvals):
                facts += elementary_facts(ex, cv if cv is not None else txt, pol)
            if not has_fact(facts, "==", flag):
                continue        # skipped (or the flag is not tested on this path)
            n_paths += 1
            # the slot of the residue: three consecutive floats from hcoords[0] (first residue) / from the running pointer after one advance of 4 or,
            # indexed, from hcoords[4 * residue] (residue of the loop) - identified by the offsets stored, not by how the pointer is spelled
            from .. import symval as _SV
            offs = []
            for k_ in o.env:
                if isinstance(k_, tuple) and len(k_) == 2 and k_[0] == hco:
                    ov = Rat(Poly.const(k_[1])) if isinstance(k_[1], int) else _SV.OFFVALS.get(k_[1])
                    if ov is not None:
                        offs.append(ov)
            bases = [Rat(Poly.const(lanes[0]))] + ([4 * var(rv)] if lanes[0] else [])
            missing = list(lanes)
            for b_ in bases:
                if all(any(x_ == b_ + j_ for x_ in offs) for j_ in range(3)):
                    missing = []
            if missing:
                bad = bad or "on a path where %s is not skipped (conditions %s) components %s of its hydrogen position are not stored" % (which, [t for t, _p in o.cvals][:4], missing)
        if n_paths == 0:
            bad = bad or "no path on which %s is established as not skipped was found" % which
        ctx.decide(bad is None, "C08-R4", C.line(fn), rel, "ks_assign_hydrogens", "hcoords written on every path on which %s is not skipped" % which, "%d paths" % n_paths,
                   (bad or "") + ": the scratch vector, allocated once for all frames, keeps the value of the previous frame")


FRAME_LOOP_KERNELS = [("mdtraj/geometry/src/geometry.cpp", f) for f in (
    "dist", "dist_t", "dist_mic", "dist_mic_t", "dist_mic_triclinic", "dist_mic_triclinic_t", "angle", "angle_mic", "angle_mic_triclinic",
    "dihedral", "dihedral_mic", "dihedral_mic_triclinic", "kabsch_sander")] + [("mdtraj/geometry/src/sasa.cpp", "sasa"), ("mdtraj/geometry/src/dssp.cpp", "dssp")]


def _lhs_of(n):
    k = n["kind"]
    if k == "BinaryOperator" and n.get("opcode") == "=":
        return C.kids(n)[0], "="
    if k == "CompoundAssignOperator":
        return C.kids(n)[0], n.get("opcode")
    if k == "UnaryOperator" and n.get("opcode") in ("++", "--"):
        return C.kids(n)[0], n.get("opcode")
    if k == "CXXOperatorCallExpr":
        nm = C.callee_name(n) or ""
        if nm in ("operator=", "operator+=", "operator-=", "operator*=", "operator/="):
            return C.kids(n)[1], nm[8:]
    return None, None


def _refs(n, rid):
    return any(c["kind"] == "DeclRefExpr" and c["referencedDecl"].get("id") == rid for c in C.walk(n))


def r4_carried_state(ctx, cf):
    """A variable that outlives one iteration of a frame loop and is written in it is either an induction pointer (whole-variable += / -= of
    the per-frame stride at the top level of the body), an output pointer parameter, or assigned unconditionally at the top level of the body
    before anything in the iteration reads it. A write under a condition ("only when the box changed") makes frame i depend on earlier frames."""
    n_loops = 0
    for rel, fname in FRAME_LOOP_KERNELS:
        fn = cf.function(rel, fname)
        ctx.analysed_files.add(rel)
        ctx.analysed_functions.add(rel + ":" + fname)
        out_params = {p.get("id") for p in C.fparams(fn) if "*" in C.qtype(p) and not C.qtype(p).strip().startswith("const")}
        loops = [n for n in C.walk(C.body_of(fn)) if n["kind"] == "ForStmt" and len(n.get("inner", [])) >= 5 and n["inner"][2]
                 and re.search(r"\bn_(frames|times)\b", C.text(n["inner"][2]))]
        for L in loops:
            n_loops += 1
            body = L["inner"][4]
            stmts = C.kids(body) if body["kind"] == "CompoundStmt" else [body]
            inside = {n.get("id") for n in C.walk(L) if n["kind"] == "VarDecl"}
            ptr_ids = {n.get("id") for n in C.walk(fn) if n["kind"] in ("VarDecl", "ParmVarDecl") and C.qtype(n).rstrip().endswith("*")}
            writes = {}
            for n in C.walk(body):
                lhs, op = _lhs_of(n)
                if lhs is None:
                    continue
                name, rid = C.root_var(lhs)
                if rid is None or rid in inside or rid in out_params:
                    continue
                if rid in ptr_ids and C.strip(lhs)["kind"] != "DeclRefExpr":
                    continue        # store through a pointer into a heap buffer: re-initialisation of such buffers is rule C08-R2
                writes.setdefault((name, rid), []).append((n, op, C.strip(lhs)["kind"] == "DeclRefExpr"))
            top_ids = {id(C.strip(s)): k for k, s in enumerate(stmts)}
            top_ids.update({id(s): k for k, s in enumerate(stmts)})
            bad = []
            for (name, rid), ws in sorted(writes.items(), key=lambda kv: str(kv[0][0])):
                induction = all(whole and op in ("+=", "-=") and id(n) in top_ids and not _refs(C.kids(n)[1], rid) for n, op, whole in ws)
                if induction:
                    continue
                first = None
                for k, s in enumerate(stmts):
                    if _refs(s, rid):
                        first = (k, s)
                        break
                ok = False
                if first is not None:
                    s = C.strip(first[1])
                    lhs, op = _lhs_of(s)
                    ok = lhs is not None and op == "=" and C.strip(lhs)["kind"] == "DeclRefExpr" and C.root_var(lhs)[1] == rid and not _refs(C.kids(s)[-1], rid)
                if not ok:
                    bad.append((name, ws[0][0]))
            ctx.decide(not bad, "C08-R4", C.line(bad[0][1]) if bad else C.line(L), rel, fname,
                       "no state carried between iterations of the frame loop (%d written outer variables: %s)" % (len(writes), ", ".join(sorted(str(k[0]) for k in writes)) or "-"), "",
                       "`%s` lives across iterations of the frame loop and is written under a condition or read before it is assigned in the iteration: frame i then depends on earlier frames"
                       % ", ".join(b[0] for b in bad))
    if n_loops < 15:
        raise AnalysisError("only %d frame loops found in the geometry kernels (15 confirmed by hand)" % n_loops)


def r4_no_hidden_frequency_filter(ctx):
    """wernet_nilsson reports hydrogen bonds frame by frame: the shared helper must not drop a triplet because it is rare in the trajectory."""
    from .c14 import effective_freq
    HB = "mdtraj/geometry/hbond.py"
    m = ctx.py.mod(HB)
    ctx.analysed_functions.add(HB + ":wernet_nilsson")
    call, eff = effective_freq(m, "wernet_nilsson")
    ctx.decide(eff == 0.0, "C08-R4", call or m.functions["wernet_nilsson"], HB, "wernet_nilsson", "per-frame result: pre-filter frequency threshold is 0", "",
               "wernet_nilsson calls _compute_bounded_geometry with an effective freq of %r: a bond present in few frames of the trajectory is removed from the frames where it exists" % (eff,))


KERNEL_DIRS = ("mdtraj/geometry/src", "mdtraj/geometry/include", "mdtraj/rmsd/src", "mdtraj/rmsd/include")
_STATIC_CONTROL = """
int f(int n) {
  // static int not_this = 0;
  static float* table = NULL;
  const char* s = "static int x";
  return n;
}
static int g(int n) { return n; }
"""


def _static_locals(text):
    """[(line, declaration text)] of `static` declarations inside a function body (comments and string literals blanked; the braces of
    namespace / class / extern "C" blocks are not function bodies)."""
    t = re.sub(r"/\*.*?\*/", lambda m: re.sub(r"[^\n]", " ", m.group(0)), text, flags=re.S)
    t = re.sub(r"//[^\n]*", lambda m: " " * len(m.group(0)), t)
    t = re.sub(r'"(\\.|[^"\\\n])*"', lambda m: '"' + " " * (len(m.group(0)) - 2) + '"', t)
    out = []
    stack = []      # kind of every open brace: 'fn' | 'scope' | 'block'
    i, line = 0, 1
    stmt_start = 0
    while i < len(t):
        c = t[i]
        if c == "\n":
            line += 1
        if c == "{":
            head = t[stmt_start:i]
            if any(k == "fn" for k in stack):
                kind = "block"
            elif re.search(r"\b(namespace|class|struct|union|enum)\b[^;(){}]*$", head) or re.search(r'extern\s*"\s*C?\s*"\s*$', head) or re.search(r"=\s*$", head):
                kind = "scope"
            elif re.search(r"\)\s*(const\s*)?(:\s*[^{};]*)?$", head):
                kind = "fn"
            else:
                kind = "scope"
            stack.append(kind)
            stmt_start = i + 1
        elif c == "}":
            if stack:
                stack.pop()
            stmt_start = i + 1
        elif c == ";":
            head = t[stmt_start:i]
            if any(k == "fn" for k in stack) and re.match(r"\s*static\b", head):
                out.append((line - head.count("\n") + (len(head) - len(head.lstrip())) * 0, " ".join(head.split())))
            stmt_start = i + 1
        i += 1
    return out


def no_state_between_calls(ctx, cf, rule):
    """A kernel may not keep anything from one call to the next: a `static` local (a cached table, a buffer kept 'because it only depends on
    n') makes the result of a call depend on the calls before it and is shared by all threads.  Constants (static const ... = literal) are
    allowed.  Candidates are found on the token stream of every kernel source and header; each is confirmed on the clang AST."""
    ctrl = _static_locals(_STATIC_CONTROL)
    if [d for _l, d in ctrl] != ["static float* table = NULL"]:
        raise AnalysisError("no_state_between_calls: the built-in positive control is not recognised (%s)" % ctrl)
    n_files = 0
    found = []
    for d in KERNEL_DIRS:
        full = os.path.join(ctx.repo, d)
        if not os.path.isdir(full):
            continue
        for f in sorted(os.listdir(full)):
            if not f.endswith((".c", ".cpp", ".cc", ".h", ".hpp")):
                continue
            rel = d + "/" + f
            n_files += 1
            ctx.analysed_files.add(rel)
            with open(os.path.join(full, f), errors="replace") as fh:
                txt = fh.read()
            if txt.lstrip().startswith("/* Generated by Cython"):
                n_files -= 1        # build product of a .pyx (untracked): the wrapper's module state is not kernel state
                ctx.analysed_files.discard(rel)
                continue
            for line, decl in _static_locals(txt):
                m_ = re.match(r"static\s+const\b[^=]*=(.*)$", decl)
                if m_:
                    # a constant: its initialiser may only mention literals, macros in capitals and calls (no variable of the enclosing function)
                    names = [(x.group(1), x.group(2)) for x in re.finditer(r"\b([A-Za-z_]\w*)\b(\s*\()?", m_.group(1))]
                    if all(par or nm.isupper() or nm in ("float", "double", "int", "unsigned", "long", "char", "const", "sizeof", "f", "F", "u", "U", "l", "L", "x", "X", "e", "E") or re.fullmatch(r"[0-9a-fA-FxXuUlLfF]+", nm)
                           for nm, par in names):
                        continue
                if re.match(r"static\s+(inline\s+)?[\w:<>\*&\s]+\(", decl) and "=" not in decl:
                    continue        # a local function declaration
                found.append((rel, line, decl))
    if n_files < 8:
        raise AnalysisError("no_state_between_calls: only %d kernel sources found" % n_files)
    for rel, line, decl in found:
        ctx.violated(rule, line, rel, "(function-local static)", "`%s`" % decl[:60],
                     "`%s` lives on between calls: a later call (other size, other input) reuses what an earlier one left, and concurrent callers share it" % decl[:80])
    if not found:
        ctx.holds(rule, 1, KERNEL_DIRS[0], "(kernels)", "no kernel keeps a function-local static between calls", "%d sources and headers scanned" % n_files)
