"""C09  Observables are invariant under rigid motion and lattice translation (structural part: translation).

R1 C/C++ kernels: a difference-taint analysis (classes CONST < INV < BOX < LAT < REL < ABS) over the clang AST shows that absolute positions reach
   products, norms, math functions, comparisons and non-position outputs only after a subtraction of two positions (or of their mean)
R2 Python descriptors: the same analysis over numpy idioms (mean / centre of geometry subtracted before any product, norm or einsum)
R3 lattice translation: the minimum-image reduction acts on differences (shared with C05-R2 / C10-R1) and the cell list hashes wrapped positions (C10-R3)
"""
from __future__ import annotations

import ast
import re

from ..core import AnalysisError
from .. import cfront as C
from ..pyfront import dotted, call_name, kwarg, params, src, walk_no_nested, const

EXPLANATION = (
    "Translation invariance has a structural core that the property names itself: kernels work on coordinate differences. An abstract interpretation with the value classes "
    "ABS (a position), REL (difference of positions, or position minus mean), LAT (box vector times integer), BOX, INV (everything built from REL/INV only) and CONST is run over every "
    "geometry kernel (clang AST) and every Python descriptor that touches coordinates. ABS - ABS = REL, ABS +/- REL = ABS, REL +/- LAT = REL, REL * REL = INV; an ABS operand of a product, a norm, "
    "a math function, a comparison with a non-position, or a store into a result array is reported. Rotation invariance and float32 cancellation at large offsets are numerical and not decided.")
NOT_DECIDED = ["rotation invariance", "float32 cancellation for translations of hundreds of nm", "the voxel arithmetic of the cell list (positions are compared with box edges by design; C10-R3 decides the wrapping precondition)",
               "quadrature error of SASA under rotation"]
ASSUMPTIONS = ["parameter roles (which pointer holds positions, which the box) as tabulated in the checker and confirmed against the callers"]
FLOORS = {"C09-R1": 15, "C09-R2": 8, "C09-R3": 25}

CONST, INV, BOX, LAT, REL, ABS = range(6)
NAMES = ["CONST", "INV", "BOX", "LAT", "REL", "ABS"]

GEO = "mdtraj/geometry/src/geometry.cpp"
SASA = "mdtraj/geometry/src/sasa.cpp"
DSSP = "mdtraj/geometry/src/dssp.cpp"
DRID = "mdtraj/geometry/src/dridkernels.cpp"
NB = "mdtraj/geometry/src/neighbors.cpp"
NL = "mdtraj/geometry/src/neighborlist.cpp"

# function -> (position params, box params, position-valued scratch/outputs, result outputs)
KERNELS = [
    (GEO, "dist", {"xyz"}, set(), set(), {"distance_out", "displacement_out"}),
    (GEO, "dist_mic", {"xyz"}, {"box_matrix"}, set(), {"distance_out", "displacement_out"}),
    (GEO, "dist_mic_triclinic", {"xyz"}, {"box_matrix"}, set(), {"distance_out", "displacement_out"}),
    (GEO, "dist_t", {"xyz"}, set(), set(), {"distance_out", "displacement_out"}),
    (GEO, "dist_mic_t", {"xyz"}, {"box_matrix"}, set(), {"distance_out", "displacement_out"}),
    (GEO, "dist_mic_triclinic_t", {"xyz"}, {"box_matrix"}, set(), {"distance_out", "displacement_out"}),
    (GEO, "angle", {"xyz"}, set(), set(), {"out"}),
    (GEO, "angle_mic", {"xyz"}, {"box_matrix"}, set(), {"out"}),
    (GEO, "angle_mic_triclinic", {"xyz"}, {"box_matrix"}, set(), {"out"}),
    (GEO, "dihedral", {"xyz"}, set(), set(), {"out"}),
    (GEO, "dihedral_mic", {"xyz"}, {"box_matrix"}, set(), {"out"}),
    (GEO, "dihedral_mic_triclinic", {"xyz"}, {"box_matrix"}, set(), {"out"}),
    (GEO, "find_closest_contact", {"positions"}, {"box_vectors_pointer"}, set(), {"atom1", "atom2", "distance"}),
    (GEO, "ks_assign_hydrogens", {"xyz"}, set(), {"hcoords"}, set()),
    (GEO, "ks_donor_acceptor", {"xyz", "hcoords"}, set(), set(), set()),
    (GEO, "kabsch_sander", {"xyz"}, set(), {"hcoords"}, {"hbonds", "henergies"}),
    (SASA, "asa_frame", {"frame"}, set(), {"centered_sphere_points"}, {"areas"}),
    (DSSP, "calculate_bends", {"xyz"}, set(), set(), {"is_bend"}),
    (DRID, "drid_moments", {"coords"}, set(), set(), {"moments"}),
    (NB, "_compute_neighbors", {"frame_xyz"}, {"box_matrix"}, set(), {"result"}),
]


class Taint:
    def __init__(self, ctx, rel, fname, fn, pos, box, posout, results):
        self.ctx, self.rel, self.fname, self.fn = ctx, rel, fname, fn
        self.pos, self.box, self.posout, self.results = pos, box, posout, results
        self.env = {}
        self.viol = []      # (line, what)
        self.n_abs_reads = 0
        self.n_diffs = 0

    # ---- helpers
    def bad(self, n, what):
        key = (C.line(n), what)
        if key not in self.viol:
            self.viol.append(key)

    def cls_of_name(self, name, node=None):
        if name in self.pos or name in self.posout:
            return ABS
        if name in self.box:
            return BOX
        return self.env.get(name, INV)

    def join(self, *cs):
        cs = [c for c in cs if c is not None]
        return max(cs) if cs else CONST

    # ---- expressions
    def ex(self, n):
        n = C.strip(n)
        k = n.get("kind")
        ks = C.kids(n)
        if k in ("IntegerLiteral", "FloatingLiteral", "CXXBoolLiteralExpr", "CharacterLiteral", "StringLiteral", "CXXNullPtrLiteralExpr", "GNUNullExpr"):
            return CONST
        if k == "DeclRefExpr":
            return self.cls_of_name(n["referencedDecl"].get("name"))
        if k == "ArraySubscriptExpr":
            base = self.ex(ks[0])
            self.ex(ks[1])
            if base == ABS:
                self.n_abs_reads += 1
            return base
        if k == "MemberExpr":
            return self.ex(ks[0]) if ks else INV
        if k == "UnaryOperator":
            op = n.get("opcode")
            c = self.ex(ks[0])
            if op in ("-", "+", "*", "&", "++", "--"):
                return c
            if op == "!":
                if c == ABS:
                    self.bad(n, "absolute position used as a truth value")
                return INV
            return c
        if k in ("BinaryOperator", "CompoundAssignOperator", "CXXOperatorCallExpr"):
            if k == "CXXOperatorCallExpr":
                op = (C.callee_name(n) or "").replace("operator", "")
                args = C.call_args(n)
                if op == "[]":
                    c = self.ex(args[0])
                    self.ex(args[1])
                    return c
                if op == "()":
                    return self.join(*[self.ex(a) for a in args])
                if len(args) == 1:
                    return self.ex(args[0])
                a, b = args[0], args[1]
            else:
                op = n.get("opcode")
                a, b = ks[0], ks[1]
            if op == "=":
                cb = self.ex(b)
                self.assign(a, cb, n)
                return cb
            if op in ("+=", "-=", "*=", "/="):
                ca, cb = self.ex(a), self.ex(b)
                c = self.arith(op[0], ca, cb, n)
                self.assign(a, c, n)
                return c
            if op == ",":
                self.ex(a)
                return self.ex(b)
            ca, cb = self.ex(a), self.ex(b)
            if op in ("+", "-", "*", "/", "%"):
                return self.arith(op, ca, cb, n)
            if op in ("<", ">", "<=", ">=", "==", "!="):
                if (ca == ABS) != (cb == ABS) and CONST not in () and not self._is_null_test(a, b):
                    self.bad(n, "an absolute position is compared with a value that is not a position: `%s`" % C.text(n)[:70])
                return INV
            if op in ("&&", "||", "&", "|", "^", "<<", ">>"):
                return INV
            return self.join(ca, cb)
        if k == "ConditionalOperator":
            self.ex(ks[0])
            return self.join(self.ex(ks[1]), self.ex(ks[2]))
        if k in ("CXXConstructExpr", "CXXTemporaryObjectExpr", "InitListExpr", "CXXFunctionalCastExpr"):
            cs = [self.ex(x) for x in ks]
            nz = [c for c in cs if c != CONST]
            return self.join(*nz) if nz else CONST
        if k in ("CallExpr", "CXXMemberCallExpr"):
            return self.call(n)
        if k in ("UnaryExprOrTypeTraitExpr", "CXXThisExpr", "CXXDefaultArgExpr"):
            return CONST
        for x in ks:
            self.ex(x)
        return INV

    def _is_null_test(self, a, b):
        ta, tb = C.text(a), C.text(b)
        return "NULL" in (ta, tb) or ta == "0" or tb == "0"

    def arith(self, op, ca, cb, n):
        if op == "-":
            if ca == ABS and cb == ABS:
                self.n_diffs += 1
                return REL
            if ABS in (ca, cb):
                return ABS
            if REL in (ca, cb):
                return REL
            return self.join(ca, cb)
        if op == "+":
            if ca == ABS and cb == ABS:
                return ABS          # sums of positions only make sense as numerators of a mean; their use is checked downstream
            return self.join(ca, cb)
        if op in ("*", "/", "%"):
            if ABS in (ca, cb):
                other = cb if ca == ABS else ca
                if other != CONST or op != "*":
                    self.bad(n, "an absolute position enters a product / quotient: `%s`" % C.text(n)[:70])
                return ABS if other == CONST else INV
            if ca == BOX and cb in (INV, CONST) or cb == BOX and ca in (INV, CONST):
                return LAT
            if REL in (ca, cb) and BOX in (ca, cb):
                return INV          # fractional coordinate of a difference
            if ca == REL and cb == REL:
                return INV
            if REL in (ca, cb):
                return REL
            if LAT in (ca, cb):
                return LAT
            return self.join(ca, cb)
        return self.join(ca, cb)

    def call(self, n):
        name = C.callee_name(n) or ""
        args = C.call_args(n)
        obj = None
        if n["kind"] == "CXXMemberCallExpr":
            ks = C.kids(n)
            if ks and C.strip(ks[0]).get("kind") == "MemberExpr" and C.kids(C.strip(ks[0])):
                obj = C.kids(C.strip(ks[0]))[0]
        cs = [self.ex(a) for a in args]
        if name == "store" and obj is not None:
            self.assign(args[0], self.ex(obj), n)
            return CONST
        if name in ("push_back",) and obj is not None:
            self.assign(obj, self.join(*cs), n)
            return CONST
        if name in ("dot3", "dot4"):
            if ABS in cs:
                self.bad(n, "norm / dot product of an absolute position: `%s`" % C.text(n)[:70])
            return INV
        if name == "cross":
            if ABS in cs:
                self.bad(n, "cross product with an absolute position: `%s`" % C.text(n)[:70])
            return REL if REL in cs else self.join(*cs)
        if name in ("sqrt", "sqrtf", "acos", "acosf", "atan2", "atan2f", "fabs", "fabsf", "abs", "exp", "log", "cbrt", "cos", "sin", "isnan", "pow"):
            if ABS in cs:
                self.bad(n, "%s() of an absolute position" % name)
            return REL if (name in ("abs", "fabs", "fabsf") and REL in cs) else INV
        if name in ("round", "roundf", "floor", "floorf", "ceil", "ceilf"):
            if ABS in cs:
                self.bad(n, "%s() of an absolute position: a lattice reduction applied to a position instead of a difference" % name)
            return INV
        if name in ("min", "max"):
            if ABS in cs and any(c not in (ABS,) for c in cs):
                self.bad(n, "%s() mixes an absolute position with another kind of value" % name)
            return self.join(*cs)
        if name in ("printf", "fprintf", "exit", "moments_clear", "resize", "size", "begin", "end", "calloc", "malloc", "free", "memset"):
            return CONST if name not in ("size",) else INV
        # kernels called from kernels: positions may only go to position parameters
        table = {f: (p | po) for _, f, p, b, po, r in KERNELS}
        if name in table:
            cf = C.get(self.ctx.repo)
            try:
                callee = cf.function(self.rel, name)
                pn = [p.get("name") for p in C.fparams(callee)]
            except Exception:
                pn = []
            for a, c, p in zip(args, cs, pn):
                if c == ABS and p in table[name]:
                    self.n_abs_reads += 1
                if c == ABS and p not in table[name]:
                    self.bad(n, "positions are passed to parameter `%s` of %s, which does not hold positions" % (p, name))
                if c != ABS and p in table[name] and p not in {po for _, f, _, _, po, _ in KERNELS if f == name for po in po}:
                    self.bad(n, "parameter `%s` of %s expects positions but receives %s" % (p, name, NAMES[c]))
            # results of a callee: distances / displacements are INV / REL
            for a, p in zip(args, pn):
                if p in ("distance_out", "out", "distance"):
                    self.assign(a, INV, n)
                if p in ("displacement_out",):
                    self.assign(a, REL, n)
            return INV
        if ABS in cs:
            self.bad(n, "an absolute position is passed to %s()" % name)
        return INV if cs else CONST

    def assign(self, target, c, n):
        t = C.strip(target)
        name, _ = C.root_var(t)
        if name is None:
            return
        if name in self.results and c == ABS:
            self.bad(n, "an absolute position is stored in the result `%s`" % name)
        if name in self.pos or name in self.posout or name in self.box:
            return
        if t.get("kind") == "DeclRefExpr":
            self.env[name] = c
        else:
            self.env[name] = self.join(self.env.get(name, CONST), c)

    # ---- statements
    def st(self, n):
        k = n["kind"]
        if k == "CompoundStmt":
            for s in C.kids(n):
                self.st(s)
        elif k == "DeclStmt":
            for v in C.kids(n):
                if v["kind"] == "VarDecl":
                    ks = [x for x in C.kids(v) if "Attr" not in x["kind"]]
                    c = self.ex(ks[-1]) if ks else CONST
                    nm = v.get("name")
                    if nm in self.pos or nm in self.posout or nm in self.box:
                        continue
                    self.env[nm] = c
        elif k in ("ForStmt", "WhileStmt", "DoStmt"):
            for _ in range(2):
                for s in n.get("inner", []):
                    if isinstance(s, dict) and "kind" in s:
                        if s["kind"] in ("CompoundStmt", "DeclStmt", "IfStmt", "ForStmt", "ReturnStmt", "BreakStmt", "ContinueStmt", "NullStmt"):
                            self.st(s)
                        else:
                            self.ex(s)
        elif k == "IfStmt":
            ks = C.kids(n)
            self.ex(ks[0])
            for s in ks[1:]:
                self.st(s)
        elif k == "ReturnStmt":
            for s in C.kids(n):
                c = self.ex(s)
                if c == ABS:
                    self.bad(n, "an absolute position is returned")
        elif k in ("BreakStmt", "ContinueStmt", "NullStmt"):
            pass
        elif k.startswith("OMP"):
            for s in C.walk(n):
                if s["kind"] in ("ForStmt", "CompoundStmt") and s is not n:
                    self.st(s)
                    break
        else:
            self.ex(n)

    def run(self):
        b = C.body_of(self.fn)
        if b is None:
            raise AnalysisError("%s has no body" % self.fname)
        self.st(b)
        return self


def check(ctx):
    ctx.rule("C09-R1", "in every geometry kernel, values derived from position arrays reach products, norms, math functions, comparisons with non-positions and result arrays only after a difference of two positions")
    ctx.rule("C09-R2", "in every Python descriptor, coordinates reach products / norms / einsum only as differences or after subtraction of their mean or centre of geometry")
    ctx.rule("C09-R3", "lattice invariance: the rounding term of every minimum-image reduction is computed from a difference; the cell list works on wrapped positions")
    cf = C.get(ctx.repo)
    for rel, fname, pos, box, posout, results in KERNELS:
        fn = cf.function(rel, fname)
        ctx.analysed_files.add(rel)
        ctx.analysed_functions.add(rel + ":" + fname)
        pn = {p.get("name") for p in C.fparams(fn)}
        missing = (pos | box) - pn
        if missing:
            raise AnalysisError("%s: parameters %s of the role table do not exist (signature %s)" % (fname, sorted(missing), sorted(pn)))
        t = Taint(ctx, rel, fname, fn, pos, box, posout, results).run()
        if t.n_abs_reads == 0:
            raise AnalysisError("%s: no read of a position array was seen (role table stale?)" % fname)
        ctx.decide(not t.viol, "C09-R1", C.line(fn), rel, fname, "positions enter only through differences (%d position reads, %d differences)" % (t.n_abs_reads, t.n_diffs), "",
                   "; ".join("line %s: %s" % v for v in t.viol[:3]))
    r2(ctx)
    r3(ctx, cf)


# ---------------------------------------------------------------------------------------------------
# Python descriptors
# ---------------------------------------------------------------------------------------------------
PYFUNCS = [
    ("mdtraj/geometry/rg.py", "_compute_rg_xyz", {"xyz"}),
    ("mdtraj/geometry/rg.py", "compute_rg", set()),
    ("mdtraj/geometry/shape.py", "compute_gyration_tensor", set()),
    ("mdtraj/geometry/shape.py", "_compute_gyration_tensor_slow", set()),
    ("mdtraj/geometry/distance.py", "_distance", {"xyz"}),
    ("mdtraj/geometry/distance.py", "_distance_t", {"xyz"}),
    ("mdtraj/geometry/distance.py", "_displacement", {"xyz"}),
    ("mdtraj/geometry/distance.py", "_distance_mic", {"xyz"}),
    ("mdtraj/geometry/distance.py", "_distance_mic_t", {"xyz"}),
    ("mdtraj/geometry/distance.py", "_displacement_mic", {"xyz"}),
    ("mdtraj/geometry/distance.py", "compute_center_of_mass", set()),
    ("mdtraj/geometry/distance.py", "compute_center_of_geometry", set()),
]
_KEEP = {"transpose", "reshape", "astype", "copy", "swapaxes", "squeeze", "view", "T"}
_CENTROID = {"mean", "average"}
_PRODUCT_FUNCS = {"np.einsum", "np.dot", "np.linalg.norm", "np.inner", "np.outer", "np.cross", "np.sqrt", "np.square", "np.sum", "np.linalg.det", "np.linalg.eigvalsh", "np.linalg.eigh", "round", "np.round", "np.floor"}
_POS_VALUED = {"compute_center_of_mass", "compute_center_of_geometry"}


class PyTaint:
    def __init__(self, fn, pos_params):
        self.fn = fn
        self.env = {p: ABS for p in pos_params}
        self.viol = []
        self.n_abs = 0
        self.n_diff = 0

    def bad(self, n, what):
        k = (n.lineno, what)
        if k not in self.viol:
            self.viol.append(k)

    def ex(self, n):
        if isinstance(n, ast.Constant):
            return CONST
        if isinstance(n, ast.Name):
            c = self.env.get(n.id, INV)
            if c == ABS:
                self.n_abs += 1
            return c
        if isinstance(n, ast.Attribute):
            if n.attr == "xyz":
                self.n_abs += 1
                return ABS
            if n.attr in ("unitcell_vectors", "unitcell_lengths"):
                return BOX
            if n.attr in ("shape", "dtype", "ndim", "n_atoms", "n_frames", "size"):
                return CONST
            if n.attr in _KEEP:
                return self.ex(n.value)
            return INV if not isinstance(n.value, ast.Name) or self.env.get(n.value.id, INV) != ABS else ABS
        if isinstance(n, ast.Subscript):
            c = self.ex(n.value)
            for x in ast.walk(n.slice):
                if isinstance(x, (ast.Name, ast.Attribute)) and self.ex(x) == ABS:
                    self.bad(n, "an absolute position is used as an index")
            if c == ABS:
                self.n_abs += 1
            return c
        if isinstance(n, ast.UnaryOp):
            return self.ex(n.operand)
        if isinstance(n, ast.BinOp):
            a, b = self.ex(n.left), self.ex(n.right)
            if isinstance(n.op, ast.Sub):
                if a == ABS and b == ABS:
                    self.n_diff += 1
                    return REL
                if ABS in (a, b):
                    return ABS
                return max(a, b) if REL in (a, b) else max(a, b)
            if isinstance(n.op, ast.Add):
                return max(a, b)
            if isinstance(n.op, (ast.Mult, ast.Div, ast.Pow, ast.MatMult, ast.FloorDiv, ast.Mod)):
                if ABS in (a, b):
                    other = b if a == ABS else a
                    if isinstance(n.op, ast.Pow) or other != CONST:
                        # weights * positions (centre of mass) is the one legitimate product: the result is a position again when the weights sum to one
                        if isinstance(n.op, ast.Mult) and other == INV and self._is_weighting(n):
                            return ABS
                        self.bad(n, "an absolute position enters a product / power: `%s`" % src(n)[:70])
                    return ABS if other == CONST else INV
                if BOX in (a, b) and (a in (INV, CONST) or b in (INV, CONST)):
                    return LAT
                if a == REL and b == REL or isinstance(n.op, ast.Pow) and a == REL:
                    return INV
                if REL in (a, b) and BOX in (a, b):
                    return INV
                if REL in (a, b):
                    return REL
                return max(a, b)
            return max(a, b)
        if isinstance(n, ast.Compare):
            cs = [self.ex(n.left)] + [self.ex(c) for c in n.comparators]
            if ABS in cs and any(c != ABS for c in cs) and not any(isinstance(c, ast.Constant) and c.value is None for c in n.comparators):
                self.bad(n, "an absolute position is compared with a non-position: `%s`" % src(n)[:60])
            return INV
        if isinstance(n, (ast.Tuple, ast.List)):
            cs = [self.ex(e) for e in n.elts]
            return max(cs) if cs else CONST
        if isinstance(n, ast.Call):
            return self.call(n)
        if isinstance(n, ast.IfExp):
            self.ex(n.test)
            return max(self.ex(n.body), self.ex(n.orelse))
        if isinstance(n, (ast.ListComp, ast.GeneratorExp)):
            for g in n.generators:
                self.bind(g.target, self.ex(g.iter))
            return self.ex(n.elt)
        return INV

    def _is_weighting(self, n):
        s = src(n)
        return "masses" in s or "weights" in s or "mass" in s

    def call(self, n):
        cn = call_name(n) or ""
        args = [self.ex(a) for a in n.args]
        kws = [self.ex(k.value) for k in n.keywords]
        if isinstance(n.func, ast.Attribute):
            recv = self.ex(n.func.value)
            if n.func.attr in _KEEP or n.func.attr in ("min", "max"):
                return recv
            if n.func.attr in _CENTROID:
                return recv          # centroid of positions is a position; of differences a difference
            if n.func.attr == "sum":
                if recv == ABS and not self._divided_by_total(n):
                    return ABS       # numerator of a weighted mean; checked where it is used
                return recv
            if n.func.attr == "dot":
                if recv == ABS or ABS in args:
                    if self._is_weighting(n):
                        return ABS       # weights . positions with normalised weights: a position
                    self.bad(n, "dot product with absolute positions: `%s`" % src(n)[:70])
                return INV if REL in [recv] + args else max([recv] + args)
            if n.func.attr in ("append", "extend"):
                if isinstance(n.func.value, ast.Name):
                    self.env[n.func.value.id] = max(self.env.get(n.func.value.id, CONST), max(args) if args else CONST)
                return CONST
        last = cn.split(".")[-1]
        if last in _POS_VALUED:
            return ABS
        if cn in ("np.expand_dims", "np.asarray", "np.array", "np.ascontiguousarray", "ensure_type", "np.squeeze", "np.transpose", "np.concatenate", "np.vstack", "np.hstack", "np.stack", "np.empty_like", "np.zeros_like"):
            return args[0] if args and cn not in ("np.empty_like", "np.zeros_like") else CONST
        if cn in ("np.mean", "np.average"):
            return args[0] if args else INV
        if cn == "np.diff":
            if args and args[0] == ABS:
                self.n_diff += 1
                return REL
            return args[0] if args else INV
        if cn in ("enumerate", "zip", "list", "tuple", "iter", "reversed", "sorted"):
            return max(args) if args else CONST
        if cn in ("range", "len", "int", "float", "np.arange", "np.zeros", "np.empty", "np.ones", "np.eye", "np.full"):
            return CONST
        if cn in _PRODUCT_FUNCS or last in ("norm", "einsum", "dot"):
            if last == "einsum" and ABS in args and self._is_weighting(n) and sum(1 for a in args if a == ABS) == 1:
                return ABS           # weights . positions: a (weighted) centre
            if ABS in args:
                self.bad(n, "%s of absolute positions: `%s`" % (cn, src(n)[:70]))
            return INV
        if cn == "min" or cn == "max" or cn in ("np.minimum", "np.maximum"):
            return max(args) if args else INV
        if cn.startswith("_reduce_box_vectors"):
            return BOX
        if cn in ("np.float32", "np.float64", "np.double", "np.single"):
            return args[0] if args else CONST
        if last in ("compute_distances", "compute_displacements", "compute_angles", "compute_dihedrals", "_displacement", "_distance", "compute_distances_core"):
            return REL if "displacement" in last else INV
        if ABS in args + kws:
            # unknown callee receiving positions: keep the taint (conservative)
            return ABS
        return INV

    def _divided_by_total(self, n):
        return False

    def bind(self, target, c):
        if isinstance(target, ast.Name):
            self.env[target.id] = c
        elif isinstance(target, (ast.Tuple, ast.List)):
            for e in target.elts:
                # enumerate(...) -> (index, item)
                self.bind(e, c if not (isinstance(e, ast.Name) and e.id in ("i", "j", "k", "n", "idx")) else CONST)

    def st(self, s):
        if isinstance(s, ast.Assign):
            c = self.ex(s.value)
            for t in s.targets:
                if isinstance(t, ast.Name):
                    self.env[t.id] = c
                elif isinstance(t, (ast.Tuple, ast.List)):
                    if isinstance(s.value, (ast.Tuple, ast.List)) and len(s.value.elts) == len(t.elts):
                        for e, v in zip(t.elts, s.value.elts):
                            self.bind(e, self.ex(v))
                    else:
                        self.bind(t, c if not (isinstance(s.value, ast.Attribute) and s.value.attr == "shape") else CONST)
                elif isinstance(t, ast.Subscript) and isinstance(t.value, ast.Name):
                    self.env[t.value.id] = max(self.env.get(t.value.id, CONST), c)
        elif isinstance(s, ast.AugAssign):
            tgt = s.target
            a = self.ex(tgt)
            b = self.ex(s.value)
            fake = ast.BinOp(left=tgt, op=s.op, right=s.value)
            ast.copy_location(fake, s)
            c = self.ex(fake)
            base = tgt
            while isinstance(base, ast.Subscript):
                base = base.value
            if isinstance(base, ast.Name):
                self.env[base.id] = c if isinstance(tgt, ast.Name) else max(self.env.get(base.id, CONST), c)
        elif isinstance(s, ast.For):
            for _ in range(2):
                self.bind(s.target, self.ex(s.iter))
                for x in s.body:
                    self.st(x)
        elif isinstance(s, (ast.If, ast.While)):
            self.ex(s.test)
            for x in s.body + s.orelse:
                self.st(x)
        elif isinstance(s, ast.Return):
            if s.value is not None:
                self.ret = self.ex(s.value)
        elif isinstance(s, ast.Expr):
            self.ex(s.value)
        elif isinstance(s, (ast.With, ast.Try)):
            for x in getattr(s, "body", []):
                self.st(x)

    def run(self):
        self.ret = None
        for s in self.fn.body:
            self.st(s)
        return self


def r2(ctx):
    for rel, q, pos in PYFUNCS:
        fn = ctx.py.func(rel, q)
        ctx.analysed_files.add(rel)
        ctx.analysed_functions.add(rel + ":" + q)
        t = PyTaint(fn, pos).run()
        want_abs_result = q in _POS_VALUED
        if q == "compute_rg":
            ok = src(fn.body[-1]).replace(" ", "") == "return_compute_rg_xyz(traj.xyz,masses=masses)"
            ctx.decide(ok, "C09-R2", fn, rel, q, "delegates to _compute_rg_xyz(traj.xyz)", "", "compute_rg no longer delegates to _compute_rg_xyz")
            continue
        if t.n_abs == 0:
            raise AnalysisError("%s: no coordinate read seen" % q)
        ok = not t.viol and (t.ret != ABS or want_abs_result)
        why = "; ".join("line %s: %s" % v for v in t.viol[:3]) or ("the function returns a value of class %s" % NAMES[t.ret] if t.ret is not None else "")
        ctx.decide(ok, "C09-R2", fn, rel, q, "coordinates enter products only as differences (%d reads, %d differences; result %s)" % (t.n_abs, t.n_diff, NAMES[t.ret] if t.ret is not None else "-"), "", why)


def _closest_contact_lattice(ctx, cf):
    """find_closest_contact by value numbering (sa/symval.py; loops over symbolic indices, floorf opaque): the vector whose squared length is compared
    and stored differs from the plain difference of the two positions by an integer combination of the cell vectors - component k of the correction is
    sum_m n_m * box[3m + k] with the same integer-valued n_m (rounding terms) for k = 0, 1, 2.  Moving an atom by a lattice vector then changes the n_m
    and nothing else."""
    from ..symval import SymExec, State, Vec, Unsupported
    from ..poly import Poly, Rat
    fname = "find_closest_contact"
    fn = cf.function(GEO, fname)
    what = "the compared vector = x1 - x2 + integer combination of the cell vectors (same integers for the three components)"
    ex = SymExec(cf, GEO, symbolic_loops={"*"})
    try:
        outs = ex.run(C.kids(C.body_of(fn)), State())
    except Unsupported as e:
        ctx.undecided("C09-R3", C.line(fn), GEO, fname, what, "not evaluable: %s" % e)
        return
    ints = {sym for sym, (f_, a_) in ex.opaque.items() if f_ in ("floorf", "floor", "roundf", "round", "rintf", "rint", "nearbyintf", "lroundf", "lround")}
    done = 0
    for o in outs:
        facts = [(c, p) for c, p in o.cvals]
        if not any(p and "box_vectors_pointer" in c and "!=" in c.replace(" ", "") for c, p in facts) and not any((not p) and "box_vectors_pointer" in c and "==" in c for c, p in facts):
            continue
        # the vector compared: a lane vector whose squared length is the value stored as the running minimum
        vecs = [(k_, v_) for k_, v_ in o.env.items() if isinstance(v_, Vec)]
        r2s = [v_ for k_, v_ in o.env.items() if isinstance(v_, Rat) and v_.poly() is not None and v_.poly().degree() >= 2]
        delta = next((v_ for k_, v_ in vecs if any(v_[0] * v_[0] + v_[1] * v_[1] + v_[2] * v_[2] == r_ for r_ in r2s) and any(x_ in ints for l_ in range(3) for x_ in v_[l_].vars())), None)
        if delta is None:
            continue
        done += 1
        pos = [sorted(v for v in delta[k].vars() if v.startswith("positions[")) for k in range(3)]
        problems = []
        coeff = {}
        for k in range(3):
            p = delta[k].poly()
            if p is None:
                problems.append("component %d is not a polynomial in positions and cell vectors" % k)
                continue
            plain = Poly({})
            for mono, c in p.t.items():
                names = [n_ for n_, e_ in mono]
                boxn = [n_ for n_ in names if n_.startswith("box_vectors_pointer[")]
                if not boxn:
                    plain = plain + Poly({mono: c})
                    continue
                if len(boxn) != 1 or dict(mono)[boxn[0]] != 1:
                    problems.append("component %d has a term that is not linear in one cell-vector entry: %s" % (k, mono))
                    continue
                idx = int(boxn[0][len("box_vectors_pointer["):-1])
                m_, k2 = divmod(idx, 3)
                rest = tuple((n_, e_) for n_, e_ in mono if n_ != boxn[0])
                if any(n_ not in ints for n_, e_ in rest):
                    problems.append("component %d: the multiple of box[%d] is not a rounding term (%s)" % (k, idx, rest))
                    continue
                if getattr(c, "denominator", 1) != 1:
                    problems.append("component %d: box[%d] is taken %s times a rounding term - not a whole number of cell vectors" % (k, idx, c))
                    continue
                if k2 != k:
                    problems.append("component %d is corrected with box[%d], which is component %d of cell vector %d" % (k, idx, k2, m_))
                    continue
                coeff.setdefault(m_, {}).setdefault(k, Poly({}))
                coeff[m_][k] = coeff[m_][k] + Poly({rest: c})
            # what is left is the plain difference of two positions, component k
            okp = len(plain.t) == 2 and sorted(c_ for _, c_ in plain.t.items()) == [-1, 1] and all(len(m_) == 1 and m_[0][1] == 1 and m_[0][0].startswith("positions[") for m_ in plain.t)
            if not okp:
                problems.append("component %d without its lattice terms is %r, not the difference of two positions" % (k, Rat(plain)))
        for m_, per in sorted(coeff.items()):
            if set(per) != {0, 1, 2} or not (per[0] == per[1] == per[2]):
                problems.append("cell vector %d is subtracted %s times from the components %s: not one lattice vector" % (m_, [repr(Rat(per[k_])) for k_ in sorted(per)], sorted(per)))
        if set(coeff) != {0, 1, 2} and not problems:
            problems.append("only the cell vectors %s take part in the reduction" % sorted(coeff))
        ctx.decide(not problems, "C09-R3", C.line(fn), GEO, fname, what, "", "; ".join(problems[:2]))
        break
    if not done:
        ctx.undecided("C09-R3", C.line(fn), GEO, fname, what, "no path with a cell on which a reduced difference is compared was found")


def r3(ctx, cf):
    # the argument of every rounding call in the minimum-image kernels is built from a difference (REL) and box terms only
    for rel, fname, pos, box, posout, results in KERNELS:
        if not box:
            continue
        fn = cf.function(rel, fname)
        t = Taint(ctx, rel, fname, fn, pos, box, posout, results)
        seen = []
        orig = t.call

        def call(n, t=t, orig=orig, seen=seen):
            name = C.callee_name(n) or ""
            if name in ("round", "roundf", "floorf", "floor"):
                cs = [t.ex(a) for a in C.call_args(n)]
                seen.append((C.line(n), name, cs))
            return orig(n)
        t.call = call
        t.run()
        pos_round = [s for s in seen if ABS in s[2]]
        # rounding calls on box-only arguments belong to the box reduction; the others must see a difference
        rel_round = [s for s in seen if s[2] and s[2][0] in (INV, REL)]
        if fname.startswith(("angle", "dihedral", "kabsch")) or fname == "find_closest_contact" and not seen:
            continue
        ctx.decide(not pos_round and bool(seen), "C09-R3", C.line(fn), rel, fname, "%d rounding calls, none on an absolute position" % len(seen), "",
                   "a lattice reduction is computed from an absolute position (line %s): the result changes when an atom is moved by a lattice vector" % (pos_round[0][0] if pos_round else "?"))
    _closest_contact_lattice(ctx, cf)
    # an observable is lattice-invariant only if every distance it is built from is a minimum-image distance: `periodic` reaches every callee
    from .c05 import periodic_plumbing
    periodic_plumbing(ctx, "C09-R3", floor=20)
    # the cell list: wrapped copy (decided in C10-R3) - here only that the final distance test uses a difference
    fn = cf.function(NL, "getNeighbors")
    d = [v for v in C.walk(fn) if v["kind"] == "VarDecl" and v.get("name") == "delta" and C.kids(v) and re.sub(r"\s", "", C.text(C.kids(v)[-1])) == "(atomPos-centerPosVec)"]
    ctx.decide(len(d) == 1, "C09-R3", C.line(fn), NL, "Voxels::getNeighbors", "the accept test is computed from atomPos - centerPosVec", "", "the accept test of the cell list is not computed from a difference of positions")
    top = cf.function(NL, "_compute_neighborlist")
    rep = [n for n in C.walk(top) if n["kind"] == "BinaryOperator" and n.get("opcode") == "=" and C.ref_name(C.kids(n)[0]) == "atomLocations"]
    ctx.decide(bool(rep), "C09-R3", C.line(top), NL, "_compute_neighborlist", "periodic positions are wrapped before hashing (see C10-R3)", "", "the cell list hashes raw positions: results change when atoms are moved by lattice vectors")
